#!/usr/bin/env python3
"""Mechanical extractor: builds a single-file Verus unit from a template of
contracts and the *current* source text of /repo.

Template directives (all start with //@ at the beginning of a line):

  //@include <path relative to vx/>            textual include (recursive)
  //@map /regex/ => replacement                type/expression map (unit wide)
  //@type <file> :: <Name> [ghost="a: T, b: U"] [drop="f1,f2"] [derive-eq]
  //@const <file> :: NAME [:: ctx]
  //@fn <file> :: <ctx> :: <name> [ret=r] [props=C01,C02] [mode=body|trusted]
      <contract lines: requires/ensures/decreases, copied verbatim>
      //@loop <n> [iter=<name>]
          <invariant / decreases lines inserted before the loop body of the
           n-th loop keyword (for/while/loop) of the real function body>
      //@proof before|after|blockend /regex/
          <ghost statements inserted at the anchored position>
      //@sub /regex/ => replacement            logged local rewrite
  //@end

Everything else is copied verbatim.  The real signature is taken from /repo
(only the return value gets a name), the real body is pasted after the fixed
rewrites R1..R11 of DESIGN.md section 3.1; every rewrite is counted in the map
file written next to the unit.
"""
import json
import os
import re
import sys

sys.path.insert(0, os.path.dirname(os.path.abspath(__file__)))
from rustscan import (RustFile, tokenize, match_close, strip_comments, norm,
                      split_top_commas, OPEN, CLOSE)

VX_DIR = os.path.dirname(os.path.abspath(__file__))


class ExtractError(Exception):
    """anchor lost / unsupported construct -> exit 2 in the driver"""


# cfg atoms true in the verified configuration (default feature set, R4)
CFG_TRUE = {'feature="std"', 'feature="debug"', 'feature="use_backtrace"', 'feature="env_logger"',
            'feature="debug_enforcement_state"', 'feature="debug_node_state"',
            'feature="crypt"'}          # lightning-storage-server lib: default feature (values are encrypted after the MAC is appended)

DELETE_MACROS = {"debug", "info", "warn", "error", "trace", "dbgvals", "trace_enforcement_state",
                 "trace_node_state", "policy_log", "log", "println", "eprintln", "dbg",
                 "debug_vals", "vals_str", "scoped_debug_return"}
ABORT_MACROS = {"panic", "unreachable", "unimplemented", "todo"}


def tag_const(tag_literal):
    t = tag_literal.strip()
    if not (t.startswith('"') and t.endswith('"')):
        raise ExtractError("policy tag is not a string literal: %s" % t)
    return "T_" + re.sub(r"[^A-Za-z0-9]", "_", t[1:-1])


def eval_cfg(expr):
    e = expr.replace(" ", "")
    if e.startswith("not(") and e.endswith(")"):
        return not eval_cfg(e[4:-1])
    if e.startswith("all(") and e.endswith(")"):
        return all(eval_cfg(x) for x in split_top_commas(e[4:-1]))
    if e.startswith("any(") and e.endswith(")"):
        return any(eval_cfg(x) for x in split_top_commas(e[4:-1]))
    return e in CFG_TRUE


class Rewriter:
    """newline-preserving textual rewrites on a comment-stripped fragment"""

    unit_macros = {}
    noabort = False

    def abort_call(self):
        # R7: abort (assume false after it) by default; in `noabort` functions reaching it is an obligation
        return "vx_unreachable()" if self.noabort else "vx_abort()"

    def __init__(self, log, tags):
        self.log = log      # dict rule -> count
        self.tags = tags    # set of tag consts seen

    def count(self, rule, n=1):
        self.log[rule] = self.log.get(rule, 0) + n

    @staticmethod
    def pad(repl, orig):
        return repl + "\n" * orig.count("\n")

    def cfg_select(self, text):
        """R4: resolve #[cfg(..)] attributes on statements / expressions / blocks."""
        while True:
            m = re.search(r"#\s*\[\s*cfg\s*\(", text)
            if not m:
                return text
            toks = tokenize(text[m.start():])
            # toks: '#', '[', ...
            k = 0
            while toks[k].text != "[":
                k += 1
            e = match_close(toks, k)
            attr = text[m.start():m.start() + toks[e].end]
            inner = attr[attr.index("(") + 1:attr.rindex(")")]
            keep = eval_cfg(inner)
            after = m.start() + toks[e].end
            if keep:
                text = text[:m.start()] + self.pad("", attr) + text[after:]
                self.count("R4 cfg kept")
                continue
            # delete the attributed statement/expression: up to `;` or `,` at depth 0,
            # or a balanced block if it starts with `{`/keyword-block
            rest = tokenize(text[after:])
            depth = 0
            endoff = None
            j = 0
            while j < len(rest):
                t = rest[j]
                if t.kind == "punct":
                    if t.text in OPEN:
                        depth += 1
                    elif t.text in CLOSE:
                        depth -= 1
                        if depth < 0:
                            endoff = t.start
                            break
                        if depth == 0 and t.text == "}":
                            # block-like item ended; swallow a following `;` if any
                            endoff = t.end
                            jj = j + 1
                            while jj < len(rest) and rest[jj].kind == "ws":
                                jj += 1
                            if jj < len(rest) and rest[jj].text in (";", ","):
                                endoff = rest[jj].end
                            break
                    elif depth == 0 and t.text in (";", ","):
                        endoff = t.end
                        break
                j += 1
            if endoff is None:
                raise ExtractError("cannot delimit cfg'd item")
            dropped = text[m.start():after + endoff]
            text = text[:m.start()] + self.pad("", dropped) + text[after + endoff:]
            self.count("R4 cfg dropped")

    def local_macro_defs(self, text):
        """R19: `macro_rules! name { .. }` items inside a body are dropped (uses need a //@macro rule)"""
        pat = re.compile(r"macro_rules\s*!\s*(\w+)\s*\{")
        while True:
            m = pat.search(text)
            if not m:
                return text
            if m.group(1) not in Rewriter.unit_macros:
                raise ExtractError("local macro %s! has no //@macro rule" % m.group(1))
            toks = tokenize(text[m.end() - 1:])
            e = match_close(toks, 0)
            end = m.end() - 1 + toks[e].end
            if Rewriter.unit_macros[m.group(1)] == "@expand":
                # R19b: a local macro with ONE arm whose parameters are all `$name: expr` is expanded mechanically at its uses:
                # the rule becomes the arm's body with `$name` replaced positionally (each argument in parentheses)
                inner = text[m.end():end - 1]
                ma = re.match(r"\s*\(([^()]*)\)\s*=>\s*\{(.*)\}\s*;?\s*$", inner, re.S)
                if not ma or "=>" in ma.group(2).replace("=> {", ""):
                    raise ExtractError("R19b: local macro %s! is not a single-arm macro" % m.group(1))
                params = [q.strip() for q in ma.group(1).split(",") if q.strip()]
                body = ma.group(2)
                for k, q in enumerate(params):
                    mq = re.match(r"\$(\w+)\s*:\s*expr$", q)
                    if not mq:
                        raise ExtractError("R19b: parameter `%s` of local macro %s! is not `$x: expr`" % (q, m.group(1)))
                    body = re.sub(r"\$%s\b" % mq.group(1), "($%d)" % (k + 1), body)
                if re.search(r"\$[A-Za-z_(*]", body):
                    raise ExtractError("R19b: unsupported fragment in local macro %s!" % m.group(1))
                Rewriter.unit_macros[m.group(1)] = " ".join(body.split())
                self.count("R19b local macro_rules! %s expanded mechanically at its uses (body from the source)" % m.group(1))
            text = text[:m.start()] + self.pad("", text[m.start():end]) + text[end:]
            self.count("R19 local macro_rules! %s definition dropped" % m.group(1))

    def debug_guards(self, text):
        """R1: `let mut debug_on_return = scoped_debug_return!(..);` and `*debug_on_return = false;`"""
        pat = re.compile(r"let\s+mut\s+(\w+)\s*=\s*scoped_debug_return\s*!\s*\(")
        while True:
            m = pat.search(text)
            if not m:
                break
            toks = tokenize(text[m.end() - 1:])
            e = match_close(toks, 0)
            end = m.end() - 1 + toks[e].end
            m2 = re.compile(r"\s*;").match(text, end)
            end = m2.end() if m2 else end
            var = m.group(1)
            text = text[:m.start()] + self.pad("", text[m.start():end]) + text[end:]
            text, n = re.subn(r"\*\s*%s\s*=\s*false\s*;" % var, "", text)
            self.count("R1 scoped_debug_return guard deleted", 1 + n)
        return text

    def tag_literals(self, text):
        """R3b: every string literal "policy-..." is a policy tag id"""
        def f(m):
            t = tag_const(m.group(0))
            self.tags.add(t)
            self.count("R3 policy tag literal -> tag id")
            return t
        return re.sub(r'"policy-[a-z0-9\-]+"', f, text)

    def macros(self, text):
        """R1, R2, R3, R7 on macro invocations (innermost-last by repeated search)."""
        pos = 0
        pat = re.compile(r"(?:\b[a-z_][a-z0-9_]*\s*::\s*|::\s*)*\b([a-z_][a-z0-9_]*)\s*!\s*([(\[{])")
        while True:
            m = pat.search(text, pos)
            if not m:
                return text
            name = m.group(1)
            if name in ("if", "while", "return", "match", "in", "else", "let", "break", "as", "mut", "ref", "move", "for", "loop"):
                pos = m.end() - 1        # `if !(..)`, `return !(..)`: logical not, not a macro invocation
                continue
            # guard: `!=` cases like `a != (b)` -> name followed by `!` then `=`? pattern needs bracket so fine
            toks = tokenize(text[m.end() - 1:])
            e = match_close(toks, 0)
            inner = text[m.end():m.end() - 1 + toks[e].start]
            end = m.end() - 1 + toks[e].end
            whole = text[m.start():end]
            repl = None
            stmt = False
            if name == "macro_rules":
                # R19: a macro defined inside the function body; its uses are rewritten by a //@macro rule
                mname = re.match(r"\s*(\w+)", text[end:])
                # form is `macro_rules! name { ... }`: our regex matched `macro_rules!` + the bracket AFTER the name?
                raise ExtractError("macro_rules! inside a body must be deleted by local_macro_defs()")
            if name in Rewriter.unit_macros:
                repl = Rewriter.unit_macros[name]
                if "$" in repl:
                    margs = split_top_commas(self.macros(inner))
                    for k_, a_ in enumerate(margs, 1):
                        repl = repl.replace("$%d" % k_, a_)
                self.count("R2 unit macro %s!(..) -> %s" % (name, Rewriter.unit_macros[name]))
            elif name in DELETE_MACROS:
                repl = ""
                stmt = True
                self.count("R1 log/trace macro deleted")
            elif name == "log_enabled":
                repl = "false"
                self.count("R1 log_enabled! -> false (logging erased)")
            elif name in ("format", "format_args", "concat", "stringify"):
                repl = "vx_msg()"
                self.count("R2 format! -> vx_msg()")
            elif name == "short_function" or name == "function" or name == "containing_function":
                repl = "vx_msg()"
                self.count("R2 function-name macro -> vx_msg()")
            elif name in ("policy_err", "temporary_policy_err"):
                args = split_top_commas(self.macros(inner))
                if args[1].strip().startswith('"'):
                    tag = tag_const(args[1])
                    self.tags.add(tag)
                else:
                    tag = args[1].strip()      # a tag expression (already a tag id after R3b)
                obj = args[0]
                fn = "vx_policy_err" if name == "policy_err" else "vx_temporary_policy_err"
                repl = "%s(&%s, %s)?" % (fn, obj, tag)
                self.count("R3 %s! -> %s(..)?" % (name, fn))
            elif name == "transaction_format_err":
                repl = "return Err(vx_transaction_format_error())"
                self.count("R3 transaction_format_err! -> return Err(..)")
            elif name in ("assert", "debug_assert"):
                args = split_top_commas(self.macros(inner))
                repl = "if !(%s) { %s; }" % (args[0], self.abort_call())
                stmt = "block"
                self.count("R7 assert! -> %s guard" % self.abort_call())
            elif name in ("assert_eq", "debug_assert_eq"):
                args = split_top_commas(self.macros(inner))
                repl = "if !((%s) == (%s)) { %s; }" % (args[0], args[1], self.abort_call())
                stmt = "block"
                self.count("R7 assert_eq! -> %s guard" % self.abort_call())
            elif name in ("assert_ne", "debug_assert_ne"):
                args = split_top_commas(self.macros(inner))
                repl = "if (%s) == (%s) { %s; }" % (args[0], args[1], self.abort_call())
                stmt = "block"
                self.count("R7 assert_ne! -> %s guard" % self.abort_call())
            elif name == "catch_panic":
                args = split_top_commas(self.macros(inner))
                repl = "vx_catch_panic(%s)?" % args[0]
                self.count("R14 catch_panic!(e, ..) -> vx_catch_panic(e)? (Err models a caught panic)")
            elif name in ABORT_MACROS:
                repl = self.abort_call()
                self.count("R7 %s! -> %s" % (name, repl))
            elif name in ("vec", "matches"):
                # keep, but rewrite inside
                new_inner = self.macros(inner)
                text = text[:m.end()] + new_inner + text[m.end() + len(inner):]
                pos = m.end() + len(new_inner)
                continue
            else:
                raise ExtractError("unknown macro %s! (no rewrite rule)" % name)
            if stmt:
                # swallow the trailing `;`
                m2 = re.compile(r"\s*;").match(text, end)
                if m2:
                    whole = text[m.start():m2.end()]
                    end = m2.end()
                    if stmt is True:
                        repl = ""
                elif stmt is True:
                    repl = "()"
            text = text[:m.start()] + self.pad(repl, whole) + text[end:]
            pos = m.start() + len(repl)

    def unwrap_or_panic(self, text):
        """R7: `.unwrap_or_else(|e| panic!(..))` (already `vx_abort()` here) is an abort on Err/None -> .vx_expect()"""
        text, n = re.subn(r"\.unwrap_or_else\(\|\w+\|\s*\{?\s*vx_abort\(\)\s*\}?\s*\)", ".vx_expect()", text)
        if n:
            self.count("R7 .unwrap_or_else(|e| panic!(..)) -> .vx_expect() (abort on Err/None)", n)
        return text

    def unwraps(self, text):
        """R7: .unwrap() -> .vx_expect() (abort semantics) unless the function is `noabort`"""
        text, n = re.subn(r"\.\s*unwrap\s*\(\s*\)", ".vx_expect()", text)
        if n:
            self.count("R7 .unwrap() -> .vx_expect() (abort on None/Err)", n)
        return text

    def methods(self, text):
        """R7: .expect("..") -> .vx_expect()"""
        pat = re.compile(r"\.\s*expect\s*\(")
        pos = 0
        while True:
            m = pat.search(text, pos)
            if not m:
                break
            toks = tokenize(text[m.end() - 1:])
            e = match_close(toks, 0)
            end = m.end() - 1 + toks[e].end
            whole = text[m.start():end]
            repl = ".vx_expect()"
            text = text[:m.start()] + self.pad(repl, whole) + text[end:]
            pos = m.start() + len(repl)
            self.count("R7 .expect(..) -> .vx_expect() (abort on None/Err)")
        return text

    def format_concat(self, text):
        """R29 (opt-in per function, `fmtconcat`): `format!("a{}b{}", X, Y)` whose format string has only plain `{}` holes
        becomes the concatenation it denotes, piece by piece: vx_cat(vx_cat(vx_cat(vx_cat(vx_empty_string(), "a"),
        vx_disp(X)), "b"), vx_disp(Y)) - the literal pieces and their order are taken from the source, so a changed
        separator or a swapped argument changes the verified text.  Other format specs ({:?}, {name}, {:x}) -> undecided."""
        guard = 0
        while True:
            guard += 1
            if guard > 50:
                raise ExtractError("R29: too many rewrites")
            m = re.search(r"\bformat\s*!\s*\(", text)
            if not m:
                return text
            toks = tokenize(text[m.end() - 1:])
            e = match_close(toks, 0)
            inner = text[m.end():m.end() - 1 + toks[e].start]
            args = split_top_commas(inner)
            if not args or not re.match(r'^"(?:[^"\\]|\\.)*"$', args[0]):
                raise ExtractError("R29: format! without a literal format string")
            lit = args[0][1:-1]
            if re.search(r"\{[^}]+\}", lit) or "\\" in lit:
                raise ExtractError("R29: unsupported format spec in %s" % args[0])
            pieces = lit.split("{}")
            if len(pieces) - 1 != len(args) - 1:
                raise ExtractError("R29: format! holes and arguments differ")
            expr = "vx_empty_string()"
            for k, piece in enumerate(pieces):
                if piece:
                    expr = 'vx_cat(%s, "%s")' % (expr, piece)
                if k < len(args) - 1:
                    expr = "vx_cat(%s, vx_disp(%s).as_str())" % (expr, args[k + 1])
            text = text[:m.start()] + expr + text[m.end() - 1 + toks[e].end:]
            self.count("R29 format!(..) -> concatenation of its pieces")

    def option_closures(self, text):
        """R22 (opt-in per function, `optclosures`): Option combinators taking a closure are desugared to `match`, the
        closure body kept verbatim:  RECV.map(|x| BODY) -> (match RECV { Some(x) => Some(BODY), None => None }),
        RECV.unwrap_or_else(|| BODY) -> (match RECV { Some(vx_v) => vx_v, None => BODY }),
        RECV.ok_or_else(|| BODY) -> (match RECV { Some(vx_v) => Ok(vx_v), None => Err(BODY) }),
        RECV.map_or(D, |x| BODY) -> (match RECV { Some(x) => BODY, None => D }).  Verus gives closures
        without an `ensures` clause no specification, so the combinator form would lose the body."""
        guard = 0
        while True:
            guard += 1
            if guard > 200:
                raise ExtractError("R22: too many rewrites")
            toks = [t for t in tokenize(text) if t.kind not in ("ws", "comment")]
            found = None
            for k, t in enumerate(toks):
                if (t.kind == "punct" and t.text == "." and k + 3 < len(toks) and toks[k + 1].kind == "ident"
                        and toks[k + 1].text in ("map", "unwrap_or_else", "ok_or_else") and toks[k + 2].text == "("
                        and toks[k + 3].text == "|"):
                    found = k
                    break
                if (t.kind == "punct" and t.text == "." and k + 3 < len(toks) and toks[k + 1].kind == "ident"
                        and toks[k + 1].text == "map_or" and toks[k + 2].text == "("):
                    found = k
                    break
            if found is None:
                return text
            k = found
            which = toks[k + 1].text
            close = match_close(toks, k + 2)
            default_src = None
            if which == "map_or":
                # RECV.map_or(DEFAULT, |x| BODY): find the top-level comma that ends DEFAULT
                depth = 0
                c = k + 3
                while c < close:
                    tt = toks[c]
                    if tt.kind == "punct" and tt.text in OPEN:
                        depth += 1
                    elif tt.kind == "punct" and tt.text in CLOSE:
                        depth -= 1
                    elif tt.kind == "punct" and tt.text == "," and depth == 0:
                        break
                    c += 1
                if c >= close or toks[c + 1].text != "|":
                    raise ExtractError("R22: unsupported .map_or(..) shape")
                default_src = text[toks[k + 3].start:toks[c].start].strip()
                j = c + 2
            else:
                j = k + 4
            params = []
            while toks[j].text != "|":
                params.append(toks[j])
                j += 1
            body_src = text[toks[j].end:toks[close].start].strip()
            if which in ("map", "map_or"):
                if not params or any(pt.kind == "punct" and pt.text == "&" for pt in params):
                    raise ExtractError("R22: unsupported closure parameters in .map(..)")
                if len(params) == 1 and params[0].kind == "ident":
                    pname = params[0].text
                    if pname == "_":
                        pname = "vx_unused"
                else:
                    pname = text[params[0].start:params[-1].end]      # a pattern such as `(_, s)`: used as the match pattern
            elif params:
                raise ExtractError("R22: unwrap_or_else closure with parameters")
            # receiver: walk back to the start of the postfix expression
            depth = 0
            r = k - 1
            while r >= 0:
                t = toks[r]
                if t.kind == "punct" and t.text in CLOSE:
                    depth += 1
                elif t.kind == "punct" and t.text in OPEN:
                    if depth == 0:
                        break
                    depth -= 1
                elif depth == 0 and ((t.kind == "punct" and t.text in "=;,|&*!<>+-/") or
                                     (t.kind == "ident" and t.text in ("return", "in", "if", "match", "let", "else"))):
                    break
                elif depth == 0 and t.kind == "punct" and t.text == ":" and not (
                        (r > 0 and toks[r - 1].kind == "punct" and toks[r - 1].text == ":") or
                        (toks[r + 1].kind == "punct" and toks[r + 1].text == ":")):
                    break           # `field: expr` in a struct literal (a single colon, not a path separator)
                r -= 1
            rs = toks[r + 1].start
            recv = text[rs:toks[k].start].strip()
            if which == "map":
                repl = "(match %s { Some(%s) => Some(%s), None => None })" % (recv, pname, body_src)
            elif which == "map_or":
                repl = "(match %s { Some(%s) => %s, None => %s })" % (recv, pname, body_src, default_src)
            elif which == "ok_or_else":
                repl = "(match %s { Some(vx_v) => Ok(vx_v), None => Err(%s) })" % (recv, body_src)
            else:
                repl = "(match %s { Some(vx_v) => vx_v, None => %s })" % (recv, body_src)
            whole = text[rs:toks[close].end]
            repl = repl + "\n" * (whole.count("\n") - repl.count("\n"))
            text = text[:rs] + repl + text[toks[close].end:]
            self.count("R22 Option::%s(closure) -> match (closure body kept)" % which)

    def loop_continue(self, text):
        """R24: Verus has no `continue` in `for` loops.  Every loop body that contains a `continue` (in nested
        if / else / match-arm blocks, not in closures or inner loops) gets a per-iteration flag: `let mut vx_cont = false;`
        at the top, `continue;` -> `vx_cont = true;`, and the statements that follow a statement which may set the flag
        are wrapped in `if !vx_cont { .. }` at every nesting level.  Anything else (labels, `continue` as an expression,
        match arms without braces) -> UNDECIDED."""
        guard = 0
        while True:
            guard += 1
            if guard > 30:
                raise ExtractError("R24: too many rewrites")
            toks = [t for t in tokenize(text) if t.kind not in ("ws", "comment")]
            kc = None
            for k, t in enumerate(toks):
                if t.kind == "ident" and t.text == "continue":
                    kc = k
                    break
            if kc is None:
                return text
            if kc + 1 >= len(toks) or toks[kc + 1].text != ";":
                raise ExtractError("R24: unsupported `continue` shape")
            # innermost enclosing loop body of this `continue`
            depth = 0
            body_open = None
            j = kc - 1
            while j >= 0:
                tt = toks[j]
                if tt.kind == "punct" and tt.text in CLOSE:
                    depth += 1
                elif tt.kind == "punct" and tt.text in OPEN:
                    if depth == 0:
                        if tt.text != "{":
                            raise ExtractError("R24: `continue` inside parentheses (closure?)")
                        if self._is_loop_body(toks, j):
                            body_open = j
                            break
                        if self._is_closure_body(toks, j):
                            raise ExtractError("R24: `continue` inside a closure")
                    else:
                        depth -= 1
                j -= 1
            if body_open is None:
                raise ExtractError("R24: `continue` outside a loop body")
            body_close = match_close(toks, body_open)
            inner = self._cont_block(text, toks, body_open + 1, body_close)
            old_body = text[toks[body_open].end:toks[body_close].start]
            lead = text[toks[body_open].end:toks[body_open + 1].start]
            new_body = " let mut vx_cont = false;" + (lead if "\n" in lead else " ") + inner
            new_body += "\n" * max(0, old_body.count("\n") - new_body.count("\n"))      # keep the line count
            text = text[:toks[body_open].end] + new_body + text[toks[body_close].start:]
            self.count("R24 loop body with `continue` -> per-iteration flag vx_cont")

    @staticmethod
    def _is_loop_body(toks, kopen):
        depth = 0
        for j in range(kopen - 1, -1, -1):
            tt = toks[j]
            if tt.kind == "punct" and tt.text in ")]":
                depth += 1
            elif tt.kind == "punct" and tt.text in "([":
                if depth == 0:
                    return False
                depth -= 1
            elif depth == 0 and tt.kind == "punct" and tt.text in ";{}":
                return False
            elif depth == 0 and tt.kind == "ident" and tt.text in ("for", "while", "loop"):
                return True
            elif depth == 0 and tt.kind == "ident" and tt.text in ("if", "else", "match"):
                return False
        return False

    @staticmethod
    def _is_closure_body(toks, kopen):
        return kopen > 0 and toks[kopen - 1].kind == "punct" and toks[kopen - 1].text == "|"

    def _split_stmts(self, toks, a, b):
        """statement ranges [s, e) of the token range [a, b) of a block"""
        out = []
        s = a
        while s < b:
            first = toks[s]
            blocklike = first.kind == "ident" and first.text in ("if", "match", "for", "while", "loop", "unsafe") or first.text == "{"
            depth = 0
            e = s
            while e < b:
                tt = toks[e]
                if tt.kind == "punct" and tt.text in OPEN:
                    depth += 1
                elif tt.kind == "punct" and tt.text in CLOSE:
                    depth -= 1
                    if depth == 0 and tt.text == "}" and blocklike:
                        nxt = toks[e + 1] if e + 1 < b else None
                        if nxt is not None and nxt.kind == "ident" and nxt.text == "else":
                            e += 1
                            continue
                        if nxt is not None and nxt.kind == "punct" and nxt.text in ".?;":
                            blocklike = False      # expression continues (method call on a block value) / explicit `;`
                            e += 1
                            continue
                        e += 1
                        break
                elif tt.kind == "punct" and tt.text == ";" and depth == 0:
                    e += 1
                    break
                e += 1
            out.append((s, e))
            s = e
        return out

    @staticmethod
    def _has_continue(toks, a, b):
        return any(t.kind == "ident" and t.text == "continue" for t in toks[a:b])

    def _cont_block(self, text, toks, a, b):
        """rewritten text of the statements in token range [a, b) (the inside of a block)"""
        if a >= b:
            return ""
        stmts = self._split_stmts(toks, a, b)
        for idx, (s, e) in enumerate(stmts):
            if not self._has_continue(toks, s, e):
                continue
            head = text[toks[a].start:toks[s].start] if s > a else ""
            st = self._cont_stmt(text, toks, s, e)
            rest = ""
            if idx + 1 < len(stmts):
                rs = stmts[idx + 1][0]
                rest_inner = self._cont_block(text, toks, rs, b)
                # keep the line structure (anchors of hints are resolved by line): the gap between the two statements stays
                gap = text[toks[e - 1].end:toks[rs].start]
                rest = " if !vx_cont {" + (gap if "\n" in gap else " ") + rest_inner + " }"
            tail_ws = ""
            return head + st + rest + tail_ws
        return text[toks[a].start:toks[b - 1].end]

    def _cont_stmt(self, text, toks, s, e):
        first = toks[s]
        if first.kind == "ident" and first.text == "continue":
            if e - s != 2:
                raise ExtractError("R24: unsupported `continue` statement")
            return "vx_cont = true;"
        if first.kind == "ident" and first.text in ("for", "while", "loop"):
            raise ExtractError("R24: `continue` in a nested loop is handled from the inside out")
        if not (first.kind == "ident" and first.text in ("if", "match")):
            raise ExtractError("R24: `continue` inside a `%s` statement" % first.text)
        # rewrite every brace block of this if-chain / match that contains a continue
        out = []
        k = s
        last = toks[s].start
        depth_paren = 0
        while k < e:
            tt = toks[k]
            if tt.kind == "punct" and tt.text in "([":
                depth_paren += 1
            elif tt.kind == "punct" and tt.text in ")]":
                depth_paren -= 1
            elif tt.kind == "punct" and tt.text == "{" and depth_paren == 0:
                c = match_close(toks, k)
                if self._has_continue(toks, k + 1, c):
                    if first.text == "match" and k == self._match_body_open(toks, s, e):
                        # the match body itself: descend into arms (their own brace blocks are found by the scan)
                        out.append(text[last:tt.end])
                        last = tt.end
                        k += 1
                        continue
                    if self._is_closure_body(toks, k):
                        raise ExtractError("R24: `continue` inside a closure")
                    out.append(text[last:tt.end] + " " + self._cont_block(text, toks, k + 1, c) + " ")
                    last = toks[c].start
                k = c
                continue
            k += 1
        out.append(text[last:toks[e - 1].end])
        res = "".join(out)
        if re.search(r"\bcontinue\b", res):
            raise ExtractError("R24: `continue` in a position that is not a brace block (match arm without braces?)")
        return res

    @staticmethod
    def _match_body_open(toks, s, e):
        depth = 0
        for k in range(s + 1, e):
            tt = toks[k]
            if tt.kind == "punct" and tt.text in "([":
                depth += 1
            elif tt.kind == "punct" and tt.text in ")]":
                depth -= 1
            elif tt.kind == "punct" and tt.text == "{" and depth == 0:
                return k
        return -1

    def iter_all_any(self, text):
        """R25 (opt-in, `optiters`): `RECV.iter().all(|p| BODY)` / `.any(|p| BODY)` become an accumulating loop
        `{ let mut vx_accN = true; for p in RECV.iter() { if !(BODY) { vx_accN = false; } } vx_accN }` (any: dual), so that the
        predicate BODY stays real code and the template can give the loop an invariant (`//@loop`).  BODY must be pure."""
        n = 0
        while True:
            toks = [t for t in tokenize(text) if t.kind not in ("ws", "comment")]
            found = None
            for k, t in enumerate(toks):
                if (t.kind == "punct" and t.text == "." and k + 7 < len(toks) and toks[k + 1].text == "iter"
                        and toks[k + 2].text == "(" and toks[k + 3].text == ")" and toks[k + 4].text == "."
                        and toks[k + 5].kind == "ident" and toks[k + 5].text in ("all", "any") and toks[k + 6].text == "("
                        and toks[k + 7].text == "|"):
                    found = k
                    break
            if found is None:
                return text
            k = found
            which = toks[k + 5].text
            close = match_close(toks, k + 6)
            j = k + 8
            params = []
            while toks[j].text != "|":
                params.append(toks[j])
                j += 1
            if len(params) != 1 or params[0].kind != "ident":
                raise ExtractError("R25: unsupported closure parameter in .%s(..)" % which)
            body_src = text[toks[j].end:toks[close].start].strip()
            depth = 0
            r = k - 1
            while r >= 0:
                t = toks[r]
                if t.kind == "punct" and t.text in CLOSE:
                    depth += 1
                elif t.kind == "punct" and t.text in OPEN:
                    if depth == 0:
                        break
                    depth -= 1
                elif depth == 0 and ((t.kind == "punct" and t.text in "=;,|&*!<>+-/") or
                                     (t.kind == "ident" and t.text in ("return", "in", "if", "match", "let", "else"))):
                    break
                r -= 1
            rs = toks[r + 1].start
            recv = text[rs:toks[k].start].strip()
            n += 1
            acc = "vx_acc%d" % n
            pn = params[0].text
            # simple predicate (comparisons / boolean operators over the element, no calls): the invariant is generated,
            # the loop needs no annotation and is not counted as a source loop
            btoks = [t for t in tokenize(body_src) if t.kind not in ("ws", "comment")]
            simple = True
            for bi, bt in enumerate(btoks):
                if bt.kind == "ident" and bi + 1 < len(btoks) and btoks[bi + 1].text == "(":
                    simple = False
                if bt.kind == "punct" and bt.text in "{}[];|":
                    simple = False
                if bt.kind in ("str", "char", "life"):
                    simple = False
            auto_inv = ""
            itname = ""
            marker = "/*vx:%s*/" % which
            if simple:
                spec_body = re.sub(r"\*\s*%s\b" % re.escape(pn), "vx_recv%d@[vx_j]" % n, body_src)
                spec_body = re.sub(r"(?<![\w.@])%s\b" % re.escape(pn), "vx_recv%d@[vx_j]" % n, spec_body)
                q = "forall" if which == "all" else "exists"
                conn = "==>" if which == "all" else "&&"
                auto_inv = (" invariant %s == (%s|vx_j: int| 0 <= vx_j < vx_it%d.index@ %s (%s)), " % (acc, q, n, conn, spec_body))
                itname = " vx_it%d:" % n
                marker = "/*vx:auto*/"
            if which == "all":
                repl = ("{ let vx_recv%d = &%s; let mut %s = true; %s for %s in%s vx_recv%d.iter()%s{ if !(%s) { %s = false; } } %s }"
                        % (n, recv, acc, marker, pn, itname, n, auto_inv, body_src, acc, acc))
            else:
                repl = ("{ let vx_recv%d = &%s; let mut %s = false; %s for %s in%s vx_recv%d.iter()%s{ if %s { %s = true; } } %s }"
                        % (n, recv, acc, marker, pn, itname, n, auto_inv, body_src, acc, acc))
            whole = text[rs:toks[close].end]
            repl = repl + "\n" * (whole.count("\n") - repl.count("\n"))
            text = text[:rs] + repl + text[toks[close].end:]
            self.count("R25 .iter().%s(closure) -> accumulating loop (predicate kept)" % which)

    def apply_maps(self, text, maps, what):
        for rx, repl in maps:
            text, n = rx.subn(repl, text)
            if n:
                self.count("R5 map %s: /%s/ => %s" % (what, rx.pattern, repl), n)
        return text

    def discarded_option_map(self, text):
        """R17: statement `EXPR.map(|x| CALL);` whose result is discarded -> `if let Some(x) = EXPR { CALL; }`"""
        pat = re.compile(r"(?m)^(\s*)([A-Za-z_][\w.]*)\.map\(\|(\w+)\|\s*([^;\n]*?)\);[ \t]*$")
        def f(m):
            # a line that continues an initialiser / assignment (`let x =\n    opt.map(..);`) is not a discarded result
            if re.search(r"[=(,|&+\-*/.]\s*$", text[:m.start()].rstrip(" \t\n")[-1:] or " "):
                return m.group(0)
            self.count("R17 discarded Option::map with side effect -> if let")
            return "%sif let Some(%s) = %s { %s; }" % (m.group(1), m.group(3), m.group(2), m.group(4))
        return pat.sub(f, text)

    def closure_wildcards(self, text):
        """R15: closure parameter `_` -> a named, unused variable (Verus restriction)"""
        text, n = re.subn(r"\|\s*_\s*\|", "|_vx_unused|", text)
        if n:
            self.count("R15 closure param `_` named", n)
        return text

    ERR_CTORS = ("policy_error", "transaction_format_error", "script_format_error", "mismatch_error", "vx_transaction_format_error")

    def error_closures(self, text):
        """R27: a closure whose whole body is a call of a ValidationError constructor (`|e| policy_error(..)`,
        `|| { policy_error(..) }`) or `|ve| ve.prepend_msg(..)` gets a result contract, so that `map_err(..)?` / `ok_or_else(..)?`
        exits know which KIND of error they return (only unknown_destinations_error builds the approvable kind).  The
        closure body stays the real text."""
        if "prelude/deps.rs" not in self.unit_text:       # the unit has no ValidationError model
            return text
        out = []
        pos = 0
        pat = re.compile(r"\|([^|\n]*)\|\s*(\{?)\s*(?:(" + "|".join(self.ERR_CTORS) + r")\s*\(|(\w+)\s*\.\s*prepend_msg\s*\()")
        while True:
            m = pat.search(text, pos)
            if not m:
                break
            # find the end of the call
            open_paren = m.end() - 1
            toks = tokenize(text[open_paren:])
            e = match_close(toks, 0)
            call_end = open_paren + toks[e].end
            rest = text[call_end:]
            if m.group(2) == "{":
                mm = re.match(r"\s*\}", rest)
                if not mm:
                    pos = m.end()
                    continue
                end = call_end + mm.end()
            else:
                if not re.match(r"\s*[),]", rest):
                    pos = m.end()
                    continue
                end = call_end
            params = m.group(1)
            call = text[(m.start(3) if m.group(3) else m.start(4)):call_end]
            if m.group(3):
                ens = "!ve_unknown_dest(vx_e)"
            else:
                if params.strip() != m.group(4):
                    pos = m.end()
                    continue
                ens = "ve_unknown_dest(vx_e) == ve_unknown_dest(%s)" % m.group(4)
                params = "%s: ValidationError" % m.group(4)
            whole = text[m.start():end]
            repl = "|%s| -> (vx_e: ValidationError) ensures %s { %s }" % (params, ens, call)
            repl = repl + "\n" * (whole.count("\n") - repl.count("\n"))
            out.append(text[pos:m.start()])
            out.append(repl)
            pos = end
            self.count("R27 error-constructor closure given a result contract (body kept)")
        out.append(text[pos:])
        return "".join(out)

    def drop_use_lines(self, text):
        def f(m):
            self.count("R9 use line dropped")
            return self.pad("", m.group(0))
        return re.sub(r"(?m)^\s*use\s+[^;]*;", f, text)

    def attrs(self, text):
        """drop non-cfg attributes such as #[allow(..)], #[instrument(..)]"""
        pat = re.compile(r"#\s*\[\s*(?!cfg\b)")
        pos = 0
        while True:
            m = pat.search(text, pos)
            if not m:
                return text
            toks = tokenize(text[m.start():])
            k = 0
            while toks[k].text != "[":
                k += 1
            e = match_close(toks, k)
            whole = text[m.start():m.start() + toks[e].end]
            text = text[:m.start()] + self.pad("", whole) + text[m.start() + len(whole):]
            self.count("R1 attribute dropped")
            pos = m.start()


def relax(pat):
    """anchor regexes are written against rustfmt's current line breaks; make them indifferent to re-wrapping:
    a literal space matches any white space, and a method-call dot may be preceded by white space / a line break"""
    if re.search(r"\.\*|\.\+|\*\?|\+\?|\(\?s\)|\\s\*|\\s\+", pat):
        return pat          # patterns with wildcards stay as written (relaxing them risks catastrophic backtracking)
    out = []
    i, n = 0, len(pat)
    in_class = False
    while i < n:
        c = pat[i]
        if c == "\\" and i + 1 < n:
            nxt = pat[i + 1]
            if nxt == "." and not in_class:
                out.append("\\s*\\.")
            else:
                out.append(c + nxt)
            i += 2
            continue
        if c == "[" and not in_class:
            in_class = True
        elif c == "]" and in_class:
            in_class = False
        if c == " " and not in_class:
            out.append("\\s+")
        else:
            out.append(c)
        i += 1
    return "".join(out)


def parse_map(line, relaxed=False):
    m = re.match(r"\s*/(.*)/\s*=>\s?(.*)$", line)
    if not m:
        raise ExtractError("bad map directive: " + line)
    return re.compile(relax(m.group(1)) if relaxed else m.group(1)), m.group(2)


def parse_opts(s):
    opts = {}
    for m in re.finditer(r'(\w[\w-]*)(?:=("([^"]*)"|\S+))?', s):
        k = m.group(1)
        v = m.group(3) if m.group(3) is not None else (m.group(2) if m.group(2) else True)
        opts[k] = v
    return opts


class Unit:
    def __init__(self, template_path, repo):
        self.template_path = template_path
        self.repo = repo
        self.files = {}
        self.out = []            # list of (text_line, origin)
        self.maps = []
        self.log = {}
        self.tags = set()
        self.fns = []            # contracted functions meta
        self.types = []
        self.default_props = []
        self.cur_fn = None
        self.name = os.path.basename(template_path).replace(".vx.rs", "")
        self.unit_text_all = open(template_path).read()
        self.dropped_hints = []      # (function, directive) of proof hints whose anchor was not found

    def rf(self, rel):
        if rel not in self.files and "#quote:" in rel:
            # R28: code inside the N-th `quote! { .. }` group of a proc-macro function (the text every derive expansion is
            # made of).  The group's tokens are scanned as items; line numbers are those of the file.  The interpolation
            # holes (`#ident`, `#message_id`) stay in the text and are replaced by //@sub / //@sigsub rules of the unit.
            base, spec = rel.split("#quote:", 1)
            parts = spec.split(":")
            fnname, nth = parts[0], int(parts[1]) if len(parts) > 1 else 1
            bf = self.rf(base)
            its = bf.find_fn("-", fnname)
            if len(its) != 1:
                raise ExtractError("anchor lost: macro function %s in %s found %d times" % (fnname, base, len(its)))
            k, j, e = its[0].toks_range
            groups = []
            x = j + 1
            while x < e:
                t = bf.toks[x]
                if t.kind == "ident" and t.text == "quote":
                    y = x + 1
                    while y < e and bf.toks[y].kind in ("ws", "comment"):
                        y += 1
                    if y < e and bf.toks[y].kind == "punct" and bf.toks[y].text == "!":
                        y += 1
                        while y < e and bf.toks[y].kind in ("ws", "comment"):
                            y += 1
                        if y < e and bf.toks[y].kind == "punct" and bf.toks[y].text == "{":
                            c = match_close(bf.toks, y)
                            groups.append((y, c))
                            x = c + 1
                            continue
                x += 1
            if len(groups) < nth:
                raise ExtractError("anchor lost: %s has %d quote! groups, the unit names #%d" % (fnname, len(groups), nth))
            y, c = groups[nth - 1]
            start, end = bf.toks[y].end, bf.toks[c].start
            pad = "\n" * (bf.line_of(start) - 1)
            self.files[rel] = RustFile(os.path.join(self.repo, base), src=pad + bf.src[start:end])
            self.files[rel].quote_base = base
            self.files[rel].quote_delta = start - len(pad)       # offset in the real file = offset here + delta
            return self.files[rel]
        if rel not in self.files:
            p = os.path.join(self.repo, rel)
            if not os.path.exists(p):
                raise ExtractError("anchor lost: file %s missing" % rel)
            self.files[rel] = RustFile(p)
        return self.files[rel]

    def emit(self, text, origin):
        for ln in text.split("\n"):
            self.out.append((ln, origin))

    def emit_lines(self, pairs):
        self.out.extend(pairs)

    # ------------------------------------------------------------------
    def load_template(self, path, seen=()):
        lines = []
        if path in seen:
            raise ExtractError("include cycle " + path)
        with open(path) as f:
            for i, ln in enumerate(f.read().split("\n"), 1):
                m = re.match(r"\s*//@include\s+(\S+)", ln)
                if m:
                    lines.extend(self.load_template(os.path.join(VX_DIR, m.group(1)), seen + (path,)))
                else:
                    lines.append((ln, (os.path.relpath(path, VX_DIR), i)))
        return lines

    def process(self):
        lines = self.load_template(self.template_path)
        # first pass: unit-wide maps
        Rewriter.unit_macros = {}
        for ln, org in lines:
            m = re.match(r"\s*//@map\s+(.*)$", ln)
            if m:
                self.maps.append(parse_map(m.group(1)))
            m = re.match(r"\s*//@macro\s+(\w+)\s*=>\s*(.*)$", ln)
            if m:
                Rewriter.unit_macros[m.group(1)] = m.group(2).strip()
            m = re.match(r"\s*//@props\s+(.*)$", ln)
            if m:
                self.default_props = m.group(1).split()
        i = 0
        n = len(lines)
        while i < n:
            ln, org = lines[i]
            s = ln.strip()
            if s.startswith("//@map") or s.startswith("//@props") or s.startswith("//@unit") or s.startswith("//@macro"):
                i += 1
                continue
            if s.startswith("//@type"):
                self.do_type(s[len("//@type"):].strip(), org)
                i += 1
                continue
            if s.startswith("//@expectbody"):
                mm = re.match(r"//@expectbody\s+(\S+)\s*::\s*(.*?)\s*::\s*(\w+)\s*::\s*(.*)$", s)
                if not mm:
                    raise ExtractError("bad //@expectbody " + s)
                f = self.rf(mm.group(1))
                cands = f.find_fn(mm.group(2), mm.group(3))
                if len(cands) != 1 or cands[0].body_open is None:
                    raise ExtractError("anchor lost: fn %s for //@expectbody" % mm.group(3))
                body = strip_comments(f.src[cands[0].body_open + 1:cands[0].end - 1])
                if norm(body) != norm(mm.group(4)):
                    raise ExtractError("anchor lost: body of %s is no longer `%s`" % (mm.group(3), mm.group(4)))
                self.log["R6 body of %s checked textually: %s" % (mm.group(3), mm.group(4))] = 1
                i += 1
                continue
            if s.startswith("//@expectconst"):
                mm = re.match(r"//@expectconst\s+(\S+)\s*::\s*(\w+)\s*::\s*(.*)$", s)
                f = self.rf(mm.group(1))
                it = f.find_const(mm.group(2))
                if it is None:
                    raise ExtractError("anchor lost: const %s" % mm.group(2))
                txt = strip_comments(f.src[it.start:it.end])
                m2 = re.search(r"=\s*(.*?)\s*;\s*$", txt, re.S)
                if not m2 or norm(m2.group(1)) != norm(mm.group(3)):
                    raise ExtractError("anchor lost: const %s is no longer `%s`" % (mm.group(2), mm.group(3)))
                self.log["R9 const %s checked textually" % mm.group(2)] = 1
                i += 1
                continue
            if s.startswith("//@const"):
                self.do_const(s[len("//@const"):].strip(), org)
                i += 1
                continue
            if s.startswith("//@fn"):
                j = i + 1
                block = []
                while j < n and not lines[j][0].strip().startswith("//@end"):
                    if lines[j][0].strip().startswith("//@fn"):
                        raise ExtractError("missing //@end before %s:%s" % lines[j][1])
                    block.append(lines[j])
                    j += 1
                if j >= n:
                    raise ExtractError("missing //@end for %s" % s)
                self.do_fn(s[len("//@fn"):].strip(), block, org)
                i = j + 1
                continue
            if s.startswith("//@") and not s.startswith("//@@"):
                raise ExtractError("unknown directive: " + s)
            self.out.append((ln, ("template",) + org))
            i += 1
        # tag constants
        allt = set(self.tags)
        for ln, _ in self.out:
            allt.update(re.findall(r"\bT_[A-Za-z0-9_]+\b", ln))
        consts = ["verus! {"]
        for k, t in enumerate(sorted(allt)):
            consts.append("pub spec const %s: int = %d;" % (t, k + 1))
        # exec versions are the same constants
        consts.append("} // verus!")
        # place the constants block before the final `fn main`
        idx = None
        for k, (ln, _) in enumerate(self.out):
            if re.match(r"\s*//@@TAGS", ln):
                idx = k
        tagblock = []
        for k, t in enumerate(sorted(allt)):
            tagblock.append(("pub const %s: u64 = %d;" % (t, k + 1), ("generated", "tags", 0)))
        if idx is not None:
            self.out[idx:idx + 1] = tagblock
            shift = len(tagblock) - 1
            for fm in self.fns:
                if fm["out_line_start"] > idx:
                    fm["out_line_start"] += shift
                    fm["out_line_end"] += shift
        elif allt:
            raise ExtractError("template uses policy tags but has no //@@TAGS marker")
        self.tag_ids = {t: k + 1 for k, t in enumerate(sorted(allt))}

    # ------------------------------------------------------------------
    def do_const(self, spec, org):
        mo = re.match(r"(\S+)\s*::\s*(\w+)\s*(.*)$", spec)
        rel, name = mo.group(1), mo.group(2)
        copts = parse_opts(mo.group(3))
        ctx = copts.get("ctx")
        f = self.rf(rel)
        def cfg_ok(c):
            for a in getattr(c, "attrs", []):
                mm = re.match(r"#\s*\[\s*cfg\s*\((.*)\)\s*\]\s*$", a, re.S)
                if mm and not eval_cfg(mm.group(1)):
                    return False
            return True
        it = f.find_const(name, ctx, cfg_ok)
        if it is None:
            raise ExtractError("anchor lost: const %s in %s" % (name, rel))
        rw = Rewriter(self.log, self.tags)
        text = strip_comments(f.src[it.start:it.end])
        if copts.get("expect"):
            # the initialiser must be literally the expected expression; it is emitted as the given
            # literal (the template proves literal == expression)
            mm = re.search(r"=\s*(.*?)\s*;\s*$", text, re.S)
            if not mm or norm(mm.group(1)) != norm(copts["expect"]):
                raise ExtractError("anchor lost: const %s initialiser is not `%s`" % (name, copts["expect"]))
            text = text[:mm.start(1)] + copts["as"] + text[mm.end(1):]
            rw.count("R9 const %s initialiser `%s` written as literal %s" % (name, copts["expect"], copts["as"]))
        text = rw.apply_maps(text, self.maps, "const")
        text = re.sub(r"\bpub\s*\(\s*crate\s*\)", "pub", text)
        if copts.get("vis") == "pub" and re.match(r"\s*const\b", text):
            text = re.sub(r"^(\s*)const\b", r"\1pub const", text, count=1)      # visibility only (specs of pub fns name it)
        line0 = f.line_of(it.start)
        for k, ln in enumerate(text.split("\n")):
            self.out.append((ln, ("repo", rel, line0 + k)))

    def do_type(self, spec, org):
        m = re.match(r"(\S+)\s*::\s*(\w+)\s*(.*)$", spec)
        if not m:
            raise ExtractError("bad //@type " + spec)
        rel, name, rest = m.group(1), m.group(2), m.group(3)
        opts = parse_opts(rest)
        f = self.rf(rel)
        it = f.find_type(name)
        if it is None:
            raise ExtractError("anchor lost: type %s in %s" % (name, rel))
        rw = Rewriter(self.log, self.tags)
        text = strip_comments(f.src[it.start:it.end])
        text = rw.cfg_select(text)
        text = rw.attrs(text)
        text = rw.apply_maps(text, self.maps, "type")
        text = re.sub(r"\bpub\s*\(\s*(crate|super)\s*\)", "pub", text)
        if re.match(r"\s*(struct|enum)\b", text):
            text = "pub " + text.lstrip()
            rw.count("R5 private type made pub (visibility only)")
        if it.kind == "struct" and it.body_open is not None:
            def mkpub(mm):
                rw.count("R5 private field made pub (visibility only)")
                return mm.group(1) + "pub " + mm.group(2)
            text = re.sub(r"(?m)^(\s*)([a-z_][A-Za-z0-9_]*\s*:)", mkpub, text)
        if it.kind == "struct" and it.body_open is None and "(" in text:
            a0 = text.index("(")
            toks_ = tokenize(text[a0:])
            e0 = a0 + toks_[match_close(toks_, 0)].start
            fields = split_top_commas(text[a0 + 1:e0])
            newf = []
            for fdecl in fields:
                if not re.match(r"pub\b", fdecl):
                    rw.count("R5 private field made pub (visibility only)")
                    fdecl = "pub " + fdecl
                newf.append(fdecl)
            text = text[:a0 + 1] + ", ".join(newf) + text[e0:]
        drops = [d for d in str(opts.get("drop", "")).split(",") if d]
        for d in drops:
            pat = re.compile(r"(?m)^\s*(pub\s+)?%s\s*:[^\n]*,\s*$" % re.escape(d))
            text, nsub = pat.subn("", text)
            if nsub != 1:
                raise ExtractError("anchor lost: field %s of %s to drop" % (d, name))
            rw.count("R6 field dropped %s.%s" % (name, d))
        if opts.get("ghost"):
            g = opts["ghost"]
            k = text.rindex("}")
            text = text[:k] + "    " + ", ".join("pub %s" % x.strip() for x in g.split(",")) + ",\n" + text[k:]
            rw.count("R10 ghost field added to %s: %s" % (name, g))
        if opts.get("as"):
            # the item is declared under another name in this unit (two crates use the same type name)
            text, nren = re.subn(r"\b(struct|enum)\s+%s\b" % re.escape(name), r"\1 %s" % opts["as"], text, count=1)
            if nren != 1:
                raise ExtractError("anchor lost: type %s to rename" % name)
            rw.count("R5 type %s declared as %s (name only)" % (name, opts["as"]))
        line0 = f.line_of(it.start)
        self.types.append({"name": name, "file": rel, "line": line0})
        if opts.get("attr"):
            self.out.append((opts["attr"], ("generated", "attr", 0)))
        for k, ln in enumerate(text.split("\n")):
            self.out.append((ln, ("repo", rel, line0 + k)))
        # derived traits: only what the real item derives may be assumed structural
        derives = set()
        for a in getattr(it, "attrs", []):
            m2 = re.search(r"derive\s*\(([^)]*)\)", a)
            if m2:
                derives.update(x.strip().split("::")[-1] for x in m2.group(1).split(","))
        gen = []
        for tr in [x for x in str(opts.get("derive", "")).split(",") if x]:
            if tr not in derives:
                raise ExtractError("anchor lost: %s no longer derives %s" % (name, tr))
            if tr == "Clone":
                gen.append("impl Clone for %s { #[verifier::external_body] fn clone(&self) -> (r: Self) ensures r == *self { unimplemented!() } }" % name)
            elif tr == "Copy":
                gen.append("impl Copy for %s {}" % name)
            elif tr == "PartialEq":
                gen.append("impl PartialEq for %s { #[verifier::external_body] fn eq(&self, other: &Self) -> (r: bool) { unimplemented!() } }" % name)
                gen.append("impl vstd::std_specs::cmp::PartialEqSpecImpl for %s { open spec fn obeys_eq_spec() -> bool { true } open spec fn eq_spec(&self, other: &Self) -> bool { *self == *other } }" % name)
            elif tr == "Eq":
                gen.append("impl Eq for %s {}" % name)
            else:
                raise ExtractError("derive=%s not supported" % tr)
            rw.count("R5 derive(%s) on %s modelled as structural" % (tr, name))
        for g in gen:
            self.out.append((g, ("generated", "derive", 0)))

    # ------------------------------------------------------------------
    def do_fn(self, spec, block, org):
        m = re.match(r"(\S+)\s+::\s+(.*?)\s+::\s+(\w+)\s*(.*)$", spec)      # separators are ` :: ` (a path `a::b` may occur inside the context)
        if not m:
            raise ExtractError("bad //@fn " + spec)
        rel, ctx, name, rest = m.group(1), m.group(2), m.group(3), m.group(4)
        opts = parse_opts(rest)
        props = str(opts.get("props", ",".join(self.default_props))).split(",")
        mode = opts.get("mode", "body")
        ret = opts.get("ret", "r")
        f = self.rf(rel)
        cands = f.find_fn(ctx, name)
        if len(cands) != 1:
            raise ExtractError("anchor lost: fn %s :: %s :: %s (%d candidates)" % (rel, ctx, name, len(cands)))
        it = cands[0]
        sig_override = None
        if opts.get("closure"):
            # R26: the N-th block closure `|params| { .. }` of the function is put under contract as a function of its
            # own: the body is the closure's block, verbatim; the signature (closures have none) comes from `//@sig`
            it = self.closure_item(f, it, int(opts["closure"]), name, opts.get("after"))
            name = opts.get("as", "%s_closure%s" % (name, opts["closure"]))
        if opts.get("exprclosure"):
            # R26 (expression form): the N-th closure whose body is an expression, `|params| EXPR` (counted separately from the
            # block closures), is put under contract as a function of its own: the body is `{ EXPR }`, EXPR verbatim up to
            # the `,` / `)` that ends the closure argument
            if opts.get("closure"):
                raise ExtractError("exprclosure= and closure= exclude each other")
            it = self.closure_item(f, it, int(opts["exprclosure"]), name, opts.get("after"), expr=True)
            name = opts.get("as", "%s_exprclosure%s" % (name, opts["exprclosure"]))
            opts["closure"] = opts["exprclosure"]
        if opts.get("arm"):
            # R30: the block of the match arm whose pattern matches the regex `arm=` is put under contract as a function of
            # its own (the arms of the protocol handler's dispatcher): body = the arm's block, verbatim; signature from `//@sig`
            if opts.get("closure"):
                raise ExtractError("arm= and closure= exclude each other")
            it = self.arm_item(f, it, opts["arm"], name)
            name = opts.get("as", "%s_arm" % name)
        fn_log = {}
        rw = Rewriter(fn_log, self.tags)
        rw.noabort = bool(opts.get("noabort"))
        # split template block into contract, loops, proofs, subs
        contract, loops, proofs, subs, sigsubs = [], {}, [], [], []
        cur = ("contract", None)
        for ln, lorg in block:
            s = ln.strip()
            if s.startswith("//@loop"):
                lo = parse_opts(s[len("//@loop"):])
                num = int([k for k in lo if k.isdigit()][0])
                loops[num] = {"iter": lo.get("iter"), "kind": lo.get("kind"), "lines": []}
                cur = ("loop", num)
            elif s.startswith("//@proof"):
                pm = re.match(r"//@proof\s+(before|after|blockend|start)\s*(?:/(.*)/)?\s*(?:#(\d+))?\s*$", s)
                if not pm:
                    raise ExtractError("bad //@proof directive: " + s)
                proofs.append({"where": pm.group(1), "re": pm.group(2), "lines": [], "org": lorg,
                               "nth": int(pm.group(3)) if pm.group(3) else None})
                cur = ("proof", len(proofs) - 1)
            elif s.startswith("//@sigsub"):
                sigsubs.append(parse_map(s[len("//@sigsub"):], relaxed=True))
            elif s.startswith("//@sig "):
                sig_override = s[len("//@sig "):].strip()
            elif s.startswith("//@sub?"):
                # optional rewrite (type coercions and the like): applied where it matches, no anchor is lost where it does not
                subs.append(parse_map(s[len("//@sub?"):], relaxed=True) + (True,))
            elif s.startswith("//@sub"):
                subs.append(parse_map(s[len("//@sub"):], relaxed=True))
            elif s.startswith("//@"):
                raise ExtractError("unknown directive in fn block: " + s)
            else:
                if cur[0] == "contract":
                    contract.append((ln, lorg))
                elif cur[0] == "loop":
                    loops[cur[1]]["lines"].append((ln, lorg))
                else:
                    proofs[cur[1]]["lines"].append((ln, lorg))
        # --- signature from the real source
        sig_end = it.body_open if it.body_open is not None else it.end - 1
        sig = strip_comments(f.src[it.start:sig_end]).rstrip()
        sig = rw.attrs(sig)
        sig = rw.apply_maps(sig, self.maps, "sig")
        sig = re.sub(r"\bpub\s*\(\s*(crate|super)\s*\)", "pub", sig)
        for rx, repl in sigsubs:
            sig, nsub = rx.subn(repl, sig)
            if nsub == 0:
                raise ExtractError("anchor lost: //@sigsub /%s/ in %s" % (rx.pattern, name))
            rw.count("MANUAL sigsub /%s/ => %s" % (rx.pattern, repl), nsub)
        sig = self.name_return(sig, ret)
        if opts.get("as") and not opts.get("closure") and not opts.get("arm"):
            # a second contract on the SAME real body under another name (`as=`): used where one clause of a function is a
            # recorded finding, so that the function's other clauses stay verified and a change that breaks one of them is
            # still reported against a verified baseline
            sig, nren = re.subn(r"\bfn\s+%s\b" % re.escape(name), "fn %s" % opts["as"], sig, count=1)
            if nren != 1:
                raise ExtractError("as=: cannot rename %s" % name)
            rw.count("second contract view of %s as %s (same body)" % (name, opts["as"]))
            name = opts["as"]
        if opts.get("closure"):
            if not sig_override:
                raise ExtractError("closure= needs a //@sig line in %s" % name)
            sig = sig_override
            rw.count("R26 closure body lifted into a function (signature from the template, body verbatim)")
        if opts.get("arm"):
            if not sig_override:
                raise ExtractError("arm= needs a //@sig line in %s" % name)
            sig = sig_override
            rw.count("R30 match-arm block lifted into a function (signature from the template, body verbatim)")
        mut_self = False
        if re.search(r"\(\s*mut\s+self\b", sig):
            # R12: Verus has no `mut self` receiver: bind it to a local instead
            sig = re.sub(r"\(\s*mut\s+self\b", "(self", sig, count=1)
            mut_self = True
        line_sig = f.line_of(it.start)
        meta = {"file": rel, "ctx": ctx, "name": name, "line": line_sig, "props": props, "mode": mode,
                "out_line_start": len(self.out) + 1}
        if mode == "trusted":
            self.out.append(("#[verifier::external_body]", ("generated", "trusted", 0)))
        for k, ln in enumerate(sig.split("\n")):
            self.out.append((ln, ("repo", rel, line_sig + k)))
        for ln, lorg in contract:
            self.out.append((ln, ("template",) + lorg))
        if mode == "trusted":
            self.out.append(("{ unimplemented!() }", ("generated", "trusted", 0)))
            meta["out_line_end"] = len(self.out)
            meta["rewrites"] = fn_log
            self.fns.append(meta)
            return
        if it.body_open is None:
            raise ExtractError("fn %s has no body" % name)
        # --- body
        body = f.src[it.body_open:it.end]          # includes outer braces
        if getattr(it, "expr_body", False):
            body = "{" + body[1:] + "}"            # R26 expression closure: the character before EXPR is whitespace
        off0 = it.body_open
        body = strip_comments(body)
        body = rw.cfg_select(body)
        body = rw.attrs(body)
        body = rw.drop_use_lines(body)
        body = rw.closure_wildcards(body)
        if opts.get("optiters"):
            body = rw.iter_all_any(body)
        if opts.get("optclosures"):
            body = rw.option_closures(body)
        if opts.get("fmtconcat"):
            body = rw.format_concat(body)
        body = rw.loop_continue(body)
        body = rw.discarded_option_map(body)
        body = rw.debug_guards(body)
        body = rw.local_macro_defs(body)
        body = rw.macros(body)
        body = rw.tag_literals(body)
        if not opts.get("noabort"):
            body = rw.methods(body)
            body = rw.unwraps(body)
            body = rw.unwrap_or_panic(body)
        else:
            body, n_exp = re.subn(r"\.\s*expect\s*\(\s*\"[^\"]*\"\s*\)", ".unwrap()", body)
            if n_exp:
                rw.count("R7 noabort: .expect(..) -> .unwrap() (obligation)", n_exp)
        body = rw.apply_maps(body, self.maps, "body")
        rw.unit_text = self.unit_text_all
        body = rw.error_closures(body)
        for sub_rule in subs:
            rx, repl = sub_rule[0], sub_rule[1]
            body, nsub = rx.subn(repl, body)
            if nsub == 0:
                if len(sub_rule) > 2:
                    continue
                raise ExtractError("anchor lost: //@sub /%s/ in %s" % (rx.pattern, name))
            rw.count("MANUAL sub /%s/ => %s" % (rx.pattern, repl), nsub)
        # R13: `for &PAT in EXPR {` -> `for vx_ref in EXPR { let PAT = *vx_ref;` (Verus has no reference patterns)
        while True:
            m13 = re.search(r"\bfor\s*&\s*", body)
            if not m13:
                break
            toks = tokenize(body[m13.end():])
            # pattern = up to the `in` keyword at depth 0
            depth = 0
            kin = None
            for kk, t in enumerate(toks):
                if t.kind == "punct" and t.text in OPEN:
                    depth += 1
                elif t.kind == "punct" and t.text in CLOSE:
                    depth -= 1
                elif t.kind == "ident" and t.text == "in" and depth == 0:
                    kin = kk
                    break
            if kin is None:
                raise ExtractError("R13: cannot find `in`")
            pat = body[m13.end():m13.end() + toks[kin].start].strip()
            depth = 0
            kb = None
            for kk in range(kin + 1, len(toks)):
                t = toks[kk]
                if t.kind == "punct" and t.text in "([":
                    depth += 1
                elif t.kind == "punct" and t.text in ")]":
                    depth -= 1
                elif t.kind == "punct" and t.text == "{" and depth == 0:
                    kb = kk
                    break
            if kb is None:
                raise ExtractError("R13: cannot find loop body")
            bo = m13.end() + toks[kb].end
            body = (body[:m13.start()] + "for vx_ref in " + body[m13.end() + toks[kin].end:bo]
                    + " let %s = *vx_ref;" % pat + body[bo:])
            rw.count("R13 `for &PAT in` -> `for vx_ref in` + `let PAT = *vx_ref`")
        inserts = []   # (offset, [ (line, org) ])
        if mut_self:
            body = re.sub(r"\bself\b", "vx_self", body)
            inserts.append((1, " let mut vx_self = self;"))
            rw.count("R12 `mut self` -> `self` + `let mut vx_self = self`")
        # canary / start-of-body hook
        inserts.append((1, [("//@@CANARY %s" % name, ("generated", "canary", 0))]))
        # loops
        if loops:
            toks = tokenize(body)
            kws = [k for k, t in enumerate(toks) if t.kind == "ident" and t.text in ("for", "while", "loop")
                   and not re.search(r"/\*vx:auto\*/\s*$", body[:t.start])]
            # `for` in `impl X for Y` / HRTB does not occur in bodies we handle
            if len(kws) != len(loops) and not opts.get("extra_loops"):
                # a loop without invariants makes the proof incomplete by construction: undecided, never an alarm
                raise ExtractError("anchor lost: %s has %d loops, the template annotates %d (loop structure changed)"
                                   % (name, len(kws), len(loops)))
            for num, lp in loops.items():
                if num < 1 or num > len(kws):
                    raise ExtractError("anchor lost: loop %d of %s (found %d loops)" % (num, name, len(kws)))
                k = kws[num - 1]
                # loops generated by R25 carry their adaptor kind; the annotation names the kind it was written for
                mk = re.search(r"/\*vx:(all|any)\*/\s*$", body[:toks[k].start])
                have = mk.group(1) if mk else None
                if (lp.get("kind") or None) != have:
                    raise ExtractError("anchor lost: loop %d of %s is %s, the template annotates %s"
                                       % (num, name, have or "a source loop", lp.get("kind") or "a source loop"))
                depth = 0
                j = k + 1
                in_tok = None
                while j < len(toks):
                    t = toks[j]
                    if t.kind == "punct":
                        if t.text in "([":
                            depth += 1
                        elif t.text in ")]":
                            depth -= 1
                        elif t.text == "{" and depth == 0:
                            break
                    if t.kind == "ident" and t.text == "in" and depth == 0 and in_tok is None:
                        in_tok = j
                    j += 1
                if j >= len(toks):
                    raise ExtractError("loop body not found")
                if lp["iter"]:
                    if in_tok is None:
                        raise ExtractError("iter= on a non-for loop")
                    inserts.append((toks[in_tok].end, " %s:" % lp["iter"]))
                inserts.append((toks[j].start, [(l, ("template",) + o) for l, o in lp["lines"]]))
            rw.count("R8 loop annotations", len(loops))
        # a hint that carries a property tag is an OBLIGATION (a tagged assert at a program point), not a proof aid:
        # it is never left out -- a lost anchor or a compile error there makes the unit undecided
        def is_obligation(pr):
            return any(re.search(r"//\[C\d\d", l) for l, _ in pr["lines"])
        if name in getattr(self, "skip_hint_fns", set()) and proofs:
            soft = [pr for pr in proofs if not is_obligation(pr)]
            for pr in soft:
                self.dropped_hints.append((name, "//@proof %s /%s/ left out (did not compile in this shape)" % (pr["where"], pr["re"])))
            rw.count("proof hint left out (did not compile)", len(soft))
            proofs = [pr for pr in proofs if is_obligation(pr)]
        for pr in proofs:
            plines = [(l, ("hint",) + o) for l, o in pr["lines"]]
            if pr["where"] == "start":
                inserts.append((1, plines))
                continue
            ms = list(re.finditer(relax(pr["re"]), body, re.M))
            if pr.get("nth"):
                if len(ms) < pr["nth"]:
                    if is_obligation(pr):
                        raise ExtractError("anchor of a tagged assertion lost: //@proof /%s/ #%d matched %d times" % (pr["re"], pr["nth"], len(ms)))
                    # an untagged proof hint whose anchor is gone is left out (such hints only ADD checked facts, so this can only make the
                    # proof harder, never unsound); if the function then fails, the driver reports UNDECIDED, not a violation
                    self.dropped_hints.append((name, "//@proof /%s/ #%d matched %d times" % (pr["re"], pr["nth"], len(ms))))
                    rw.count("proof hint left out (anchor lost)")
                    continue
                mm = ms[pr["nth"] - 1]
            elif len(ms) != 1:
                if is_obligation(pr):
                    raise ExtractError("anchor of a tagged assertion lost: //@proof /%s/ matched %d times" % (pr["re"], len(ms)))
                self.dropped_hints.append((name, "//@proof /%s/ matched %d times" % (pr["re"], len(ms))))
                rw.count("proof hint left out (anchor lost)")
                continue
            else:
                mm = ms[0]
            if pr["where"] == "before":
                p = body.rfind("\n", 0, mm.start()) + 1
                inserts.append((p, plines))
            elif pr["where"] == "blockend":
                # just before the `}` that closes the block enclosing the match (e.g. the end of a loop body)
                toks = tokenize(body[mm.start():])
                depth = 0
                p = None
                for t in toks:
                    if t.kind == "punct":
                        if t.text in OPEN:
                            depth += 1
                        elif t.text in CLOSE:
                            depth -= 1
                            if depth < 0:
                                p = mm.start() + t.start
                                break
                if p is None:
                    raise ExtractError("//@proof blockend /%s/: no enclosing block end" % pr["re"])
                inserts.append((p, plines))
            else:
                toks = tokenize(body[mm.start():])
                depth = 0
                p = None
                for t in toks:
                    if t.kind == "punct":
                        if t.text in OPEN:
                            depth += 1
                        elif t.text in CLOSE:
                            depth -= 1
                            if depth < 0:
                                break
                        elif t.text == ";" and depth == 0:
                            p = mm.start() + t.end
                            break
                if p is None:
                    raise ExtractError("//@proof after /%s/: no statement end" % pr["re"])
                inserts.append((p, plines))
            rw.count("R8 ghost block inserted")
        # --- assemble with origin tracking
        line_body0 = f.line_of(off0)
        inserts.sort(key=lambda x: x[0])
        pieces = []
        last = 0
        for p, what in inserts:
            pieces.append(("real", last, p))
            pieces.append(("ins", what))
            last = p
        pieces.append(("real", last, len(body)))
        cur_text, cur_org = "", None
        outl = []

        def flush():
            nonlocal cur_text, cur_org
            if cur_text != "" or cur_org is not None:
                outl.append((cur_text, cur_org))
            cur_text, cur_org = "", None
        for pc in pieces:
            if pc[0] == "real":
                a, b = pc[1], pc[2]
                seg = body[a:b]
                ln_no = line_body0 + body.count("\n", 0, a)
                parts = seg.split("\n")
                for idx, part in enumerate(parts):
                    if idx > 0:
                        flush()
                        ln_no += 1
                    if cur_org is None:
                        cur_org = ("repo", rel, ln_no)
                    cur_text += part
            else:
                what = pc[1]
                if isinstance(what, str):
                    cur_text += what
                else:
                    flush()
                    for l, o in what:
                        outl.append((l, o))
        flush()
        self.out.extend(outl)
        meta["out_line_end"] = len(self.out)
        meta["body_lines"] = [line_body0, f.line_of(it.end)]
        meta["rewrites"] = fn_log
        for k, v in fn_log.items():
            self.log[k] = self.log.get(k, 0) + v
        self.fns.append(meta)

    @staticmethod
    def arm_item(f, it, pattern, name):
        """locate the block `{ .. }` of the first match arm inside function item `it` whose pattern text matches the regex
        `pattern` followed by `=>`; returns an Item-like object whose body is that block"""
        src = f.src
        am = re.search("(?:" + pattern + r")\s*=>\s*\{", src[it.body_open:it.end])
        if not am:
            raise ExtractError("anchor lost: arm=/%s/ of %s" % (pattern, name))
        if len(re.findall("(?:" + pattern + r")\s*=>\s*\{", src[it.body_open:it.end])) != 1:
            raise ExtractError("anchor lost: arm=/%s/ of %s is not unique" % (pattern, name))
        pos = it.body_open + am.end() - 1
        toks = f.toks
        k = None
        for i, t in enumerate(toks):
            if t.start == pos and t.kind == "punct" and t.text == "{":
                k = i
                break
        if k is None:
            raise ExtractError("anchor lost: arm block of %s" % name)
        e = match_close(toks, k)

        class _It:
            pass
        o = _It()
        o.start, o.body_open, o.end = toks[k].start, toks[k].start, toks[e].end
        o.kind, o.name = "fn", name
        return o

    @staticmethod
    def closure_item(f, it, nth, name, after=None, expr=False):
        """locate the nth block closure inside function item `it` of RustFile f; returns an Item-like object.
        With `after` (a regex, e.g. a match-arm pattern) only closures that start behind the first match of the regex
        inside the function are counted: `closure=1 after="Message::RevokeCommitmentTx\(m\) =>"` is the closure of that arm."""
        toks = f.toks
        tr = getattr(it, "toks_range", None)
        lo, hi = (tr[0], tr[-1] + 1) if tr else (0, len(toks))
        found = []
        k = lo
        while k < hi:
            t = toks[k]
            if t.kind == "punct" and t.text == "|" and t.start >= it.body_open:
                # previous code token must open an argument position
                b = k - 1
                while b >= lo and toks[b].kind in ("ws", "comment"):
                    b -= 1
                if b >= lo and toks[b].kind == "punct" and toks[b].text in "(,=":
                    j = k + 1
                    depth = 0
                    while j < hi and not (toks[j].kind == "punct" and toks[j].text == "|" and depth == 0):
                        if toks[j].kind == "punct" and toks[j].text in "([":
                            depth += 1
                        elif toks[j].kind == "punct" and toks[j].text in ")]":
                            depth -= 1
                        j += 1
                    c = j + 1
                    while c < hi and toks[c].kind in ("ws", "comment"):
                        c += 1
                    if c < hi and toks[c].kind == "punct" and toks[c].text == "{":
                        e = match_close(toks, c)
                        if not expr:
                            found.append((toks[c].start, toks[e].end))
                        k = c + 1
                        continue
                    if expr and c < hi and c > j + 1:
                        # expression closure: EXPR runs to the `,` / `)` / `]` / `}` / `;` at depth 0 that ends the argument
                        d2 = 0
                        e = c
                        while e < hi:
                            te = toks[e]
                            if te.kind == "punct" and te.text in "([{":
                                d2 += 1
                            elif te.kind == "punct" and te.text in ")]}":
                                if d2 == 0:
                                    break
                                d2 -= 1
                            elif te.kind == "punct" and te.text in ",;" and d2 == 0:
                                break
                            e += 1
                        found.append((toks[c].start - 1, toks[e].start))
                    k = j
            k += 1
        if after:
            am = re.search(after, f.src[it.body_open:it.end])
            if not am:
                raise ExtractError("anchor lost: after=/%s/ of %s" % (after, name))
            pos = it.body_open + am.end()
            found = [x for x in found if x[0] > pos]
        if len(found) < nth:
            raise ExtractError("anchor lost: closure #%d of %s (%d block closures found)" % (nth, name, len(found)))

        class _It:
            pass
        o = _It()
        o.start, o.body_open, o.end = found[nth - 1][0], found[nth - 1][0], found[nth - 1][1]
        o.kind, o.name = "fn", name
        o.expr_body = bool(expr)
        if expr and not f.src[o.start].isspace():
            raise ExtractError("R26: expression closure of %s does not start after white space" % name)
        return o

    @staticmethod
    def name_return(sig, ret):
        toks = tokenize(sig)
        depth = 0
        arrow = None
        where = None
        for k, t in enumerate(toks):
            if t.kind == "punct":
                if t.text in "([<":
                    depth += 1
                elif t.text in ")]":
                    depth -= 1
                elif t.text == ">":
                    if k > 0 and toks[k - 1].text == "-" and toks[k - 1].end == t.start:
                        if depth == 0 and arrow is None:
                            arrow = k
                    else:
                        depth -= 1
            if t.kind == "ident" and t.text == "where" and depth == 0:
                where = k
        if arrow is None:
            return sig
        a = toks[arrow].end
        b = toks[where].start if where is not None else len(sig)
        rty = sig[a:b].strip()
        tail = sig[b:] if where is not None else ""
        if rty == "!":
            return sig
        return sig[:a] + " (%s: %s) " % (ret, rty) + tail

    # ------------------------------------------------------------------
    def write(self, outdir, canary=False):
        os.makedirs(outdir, exist_ok=True)
        suffix = "_canary" if canary else ""
        path = os.path.join(outdir, self.name + suffix + ".rs")
        lines = []
        pending_lemma = None
        self.lemmas = getattr(self, "lemmas", [])
        lemma_names = []
        for k, (ln, org) in enumerate(self.out):
            # template-level proof fns get a canary too (vacuity guard for lemmas)
            if org and org[0] == "template":
                mlem = re.search(r"\bproof\s+fn\s+(\w+)", ln)
                if mlem:
                    pending_lemma = mlem.group(1)
                    if "{" in ln.split("//")[0]:
                        pending_lemma = None      # one-line lemma: no canary
                if pending_lemma and ln.lstrip().startswith("{"):
                    lemma_names.append(pending_lemma)
                    if canary:
                        i0 = ln.index("{")
                        ln = ln[:i0 + 1] + " assert(false); " + ln[i0 + 1:]
                    pending_lemma = None
            if k == 0:
                ln = "#![feature(allocator_api)] #![allow(non_upper_case_globals, unused_imports, unused_variables, dead_code, unused_mut, unused_parens, unused_braces)] " + ln
            if ln.startswith("//@@CANARY"):
                lines.append("proof { assert(false); } " + ln if canary else ln)
            else:
                lines.append(ln)
        self.lemmas = lemma_names
        with open(path, "w") as f:
            f.write("\n".join(lines) + "\n")
        if not canary:
            mp = {
                "unit": self.name,
                "template": os.path.relpath(self.template_path, VX_DIR),
                "repo": self.repo,
                "functions": self.fns,
                "types": self.types,
                "rewrites": self.log,
                "tag_ids": getattr(self, "tag_ids", {}),
                "lemmas": lemma_names,
                "lines": [list(o) if o else None for _, o in self.out],
            }
            with open(os.path.join(outdir, self.name + ".map.json"), "w") as f:
                json.dump(mp, f)
        return path


def build_unit(template_path, repo, outdir):
    u = Unit(template_path, repo)
    u.process()
    p = u.write(outdir)
    c = u.write(outdir, canary=True)
    return u, p, c


if __name__ == "__main__":
    import argparse
    ap = argparse.ArgumentParser()
    ap.add_argument("template")
    ap.add_argument("--repo", default="/repo")
    ap.add_argument("--out", default=os.path.join(os.path.dirname(VX_DIR), "build"))
    a = ap.parse_args()
    try:
        u, p, c = build_unit(a.template, a.repo, a.out)
    except ExtractError as e:
        print("UNDECIDED extract: %s" % e)
        sys.exit(2)
    print(p)
    print(json.dumps(u.log, indent=1))
