// ---- frag/secrets_spec.rs : BOLT-3 secret store reference semantics (spec only) ----
// ------------------------------------------------------------------ spec side
pub open spec fn bit_set(idx: u64, b: u8) -> bool { idx & (1u64 << b) == (1u64 << b) }

// BOLT-3 "generate_from_seed" restricted to the low `bits` bits, `done` iterations performed
pub open spec fn flip_bit(s: Seq<u8>, bitpos: u8) -> Seq<u8> {
    s.update((bitpos / 8) as int, s[(bitpos / 8) as int] ^ (1u8 << (bitpos & 7)))
}
pub open spec fn derive_steps(secret: Seq<u8>, bits: u8, idx: u64, done: nat) -> Seq<u8>
    decreases done
{
    if done == 0 { secret } else {
        let prev = derive_steps(secret, bits, idx, (done - 1) as nat);
        let bitpos = (bits - done) as u8;
        if bit_set(idx, bitpos) { sha256_spec(flip_bit(prev, bitpos)) } else { prev }
    }
}
pub open spec fn derive_spec(secret: Seq<u8>, bits: u8, idx: u64) -> Seq<u8> {
    derive_steps(secret, bits, idx, bits as nat)
}

// position of a secret in the store: number of trailing zero bits of its index, capped at 48
pub open spec fn place_spec(idx: u64, r: u8) -> bool {
    r <= 48 && (r < 48 ==> bit_set(idx, r)) && (forall|j: u8| j < r ==> !bit_set(idx, j))
}

pub open spec fn min_seen(s: Seq<([u8; 32], u64)>) -> u64
    decreases s.len()
{
    if s.len() == 0 { 0x1_0000_0000_0000u64 } else {
        let m = min_seen(s.drop_last());
        if s.last().1 < m { s.last().1 } else { m }
    }
}

// the new secret re-derives every stored secret below its position (BOLT-3 consistency)
pub open spec fn consistent_below(store: Seq<([u8; 32], u64)>, secret: [u8; 32], pos: u8, upto: int) -> bool {
    forall|i: int| 0 <= i < upto ==> derive_spec(secret@, pos, (#[trigger] store[i]).1) == store[i].0@
}


// C03: "the secret is consistent with all earlier secrets under the BOLT-3 derivation tree"
pub open spec fn secret_chains(store: Seq<([u8; 32], u64)>, idx: u64, secret: [u8; 32]) -> bool {
    exists|pos: u8| place_spec(idx, pos) && pos <= store.len() && consistent_below(store, secret, pos, pos as int)
}
