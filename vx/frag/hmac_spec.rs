// ---- frag/hmac_spec.rs : the byte framing fed to the MAC (spec only) ----
// ------------------------------------------------------------------ spec side
pub struct Rec { pub key: Seq<u8>, pub version: u64, pub value: Seq<u8> }
// what the code feeds to the MAC for one record, and for a list of records
pub open spec fn rec_bytes(r: Rec) -> Seq<u8> { r.key + be8(r.version) + r.value }
pub open spec fn recs_bytes(rs: Seq<Rec>) -> Seq<u8>
    decreases rs.len()
{
    if rs.len() == 0 { Seq::<u8>::empty() } else { recs_bytes(rs.drop_last()) + rec_bytes(rs.last()) }
}
pub open spec fn framing(secret: Seq<u8>, nonce: Seq<u8>, rs: Seq<Rec>) -> Seq<u8> { secret + nonce + recs_bytes(rs) }

