// ---- frag/channel_cp_trusted.rs ----
impl Channel {
//@fn vls-core/src/channel.rs :: impl Channel :: make_counterparty_commitment_tx mode=trusted
    requires commitment_number <= INITIAL_COMMITMENT_NUMBER,
    ensures r == cp_ctx_spec(self.keys, self.setup, *remote_per_commitment_point, commitment_number, feerate_per_kw,
        to_holder_value_sat, to_counterparty_value_sat, htlcs@),
        // make_counterparty_commitment_tx_with_keys hands LDK INITIAL_COMMITMENT_NUMBER - n and keys derived for this point
        ctx_commitment_number(r) == INITIAL_COMMITMENT_NUMBER - commitment_number,
        ctx_keys(r).per_commitment_point == *remote_per_commitment_point,
//@end
}
impl CounterpartyCommitmentSecrets {
//@fn vls-core/src/policy/validator.rs :: impl CounterpartyCommitmentSecrets :: provide_secret mode=trusted
//@include frag/c/secrets_provide_secret.rs
//@end
}
impl VxValidator {
//@fn vls-core/src/policy/validator.rs :: trait Validator :: set_next_counterparty_commit_num mode=trusted
//@include frag/c/v_set_next_counterparty_commit_num.rs
//@end
//@fn vls-core/src/policy/validator.rs :: trait Validator :: set_next_counterparty_revoke_num mode=trusted
//@include frag/c/v_set_next_counterparty_revoke_num.rs
//@end
//@fn vls-core/src/policy/simple_validator.rs :: impl Validator for SimpleValidator :: validate_counterparty_commitment_tx mode=trusted
//@include frag/c/sv_validate_counterparty_commitment_tx.rs
//@end
//@fn vls-core/src/policy/simple_validator.rs :: impl Validator for SimpleValidator :: validate_counterparty_revocation mode=trusted
//@include frag/c/sv_validate_counterparty_revocation.rs
//@end
//@fn vls-core/src/policy/simple_validator.rs :: impl Validator for SimpleValidator :: validate_channel_value mode=trusted
//@include frag/c/sv_validate_channel_value.rs
//@end
    // the policy value named by that contract (the validator is an opaque `Arc<dyn Validator>` here)
    pub uninterp spec fn vp_max_channel_size_sat(&self) -> u64;
    // phase-1 decoder (tx/tx.rs script templates): only the two values it returns are used, and the recomposition
    // equality below makes decoder errors fail closed
//@fn vls-core/src/policy/simple_validator.rs :: impl Validator for SimpleValidator :: decode_commitment_tx mode=trusted
//@end
}
