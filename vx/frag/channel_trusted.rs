// ---- frag/channel_trusted.rs : functions Channel relies on whose bodies are verified elsewhere or not at all ----
impl Channel {
    // R10: the ghost field `persisted` records what was last handed to the persister. Storage
    // back-end failures are outside C10/C11, so persist is assumed to succeed.
//@fn vls-core/src/channel.rs :: impl Channel :: persist mode=trusted
//@sigsub /&self/ => &mut self
    ensures
        r.is_ok(),
        final(self).persisted@ == old(self).enforcement_state,
        final(self).enforcement_state == old(self).enforcement_state,
        chan_static_eq(*final(self), *old(self)),
//@end

    // the validator the node's factory makes for this channel (deterministic per channel)
//@fn vls-core/src/channel.rs :: impl ChannelBase for Channel :: validator mode=trusted
    ensures r == chan_validator_of(self.id0),
//@end

//@fn vls-core/src/channel.rs :: impl Channel :: get_node mode=trusted
//@end

    // assumption on chain data: block heights stay far below 2^32
//@fn vls-core/src/channel.rs :: impl Channel :: get_chain_state mode=trusted
    ensures height_sane(r),
//@end

    // LDK key derivation / transaction builders: uninterpreted functions of the channel's static data and the arguments
//@fn vls-core/src/channel.rs :: impl Channel :: make_holder_tx_keys mode=trusted
    ensures r == holder_tx_keys_spec(self.keys, self.setup, *per_commitment_point),
//@end
//@fn vls-core/src/channel.rs :: impl Channel :: make_holder_commitment_tx mode=trusted
    ensures r == holder_ctx_spec(self.keys, self.setup, commitment_number, *keys, feerate_per_kw, to_holder_value_sat, to_counterparty_value_sat, htlcs@),
//@end
//@fn vls-core/src/channel.rs :: impl Channel :: dummy_sig mode=trusted
//@end
}

impl CommitmentInfo2 {
//@fn vls-core/src/tx/tx.rs :: impl CommitmentInfo2 :: new props=C04,C01
    ensures info2_built(r, is_counterparty_broadcaster, to_countersigner_value_sat, to_broadcaster_value_sat,
        offered_htlcs@, received_htlcs@, feerate_per_kw),
//@end
}

impl HolderCommitmentTransaction {
    #[verifier::external_body]
    pub fn new(tx: CommitmentTransaction, sig: Signature, htlc_sigs: Vec<Signature>, a: &PublicKey, b: &PublicKey) -> Self { unimplemented!() }
}

impl EnforcementState {
    // payment summaries / balances feed NodeState::validate_payments (C06); they are read-only
//@fn vls-core/src/policy/validator.rs :: impl EnforcementState :: claimable_balances mode=trusted
//@end
//@fn vls-core/src/policy/validator.rs :: impl EnforcementState :: incoming_payments_summary mode=trusted
    ensures r == pay_in_spec(*self, vx_opt_val(new_holder_tx), vx_opt_val(new_counterparty_tx)),
//@end
//@fn vls-core/src/policy/validator.rs :: impl EnforcementState :: payments_summary mode=trusted
    ensures r == pay_out_spec(*self, vx_opt_val(new_holder_tx), vx_opt_val(new_counterparty_tx)),
//@end
//@fn vls-core/src/policy/validator.rs :: impl EnforcementState :: set_next_holder_commit_num mode=trusted
    requires old(self).next_holder_commit_num < COMMIT_LIMIT,
    ensures
        num == old(self).next_holder_commit_num + 1,
        *final(self) == (EnforcementState {
            next_holder_commit_num: num,
            current_holder_commit_info: Some(current_commitment_info),
            current_counterparty_signatures: Some(counterparty_signatures),
            ..*old(self) }),
//@end
}

// Arc<dyn Validator> (R6): contracts proved on the trait defaults (unit enforcement) and on
// SimpleValidator (unit simple_validator); assumed here
impl VxValidator {
//@fn vls-core/src/policy/validator.rs :: trait Validator :: set_next_holder_commit_num mode=trusted
//@include frag/c/v_set_next_holder_commit_num.rs
//@end
//@fn vls-core/src/policy/validator.rs :: trait Validator :: get_current_holder_commitment_info mode=trusted
//@include frag/c/v_get_current_holder_commitment_info.rs
//@end
//@fn vls-core/src/policy/simple_validator.rs :: impl Validator for SimpleValidator :: validate_holder_commitment_tx mode=trusted
//@include frag/c/sv_validate_holder_commitment_tx.rs
//@end
}
