// ---- frag/channel_decoder_trusted.rs : what the raw-transaction (phase 1) entry points use besides phase 2 ----
#[verifier::external_body] pub struct VxAddress { _p: u8 }
#[verifier::external_body] pub struct VxHTLCInfo { _p: u8 }
//@type vls-core/src/tx/tx.rs :: CommitmentInfo
impl VxValidator {
//@fn vls-core/src/policy/simple_validator.rs :: impl Validator for SimpleValidator :: validate_channel_value mode=trusted
//@end
    // phase-1 decoder (tx/tx.rs script templates): only the two values it returns are used, and the recomposition
    // equality makes decoder errors fail closed
//@fn vls-core/src/policy/simple_validator.rs :: impl Validator for SimpleValidator :: decode_commitment_tx mode=trusted
//@end
}
