
#[verifier::external_body] pub struct VxStr { _p: u8 }
#[verifier::external_body] pub struct Network { _p: u8 }
impl Clone for Network { #[verifier::external_body] fn clone(&self) -> (r: Self) ensures r == *self { unimplemented!() } }
impl Copy for Network {}
#[verifier::external_body] pub struct Allowable { _p: u8 }
#[verifier::external_body] pub struct PersistError { _p: u8 }

// Allowable::from_str / ToStringForNetwork::to_string: deterministic functions of their arguments
pub uninterp spec fn allowable_parse(s: VxStr, n: Network) -> Option<Allowable>;
pub uninterp spec fn allowable_text(a: Allowable, n: Network) -> VxStr;
impl Allowable {
    #[verifier::external_body]
    pub fn from_str(s: &VxStr, network: Network) -> (r: Result<Allowable, VxStr>)
        ensures r.is_ok() == allowable_parse(*s, network).is_some(), r.is_ok() ==> Some(r->Ok_0) == allowable_parse(*s, network)
    { unimplemented!() }
}
pub trait VxOrInvalid<T>: Sized { fn vx_or_invalid_argument(self) -> (r: Result<T, Status>) ensures self.vx_same(r); spec fn vx_same(self, r: Result<T, Status>) -> bool; }
impl<T> VxOrInvalid<T> for Result<T, VxStr> {
    open spec fn vx_same(self, r: Result<T, Status>) -> bool { r.is_ok() == self.is_ok() && (r.is_ok() ==> r->Ok_0 == self->Ok_0) }
    #[verifier::external_body]
    fn vx_or_invalid_argument(self) -> (r: Result<T, Status>) { unimplemented!() }
}

// alloc::collections::BTreeSet<Allowable> (`OrderedSet`)
#[verifier::external_body] pub struct VxAllowSet { _p: u8 }
impl VxAllowSet {
    pub uninterp spec fn view(&self) -> Set<Allowable>;
    #[verifier::external_body]
    pub fn insert(&mut self, a: Allowable) -> (r: bool) ensures final(self)@ == old(self)@.insert(a) { unimplemented!() }
    #[verifier::external_body]
    pub fn remove(&mut self, a: &Allowable) -> (r: bool) ensures final(self)@ == old(self)@.remove(*a) { unimplemented!() }
    #[verifier::external_body]
    pub fn clear(&mut self) ensures final(self)@ == Set::<Allowable>::empty() { unimplemented!() }
    // BTreeSet::extend(Vec): every element of the vector is inserted
    #[verifier::external_body]
    pub fn extend(&mut self, v: Vec<Allowable>)
        ensures forall|a: Allowable| #[trigger] final(self)@.contains(a) <==> old(self)@.contains(a) || v@.contains(a)
    { unimplemented!() }
    // `v.into_iter().collect()` into a BTreeSet: the set of the vector's elements
    #[verifier::external_body]
    pub fn vx_collect(v: Vec<Allowable>) -> (r: VxAllowSet)
        ensures forall|a: Allowable| #[trigger] r@.contains(a) <==> v@.contains(a)
    { unimplemented!() }
    // `self.iter().map(|a| a.to_string(network)).collect()`: the text of every entry (each entry once)
    #[verifier::external_body]
    pub fn vx_texts(&self, network: Network) -> (r: Vec<VxStr>) ensures texts_of(r@, self@, network) { unimplemented!() }
}
// `texts` lists the text form of exactly the entries of `set`
pub open spec fn texts_of(texts: Seq<VxStr>, set: Set<Allowable>, n: Network) -> bool {
    &&& forall|a: Allowable| set.contains(a) ==> exists|i: int| 0 <= i < texts.len() && #[trigger] texts[i] == allowable_text(a, n)
    &&& forall|i: int| 0 <= i < texts.len() ==> exists|a: Allowable| set.contains(a) && #[trigger] allowable_text(a, n) == #[trigger] texts[i]
}

// the part of NodeState / Node these requests touch
pub struct VxNodeStateAl { pub allowlist: VxAllowSet, pub rest: VxRest }
#[verifier::external_body] pub struct VxRest { _p: u8 }
pub struct VxNodeConfigAl { pub network: Network }
#[verifier::external_body] pub struct VxPersist { _p: u8 }
impl VxPersist {
    // ghost (R10 style): the allowlist texts the store holds = what a restarted signer parses its allowlist from
    pub uninterp spec fn stored_allowlist(&self) -> Seq<VxStr>;
    // Persist::update_node_allowlist (KVVPersister: one record per node, replaced as a whole); storage failures are
    // excluded (assumption 6 of DESIGN.md): the write succeeds
    #[verifier::external_body]
    pub fn update_node_allowlist(&mut self, id: &PublicKey, wl: Vec<VxStr>) -> (r: Result<(), PersistError>)
        ensures r.is_ok(), final(self).stored_allowlist() == wl@
    { unimplemented!() }
}
pub trait VxPersistErr: Sized { fn vx_persist_failed(self) -> (r: Result<(), Status>) ensures r.is_ok() == self.vx_ok(); spec fn vx_ok(self) -> bool; }
impl VxPersistErr for Result<(), PersistError> {
    open spec fn vx_ok(self) -> bool { self.is_ok() }
    #[verifier::external_body]
    fn vx_persist_failed(self) -> (r: Result<(), Status>) { unimplemented!() }
}
pub struct Node { pub state: VxNodeStateAl, pub node_config: VxNodeConfigAl, pub persister: VxPersist, pub node_id: PublicKey }

// the store agrees with the running signer: it holds the text of exactly the entries of the in-memory allowlist
pub open spec fn allowlist_in_sync(n: Node) -> bool { texts_of(n.persister.stored_allowlist(), n.state.allowlist@, n.node_config.network) }
// the entries the texts `l[0..k]` parse to
pub open spec fn in_parsed(l: Seq<VxStr>, n: Network, k: int, a: Allowable) -> bool {
    exists|i: int| 0 <= i < k && #[trigger] allowable_parse(l[i], n) == Some(a)
}
pub open spec fn all_parse(l: Seq<VxStr>, n: Network) -> bool { forall|i: int| 0 <= i < l.len() ==> (#[trigger] allowable_parse(l[i], n)).is_some() }

impl Node {
    #[verifier::external_body]
    pub fn network(&self) -> (r: Network) ensures r == self.node_config.network { unimplemented!() }
    #[verifier::external_body]
    pub fn get_id(&self) -> (r: PublicKey) ensures r == self.node_id { unimplemented!() }

