// ---- frag/velocity_spec.rs : VelocityControl reference semantics (spec only) ----
// ---------------------------------------------------------------- spec side
// mathematical sum of a bucket vector
pub open spec fn vsum(s: Seq<u64>) -> nat
    decreases s.len()
{
    if s.len() == 0 { 0 } else { vsum(s.drop_last()) + s.last() as nat }
}

// saturating sum, as computed by `velocity()`
pub open spec fn sat(n: nat) -> u64 { if n > u64::MAX as nat { u64::MAX } else { n as u64 } }

pub open spec fn zeros(n: nat) -> Seq<u64> { Seq::new(n, |i: int| 0u64) }

// representation invariant
pub open spec fn vc_wf(vc: VelocityControl) -> bool {
    vc.bucket_interval > 0 && vc.buckets@.len() > 0
}

// abstract value of a control
pub struct VcAbs { pub start_sec: u64, pub bucket_interval: u32, pub buckets: Seq<u64>, pub limit: u64 }
pub open spec fn vc_abs(vc: VelocityControl) -> VcAbs {
    VcAbs { start_sec: vc.start_sec, bucket_interval: vc.bucket_interval, buckets: vc.buckets@, limit: vc.limit }
}
pub open spec fn abs_wf(vc: VcAbs) -> bool { vc.bucket_interval > 0 && vc.buckets.len() > 0 }

// The buckets after time advanced to `t`: `nshift` empty buckets are pushed in front,
// the oldest `nshift` fall out of the window.
pub open spec fn vc_nshift(vc: VcAbs, t: u64) -> nat {
    let d = ((t - vc.start_sec) / vc.bucket_interval as int) as nat;
    if d < vc.buckets.len() { d } else { vc.buckets.len() }
}
pub open spec fn vc_shifted(vc: VcAbs, t: u64) -> Seq<u64> {
    let n = vc_nshift(vc, t);
    zeros(n) + vc.buckets.take(vc.buckets.len() - n)
}
// acceptance rule taken from the property: the amount counted in the tracked interval plus
// the new amount must not exceed the limit
pub open spec fn vc_accepts(vc: VcAbs, t: u64, amt: u64) -> bool {
    sat(sat(vsum(vc_shifted(vc, t))) as nat + amt as nat) <= vc.limit
}
pub open spec fn vc_step(vc: VcAbs, t: u64, amt: u64) -> VcAbs {
    let sh = vc_shifted(vc, t);
    VcAbs {
        start_sec: (t - (t % vc.bucket_interval as u64)) as u64,
        bucket_interval: vc.bucket_interval,
        buckets: (if vc_accepts(vc, t, amt) { sh.update(0, sat(sh[0] as nat + amt as nat)) } else { sh }),
        limit: vc.limit,
    }
}

pub open spec fn spec_triple(spec: VelocityControlSpec) -> (u64, u32, usize) {
    match spec.interval_type {
        VelocityControlIntervalType::Hourly => (spec.limit_msat, 300u32, 12usize),
        VelocityControlIntervalType::Daily => (spec.limit_msat, 3600u32, 24usize),
        VelocityControlIntervalType::Unlimited => (u64::MAX, 300u32, 12usize),
    }
}
pub open spec fn spec_matches_spec(vc: VelocityControl, spec: VelocityControlSpec) -> bool {
    let t = spec_triple(spec);
    vc.limit == t.0 && vc.bucket_interval == t.1 && vc.buckets@.len() == t.2
}

pub proof fn lemma_vsum_push(s: Seq<u64>, x: u64)
    ensures vsum(s.push(x)) == vsum(s) + x as nat
{
    assert(s.push(x).drop_last() == s);
}
pub proof fn lemma_vsum_zeros(n: nat)
    ensures vsum(zeros(n)) == 0
    decreases n
{
    if n > 0 {
        assert(zeros(n).drop_last() == zeros((n - 1) as nat));
        lemma_vsum_zeros((n - 1) as nat);
    }
}
pub proof fn lemma_vsum_update(s: Seq<u64>, i: int, x: u64)
    requires 0 <= i < s.len()
    ensures vsum(s.update(i, x)) == vsum(s) - s[i] as nat + x as nat
    decreases s.len()
{
    if i == s.len() - 1 {
        assert(s.update(i, x).drop_last() == s.drop_last());
    } else {
        assert(s.update(i, x).drop_last() == s.drop_last().update(i, x));
        lemma_vsum_update(s.drop_last(), i, x);
    }
}

