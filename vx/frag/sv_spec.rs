// ---- frag/sv_spec.rs : C05 reference predicate, written from the property statement and docs/policy-controls.md ----
pub open spec fn sum_htlcs(s: Seq<HTLCInfo2>) -> nat
    decreases s.len()
{
    if s.len() == 0 { 0 } else { sum_htlcs(s.drop_last()) + s.last().value_sat as nat }
}
// the highest fee rate (sat per 1000 weight) that can give rise to this fee, saturated to u32
pub open spec fn feerate_math(fee: nat, weight: nat) -> nat { (fee * 1000 + 999) / weight }
pub open spec fn feerate_sat(fee: nat, weight: nat) -> u32 {
    if feerate_math(fee, weight) > u32::MAX as nat { u32::MAX } else { feerate_math(fee, weight) as u32 }
}
pub open spec fn feerate_in_range(pol: SimplePolicy, fee: nat, weight: nat) -> bool {
    pol.min_feerate_per_kw <= feerate_sat(fee, weight) && feerate_sat(fee, weight) <= pol.max_feerate_per_kw
}
pub open spec fn expiry_ok(pol: SimplePolicy, cstate: ChainState, expiry: u32) -> bool {
    expiry < MAX_CLTV_EXPIRY
    && (pol.use_chain_state ==> cstate.current_height + pol.min_delay <= expiry && expiry <= cstate.current_height + pol.max_delay)
}
pub open spec fn commitment_weight(anchors: bool, n: nat) -> nat { (if anchors { 1124nat } else { 724nat }) + n * 172 }
pub open spec fn htlc_dust_limit(setup: ChannelSetup, feerate_per_kw: u32, second_level_weight: u64) -> nat {
    if setup_is_zero_fee_htlc(setup) { MIN_CHAN_DUST_LIMIT_SATOSHIS as nat }
    else { (MIN_DUST_LIMIT_SATOSHIS + feerate_per_kw as nat * second_level_weight as nat / 1000) as nat }
}
pub open spec fn output_not_dust(v: u64) -> bool { v == 0 || v >= MIN_CHAN_DUST_LIMIT_SATOSHIS }
pub open spec fn htlcs_ok(pol: SimplePolicy, cstate: ChainState, s: Seq<HTLCInfo2>, dust: nat) -> bool {
    forall|i: int| 0 <= i < s.len() ==> expiry_ok(pol, cstate, (#[trigger] s[i]).cltv_expiry) && s[i].value_sat >= dust
}
pub open spec fn info_cp_value(info: CommitmentInfo2) -> u64 {
    if info.is_counterparty_broadcaster { info.to_broadcaster_value_sat } else { info.to_countersigner_value_sat }
}
pub open spec fn info_holder_value(info: CommitmentInfo2) -> u64 {
    if info.is_counterparty_broadcaster { info.to_countersigner_value_sat } else { info.to_broadcaster_value_sat }
}
pub open spec fn commitment_within_policy(pol: SimplePolicy, setup: ChannelSetup, cstate: ChainState, info: CommitmentInfo2,
    commit_num: u64) -> bool
{
    let n = info.offered_htlcs@.len() + info.received_htlcs@.len();
    let inflight = sum_htlcs(info.offered_htlcs@) + sum_htlcs(info.received_htlcs@);
    let outputs = info.to_broadcaster_value_sat as nat + info.to_countersigner_value_sat as nat + inflight;
    let features = setup_features(setup);
    &&& output_not_dust(info.to_broadcaster_value_sat) && output_not_dust(info.to_countersigner_value_sat)
    &&& n <= pol.max_htlcs
    &&& htlcs_ok(pol, cstate, info.offered_htlcs@, htlc_dust_limit(setup, info.feerate_per_kw, spec_htlc_timeout_tx_weight(features)))
    &&& htlcs_ok(pol, cstate, info.received_htlcs@, htlc_dust_limit(setup, info.feerate_per_kw, spec_htlc_success_tx_weight(features)))
    &&& inflight <= pol.max_htlc_value_sat
    &&& outputs <= setup.channel_value_sat
    &&& feerate_in_range(pol, (setup.channel_value_sat - outputs) as nat, commitment_weight(setup_is_anchors(setup), n))
    &&& (commit_num == 0 ==> n == 0 && (setup.is_outbound ==> info_cp_value(info) <= setup.push_value_msat / 1000))
}
// "under a non-permissive policy": the filter reports Error for every tag these checks raise
pub open spec fn c05_strict() -> bool {
    vx_strict(T_policy_commitment_outputs_trimmed) && vx_strict(T_policy_commitment_htlc_count_limit)
    && vx_strict(T_policy_commitment_htlc_cltv_range) && vx_strict(T_policy_commitment_htlc_inflight_limit)
    && vx_strict(T_policy_commitment_fee_range) && vx_strict(T_policy_commitment_first_no_htlcs)
    && vx_strict(T_policy_commitment_initial_funding_value)
}
pub proof fn lemma_sum_htlcs_push(s: Seq<HTLCInfo2>, h: HTLCInfo2)
    ensures sum_htlcs(s.push(h)) == sum_htlcs(s) + h.value_sat as nat
{
    assert(s.push(h).drop_last() == s);
}
