// ---- frag/sweep_spec.rs : C09 reference predicates (spec only) ----
// ------------------------------------------------------------------ spec side (from the property)
// every output of the sweep pays a wallet-derivable or allowlisted script
pub open spec fn sweep_pays_node(w: VxWallet, tx: Transaction, path: DerivationPath) -> bool {
    tx.version == Version::TWO
    && forall|i: int| 0 <= i < tx.output@.len() ==> wallet_ok(w, (#[trigger] tx.output@[i]).script_pubkey, path)
}
pub open spec fn seq_in(seq: u32, allowed: Seq<u32>) -> bool { allowed.contains(seq) }
pub open spec fn non_anchor_seqs() -> Seq<u32> { seq![0x0000_0000u32, 0xffff_fffdu32, 0xffff_ffffu32] }
pub open spec fn anchor_seqs() -> Seq<u32> { seq![0x0000_0001u32] }

