// ---- frag/channel_types.rs : Channel / ChannelSetup / ChannelStub as declared in /repo ----
//@const vls-core/src/util/mod.rs :: INITIAL_COMMITMENT_NUMBER expect="(1 << 48) - 1" as="0xFFFF_FFFF_FFFFu64"
proof fn vx_initial_commitment_number_literal() ensures 0xFFFF_FFFF_FFFFu64 == ((1u64 << 48) - 1) as u64 { assert(0xFFFF_FFFF_FFFFu64 == ((1u64 << 48) - 1) as u64) by(bit_vector); }
//@type vls-core/src/channel.rs :: CommitmentType derive=Clone,Copy,PartialEq
//@type vls-core/src/channel.rs :: ChannelSetup derive=Clone
//@type vls-core/src/channel.rs :: ChannelStub derive=Clone
//@type vls-core/src/channel.rs :: Channel derive=Clone ghost="persisted: Ghost<EnforcementState>"
