// ---- frag/close_spec.rs : C07 reference predicate (spec only) ----
// ------------------------------------------------------------------ spec side (from the property)
pub open spec fn within_eps(pol: SimplePolicy, a: u64, b: u64) -> bool { abs_diff(a, b) <= pol.epsilon_sat }
pub open spec fn c07_strict() -> bool {
    vx_strict(T_policy_mutual_destination_allowlisted) && vx_strict(T_policy_mutual_no_pending_htlcs)
    && vx_strict(T_policy_mutual_fee_range) && vx_strict(T_policy_mutual_value_matches_commitment)
}
pub open spec fn mutual_close_ok(pol: SimplePolicy, w: VxWallet, setup: ChannelSetup, es: EnforcementState,
    to_holder: u64, to_cp: u64, holder_script: Option<ScriptBuf>, cp_script: Option<ScriptBuf>, path: DerivationPath) -> bool
{
    &&& es.current_holder_commit_info.is_some() && es.current_counterparty_commit_info.is_some()
    &&& ({
        let h = es.current_holder_commit_info->Some_0;
        let c = es.current_counterparty_commit_info->Some_0;
        let weight = spec_mutual_close_weight(closing_built_tx(closing_tx_spec(to_holder, to_cp, script_or_empty(holder_script),
            script_or_empty(cp_script), setup.funding_outpoint)));
        // no HTLC is pending in either current commitment
        &&& h.offered_htlcs@.len() == 0 && h.received_htlcs@.len() == 0 && c.offered_htlcs@.len() == 0 && c.received_htlcs@.len() == 0
        // the fee is within the policy range
        &&& to_holder + to_cp <= setup.channel_value_sat
        &&& feerate_in_range(pol, (setup.channel_value_sat - (to_holder + to_cp)) as nat, weight as nat)
        // the side that does not pay the fee receives its balance from both latest commitments within epsilon
        &&& (setup.is_outbound ==> within_eps(pol, to_cp, c.to_broadcaster_value_sat) && within_eps(pol, to_cp, h.to_countersigner_value_sat))
        &&& (!setup.is_outbound ==> within_eps(pol, to_holder, h.to_broadcaster_value_sat) && within_eps(pol, to_holder, c.to_countersigner_value_sat))
    })
    // any holder output goes to a wallet-derivable or allowlisted script ...
    &&& (to_holder > 0 ==> holder_script.is_some())
    &&& (holder_script.is_some() ==> wallet_ok(w, holder_script->Some_0, path))
    // ... which must be the upfront shutdown script if one was fixed
    &&& (setup.holder_shutdown_script.is_some() && to_holder > 0 ==> holder_script == setup.holder_shutdown_script)
    &&& (to_cp > 0 ==> cp_script.is_some())
}


// the output assignments decode_and_validate_mutual_close_tx may try for a 1- or 2-output transaction
pub struct CloseArgs { pub to_holder: u64, pub to_cp: u64, pub holder_script: Option<ScriptBuf>, pub cp_script: Option<ScriptBuf>, pub path: DerivationPath }
pub open spec fn close_candidate(tx: Transaction, paths: Seq<DerivationPath>, a: CloseArgs) -> bool {
    let o = tx.output@;
    if o.len() == 1 {
        a == (CloseArgs { to_holder: amount_sat(o[0].value), to_cp: 0, holder_script: Some(o[0].script_pubkey), cp_script: None, path: paths[0] })
        || a == (CloseArgs { to_holder: 0, to_cp: amount_sat(o[0].value), holder_script: None, cp_script: Some(o[0].script_pubkey), path: master_path() })
    } else if o.len() == 2 {
        a == (CloseArgs { to_holder: amount_sat(o[0].value), to_cp: amount_sat(o[1].value), holder_script: Some(o[0].script_pubkey),
                cp_script: Some(o[1].script_pubkey), path: paths[0] })
        || a == (CloseArgs { to_holder: amount_sat(o[1].value), to_cp: amount_sat(o[0].value), holder_script: Some(o[1].script_pubkey),
                cp_script: Some(o[0].script_pubkey), path: paths[1] })
    } else { false }
}
