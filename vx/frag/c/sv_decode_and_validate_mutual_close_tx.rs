    requires wallet_paths@.len() == tx.output@.len(), tx.output@.len() >= 1,    // an empty output list panics on tx.output[0] (abort)
    ensures
        // the returned closing transaction is built from an output assignment that passed validate_mutual_close_tx,
        // spends the channel's funding outpoint, and (strict filter) is exactly the supplied transaction
        r.is_ok() && c07_strict() ==> exists|a: CloseArgs| close_candidate(*tx, wallet_paths@, a)
            && mutual_close_ok(sv_policy(*self), *wallet, *setup, *estate, a.to_holder, a.to_cp, a.holder_script, a.cp_script, a.path)
            && r->Ok_0 == closing_tx_spec(a.to_holder, a.to_cp, script_or_empty(a.holder_script), script_or_empty(a.cp_script),
                setup.funding_outpoint),                                                           //[C07.decode.validated-assignment]
        r.is_ok() && vx_strict(T_policy_onchain_format_standard) ==> closing_built_tx(r->Ok_0) == *tx,   //[C07.decode.recomposed-equals-supplied]
