    ensures r.0 == self.start_sec, r.1@ == self.buckets@,                          //[C12.save.state]
