    requires
        vc_wf(*old(self)),
        current_sec >= old(self).start_sec,          // property quantifier: non-decreasing timestamps
    ensures
        vc_abs(*final(self)) == vc_step(vc_abs(*old(self)), current_sec, velocity_msat),           //[C12.insert.step]
        r == vc_accepts(vc_abs(*old(self)), current_sec, velocity_msat),                   //[C12.insert.accept]
        // the headline bound: whatever is accepted keeps the tracked sum within the limit
        r && old(self).limit < u64::MAX ==> vsum(final(self).buckets@) <= old(self).limit,   //[C12.insert.bound]
        // a refused amount is not counted anywhere (C10: only time has advanced)
        !r ==> final(self).buckets@ == vc_shifted(vc_abs(*old(self)), current_sec),        //[C10.velocity.refused-not-counted]
        vc_wf(*final(self)),
