    requires state.next_counterparty_commit_num <= COMMIT_LIMIT, revoke_num <= COMMIT_LIMIT,
        state.next_counterparty_revoke_num <= COMMIT_LIMIT,
    ensures
        // C03: the secret's public point equals the per-commitment point signed for that number
        r.is_ok() && vx_strict(T_policy_commitment_previous_revoked) ==>
            es_point_for(*state, revoke_num) == Some(pk_of(*commitment_secret)),             //[C03.sv-validate-revocation.point-match]
        r.is_ok() && vx_strict(T_policy_commitment_previous_revoked) ==>
            (revoke_num == state.next_counterparty_revoke_num || revoke_num + 1 == state.next_counterparty_revoke_num),   //[C03.sv-validate-revocation.expected-number]
