    ensures
        // a control whose spec still matches keeps everything it has counted      [restart clause]
        spec_matches_spec(*old(self), *spec) ==> *final(self) == *old(self),       //[C12.update.keeps]
        !spec_matches_spec(*old(self), *spec) ==> (
            spec_matches_spec(*final(self), *spec) && final(self).start_sec == 0
            && final(self).buckets@ == zeros(spec_triple(*spec).2 as nat)),        //[C12.update.reset]
        vc_wf(*old(self)) ==> vc_wf(*final(self)),
