    ensures
        r.is_ok() && vx_strict(T_policy_routing_cltv_delta) ==> incoming_cltv > outgoing_cltv,   //[C06.cltv.delta]
