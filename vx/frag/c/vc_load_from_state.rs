    ensures
        r.start_sec == state.0, r.buckets == state.1,                              //[C12.load.state]
        r.limit == spec_triple(spec).0, r.bucket_interval == spec_triple(spec).1,
