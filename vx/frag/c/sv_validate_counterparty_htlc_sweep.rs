    requires height_sane(*cstate), tx.input@.len() > 0,
    ensures
        r.is_ok() && vx_strict(T_policy_sweep_destination_allowlisted) ==> sweep_pays_node(*wallet, *tx, *wallet_path),   //[C09.cp-htlc.destinations]
        // locktime no later than the HTLC expiry (received HTLC) resp. the current height + lag (offered HTLC)
        r.is_ok() ==> (match spec_received_htlc_cltv(*redeemscript, setup_is_anchors(*setup)) {
            Some(cltv) => 0 <= cltv && cltv <= u32::MAX && locktime_consensus(tx.lock_time) <= cltv,
            None => spec_is_offered_htlc(*redeemscript, setup_is_anchors(*setup))
                && locktime_satisfied_by_height(tx.lock_time, (cstate.current_height + 2) as u32),
        }),                                                                                                              //[C09.cp-htlc.locktime]
        r.is_ok() ==> seq_in(tx.input@[0].sequence.0, if setup_is_anchors(*setup) { anchor_seqs() } else { non_anchor_seqs() }),   //[C09.cp-htlc.sequence]
