    ensures
        final(self).state == old(self).state, final(self).node_config == old(self).node_config,
        r.is_ok(), allowlist_in_sync(*final(self)),                                                      //[C11.allowlist.update-stores-current-list]
