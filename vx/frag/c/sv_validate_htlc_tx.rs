    ensures
        r.is_ok() && vx_strict(T_policy_htlc_fee_range) ==> feerate_per_kw <= sv_policy(*self).max_feerate_per_kw
            && (setup_is_zero_fee_htlc(*setup) || feerate_per_kw >= sv_policy(*self).min_feerate_per_kw),                       //[C09.htlc-tx.fee-range]
        r.is_ok() && vx_strict(T_policy_htlc_locktime) ==> !(htlc.offered && htlc.cltv_expiry == 0),
