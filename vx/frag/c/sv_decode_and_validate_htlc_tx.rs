    requires tx.input@.len() > 0, tx.output@.len() > 0, htlc_amount_sat * 1000 <= u64::MAX,
    ensures
        // the sighash handed to the signer is that of the BOLT-3 HTLC transaction rebuilt from the negotiated delay and
        // the channel's revocation / delayed keys - and equals the sighash of the supplied transaction
        r.is_ok() ==> ({
            let (rate, htlc, sh, ty) = r->Ok_0;
            let delay = if is_counterparty { setup.holder_selected_contest_delay } else { setup.counterparty_selected_contest_delay };
            &&& ty == (if setup_is_anchors(*setup) { EcdsaSighashType::SinglePlusAnyoneCanPay } else { EcdsaSighashType::All })
            &&& sh@ == sighash_p2wsh(htlc_tx(tx.input@[0].previous_output.txid, rate, delay, htlc, setup_features(*setup),
                    txkeys.broadcaster_delayed_payment_key, txkeys.revocation_key), 0, *redeemscript, htlc_amount_sat, ty)   //[C09.htlc-tx.sighash-of-rebuilt]
            &&& sh@ == sighash_p2wsh(*tx, 0, *redeemscript, htlc_amount_sat, ty)                                           //[C09.htlc-tx.equals-supplied]
            &&& htlc.amount_msat == htlc_amount_sat * 1000 && htlc.transaction_output_index == Some(tx.input@[0].previous_output.vout)
            // the script the signature commits to IS an HTLC script of this channel type, and the transaction is rebuilt for
            // that kind of HTLC (offered: HTLC-timeout, received: HTLC-success)
            &&& (if spec_is_offered_htlc(*redeemscript, setup_is_anchors(*setup)) { htlc.offered }
                 else { spec_received_htlc_cltv(*redeemscript, setup_is_anchors(*setup)).is_some() && !htlc.offered })       //[C09.htlc-tx.script-is-an-htlc-script]
        }),
