    requires
        estate.next_counterparty_revoke_num <= COMMIT_LIMIT, estate.next_counterparty_commit_num <= COMMIT_LIMIT,
        commit_num <= COMMIT_LIMIT,
        height_sane(*cstate), htlc_lens_sane(*info2),
    ensures
        // C03: commitment n is signed only when everything below n-1 is revoked
        r.is_ok() && vx_strict(T_policy_commitment_previous_revoked) ==>
            commit_num <= estate.next_counterparty_revoke_num + 1,                           //[C03.sv-validate-cp.revoked-prefix]
        // C03: an already signed number is re-signed only for the identical point and content
        r.is_ok() && vx_strict(T_policy_commitment_retry_same) && commit_num + 1 == estate.next_counterparty_commit_num ==>
            estate.current_counterparty_point == Some(*commitment_point)
            && es_info_for(*estate, commit_num) == Some(*info2),                             //[C03.sv-validate-cp.retry-same]
