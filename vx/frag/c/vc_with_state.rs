    ensures
        r.start_sec == state.0, r.buckets == state.1,                              //[C12.load.state]
        r.limit == self.limit, r.bucket_interval == self.bucket_interval,
