    requires old(estate).next_holder_commit_num < COMMIT_LIMIT,
    ensures
        // the holder counter only ever moves forward by exactly one, with this request's info and signatures
        r.is_ok() ==> num == old(estate).next_holder_commit_num + 1,                         //[C01.set-holder.step-by-one]
        r.is_ok() ==> *final(estate) == (EnforcementState {
            next_holder_commit_num: num,
            current_holder_commit_info: Some(current_commitment_info),
            current_counterparty_signatures: Some(counterparty_signatures),
            ..*old(estate) }),                                                               //[C01.set-holder.frame]
        num == old(estate).next_holder_commit_num + 1 ==> r.is_ok(),                        //[C10.set-holder.accepts-successor]
        r.is_err() ==> *final(estate) == *old(estate),                                       //[C10.set-holder.err-frame]
