    requires old(estate).next_counterparty_commit_num < COMMIT_LIMIT, old(estate).next_counterparty_revoke_num <= COMMIT_LIMIT,
    ensures
        r.is_ok() && vx_strict(T_policy_other) && vx_strict(T_policy_commitment_previous_revoked) ==>
            cp_commit_guard(*old(estate), num),                                              //[C03.set-cp-commit.guard]
        r.is_ok() ==> *final(estate) == es_set_cp_commit(*old(estate), num, current_point, current_commitment_info),  //[C03.set-cp-commit.exact]
        r.is_err() ==> *final(estate) == *old(estate),                                       //[C10.set-cp-commit.err-frame]
