    requires estate.next_holder_commit_num <= COMMIT_LIMIT, commit_num <= COMMIT_LIMIT,
        height_sane(*cstate), htlc_lens_sane(*info2),
    ensures
        // C02: a new holder state is refused once a holder signature was released ...
        r.is_ok() && vx_strict(T_policy_commitment_spends_active_utxo) && commit_num == estate.next_holder_commit_num
            ==> !estate.channel_closed,                                                      //[C02.sv-validate-holder.not-closed]
        // ... and an already revoked number is refused
        r.is_ok() && vx_strict(T_policy_commitment_holder_not_revoked) ==> commit_num + 2 > estate.next_holder_commit_num,   //[C02.sv-validate-holder.not-revoked]
        r.is_ok() && vx_strict(T_policy_commitment_retry_same) && commit_num + 1 == estate.next_holder_commit_num
            ==> estate.current_holder_commit_info == Some(*info2),                           //[C02.sv-validate-holder.retry-same]
