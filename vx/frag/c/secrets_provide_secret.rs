    ensures
        // accepted only if consistent with every stored secret below its position
        r.is_ok() ==> secret_chains(old(self).old_secrets@, idx, secret),                    //[C03.secrets.provide-consistent]
        // only the slot of this index may change, and only to this secret
        r.is_ok() ==> exists|pos: u8| place_spec(idx, pos) && (
            final(self).old_secrets@ == old(self).old_secrets@
            || (pos < old(self).old_secrets@.len() && final(self).old_secrets@ == old(self).old_secrets@.update(pos as int, (secret, idx)))
            || (pos == old(self).old_secrets@.len() && final(self).old_secrets@ == old(self).old_secrets@.push((secret, idx)))),   //[C03.secrets.provide-frame]
        // an index that was already provided (it is not below the lowest index seen) is a no-op: a verified secret is never
        // replaced by a replay
        min_seen(old(self).old_secrets@) <= idx ==> final(self).old_secrets@ == old(self).old_secrets@,   //[C03.secrets.provide-seen-index-is-noop]
        // ... and an index below everything seen so far IS recorded (the store a later revocation is checked against must
        // contain every secret that was accepted)
        r.is_ok() && idx < min_seen(old(self).old_secrets@) ==> exists|pos: u8| place_spec(idx, pos)
            && pos < final(self).old_secrets@.len() && final(self).old_secrets@[pos as int] == (secret, idx),      //[C03.secrets.provide-new-index-is-stored]
        r.is_err() ==> final(self).old_secrets@ == old(self).old_secrets@,                   //[C10.secrets.provide-err-frame]
