    ensures
        // accepted only if consistent with every stored secret below its position
        r.is_ok() ==> secret_chains(old(self).old_secrets@, idx, secret),                    //[C03.secrets.provide-consistent]
        // only the slot of this index may change, and only to this secret
        r.is_ok() ==> exists|pos: u8| place_spec(idx, pos) && (
            final(self).old_secrets@ == old(self).old_secrets@
            || (pos < old(self).old_secrets@.len() && final(self).old_secrets@ == old(self).old_secrets@.update(pos as int, (secret, idx)))
            || (pos == old(self).old_secrets@.len() && final(self).old_secrets@ == old(self).old_secrets@.push((secret, idx)))),   //[C03.secrets.provide-frame]
        r.is_err() ==> final(self).old_secrets@ == old(self).old_secrets@,                   //[C10.secrets.provide-err-frame]
