    ensures
        // every bucket is emptied (what was counted is forgotten: callers do this only after an explicit approval);
        // the window position and the limit stay
        final(self).buckets@ == zeros(old(self).buckets@.len()),                                        //[C12.clear.empties-every-bucket]
        final(self).start_sec == old(self).start_sec, final(self).bucket_interval == old(self).bucket_interval,
        final(self).limit == old(self).limit,
