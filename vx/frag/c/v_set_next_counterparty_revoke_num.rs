    requires num < COMMIT_LIMIT, old(estate).next_counterparty_revoke_num <= COMMIT_LIMIT,
    ensures
        r.is_ok() && vx_strict(T_policy_other) && vx_strict(T_policy_commitment_previous_revoked) ==>
            cp_revoke_guard(*old(estate), num),                                              //[C03.set-cp-revoke.guard]
        r.is_ok() ==> *final(estate) == es_set_cp_revoke(*old(estate), num),                 //[C03.set-cp-revoke.exact]
        r.is_err() ==> *final(estate) == *old(estate),                                       //[C10.set-cp-revoke.err-frame]
