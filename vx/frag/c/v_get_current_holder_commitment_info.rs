    requires old(estate).next_holder_commit_num <= COMMIT_LIMIT, commitment_number <= COMMIT_LIMIT,
    ensures
        *final(estate) == *old(estate),                                                      //[C10.get-current-holder.frame]
        // only the current (never an already revoked) holder commitment is handed to the signing paths
        r.is_ok() && vx_strict(T_policy_other) ==>
            commitment_number + 1 == old(estate).next_holder_commit_num,                     //[C02.get-current-holder.is-current]
        r.is_ok() ==> old(estate).current_holder_commit_info == Some(r->Ok_0),               //[C02.get-current-holder.stored-info]
