    ensures r.is_ok() && vx_strict(T_policy_funding_max) ==> setup.channel_value_sat <= self.vp_max_channel_size_sat(),   //[C05.channel-value.max]
