    ensures
        r.is_ok() && c07_strict() ==> mutual_close_ok(sv_policy(*self), *wallet, *setup, *estate, to_holder_value_sat,
            to_counterparty_value_sat, *holder_script, *counterparty_script, *holder_wallet_path_hint),   //[C07.validate.mutual-close-ok]
