    requires height_sane(*cstate), tx.input@.len() > 0,
    ensures
        r.is_ok() && vx_strict(T_policy_sweep_destination_allowlisted) ==> sweep_pays_node(*wallet, *tx, *wallet_path),   //[C09.justice.destinations]
        r.is_ok() ==> locktime_satisfied_by_height(tx.lock_time, (cstate.current_height + 2) as u32),                   //[C09.justice.locktime]
        r.is_ok() ==> seq_in(tx.input@[0].sequence.0, non_anchor_seqs()),                                               //[C09.justice.sequence]
