    requires
        weight_lower_bound > 0,
        opaths@.len() == tx.output@.len(), channels@.len() == tx.output@.len(),      // indexing panics otherwise (abort)
    ensures
        // every output is a known destination ...
        r.is_ok() && c08_strict() ==> outputs_ok_upto(*wallet, *tx, opaths@, channels@, tx.output@.len() as int),     //[C08.onchain.no-unknown-destination]
        // ... the value leaving the node is inputs minus what returns, and is within the fee bound
        r.is_ok() && c08_strict() ==> r->Ok_0 as nat + beneficial_sum_upto(*wallet, *tx, opaths@, channels@, tx.output@.len() as int)
            == sum_u64(values_sat@),                                                                                 //[C08.onchain.non-beneficial-exact]
        r.is_ok() && c08_strict() && !dev_disabled(self.vp_policy()) ==>
            feerate_sat(r->Ok_0 as nat, weight_lower_bound as nat) <= self.vp_policy().max_feerate_per_kw,                //[C08.onchain.fee-bound]
        // whatever the filter: the reported value never exceeds what the inputs carry
        r.is_ok() ==> r->Ok_0 as nat <= sum_u64(values_sat@),                                                        //[C08.onchain.non-beneficial-at-most-inputs]
        // funding any channel requires all inputs to be segwit
        r.is_ok() && c08_strict() && any_some(channels@) ==> all_true_flags(segwit_flags@),                          //[C08.onchain.funding-non-malleable]
        r.is_ok() && c08_strict() ==> tx.version == Version::TWO && tx_base_size(*tx) <= MAX_ONCHAIN_TX_SIZE,
        // an "unknown destinations" refusal - the only one an approver may override - is issued only after the whole-transaction
        // checks passed and every output that claims to fund a channel was accepted: approving the listed outputs cannot waive those
        r.is_err() && ve_unknown_dest(r->Err_0) && c08_strict() ==>
            (any_some(channels@) ==> all_true_flags(segwit_flags@))
            && tx.version == Version::TWO && tx_base_size(*tx) <= MAX_ONCHAIN_TX_SIZE
            && forall|i: int| 0 <= i < tx.output@.len() ==> known_or_plain_unknown(*wallet, #[trigger] tx.output@[i], opaths@[i], channels@[i]),   //[C08.onchain.unknown-refusal-only-after-other-checks]
