    requires
        // assumption: msat amounts stay below 2^62 (the total bitcoin supply is about 2^61 msat); beyond it the unchecked
        // u64 additions in this function wrap (towards refusal) in release builds and panic in debug builds
        incoming_msat <= MSAT_BOUND, outgoing_msat <= MSAT_BOUND, self.vp_max_routing_fee_msat() <= MSAT_BOUND,
        invoiced_amount_msat.is_some() ==> invoiced_amount_msat->Some_0 <= MSAT_BOUND,
    ensures
        // C06: what goes out for a payment hash is covered by what comes in plus the approved amount plus the fee allowance;
        // without an approved invoice the allowance is zero (unbacked payments are refused)
        r.is_ok() && vx_strict(T_policy_routing_balanced) ==> outgoing_msat <= incoming_msat
            + (match invoiced_amount_msat { Some(a) => a + self.vp_max_routing_fee_msat(), None => 0 }),     //[C06.balance.covered]
        // and the routing fee actually paid stays within the configured percentage of the invoice
        r.is_ok() && vx_strict(T_policy_htlc_fee_range) && invoiced_amount_msat.is_some()
            && invoiced_amount_msat->Some_0 + incoming_msat <= outgoing_msat ==>
            (outgoing_msat - invoiced_amount_msat->Some_0 - incoming_msat) * 100
                / (if invoiced_amount_msat->Some_0 >= 1 { invoiced_amount_msat->Some_0 as int } else { 1 })
                <= self.vp_max_feerate_percentage(),                                                         //[C06.balance.fee-percentage]
