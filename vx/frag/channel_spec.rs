// ---- frag/channel_spec.rs : reference predicates for the holder side (spec only) ----

// C01: the secret of holder commitment n may be disclosed only once commitment n+1 is current,
// i.e. next_holder_commit_num >= n + 2
pub open spec fn secret_disclosable(es: EnforcementState, n: u64) -> bool {
    n + 2 <= es.next_holder_commit_num
}
// the per-commitment secret of holder commitment n under these channel keys
pub open spec fn holder_secret(keys: InMemorySigner, n: u64) -> SecretKey {
    sk_of_bytes(ldk_commitment_secret(keys, (INITIAL_COMMITMENT_NUMBER - n) as u64))
}
// everything of a Channel that no request may change
pub open spec fn chan_static_eq(a: Channel, b: Channel) -> bool {
    a.keys == b.keys && a.setup == b.setup && a.id0 == b.id0 && a.id == b.id && a.node == b.node
    && a.secp_ctx == b.secp_ctx && a.monitor == b.monitor
}
// between requests: counters inside the BOLT-3 index space, and (C11) the store holds the live state
pub open spec fn chan_wf(c: Channel) -> bool {
    c.enforcement_state.next_holder_commit_num + 2 < COMMIT_LIMIT
    && c.enforcement_state.next_counterparty_commit_num + 2 < COMMIT_LIMIT
    && c.enforcement_state.next_counterparty_revoke_num + 2 < COMMIT_LIMIT
    && c.persisted@ == c.enforcement_state
}
