// ---- frag/channel_spec.rs : reference predicates for the holder side (spec only) ----

// C01: the secret of holder commitment n may be disclosed only once commitment n+1 is current,
// i.e. next_holder_commit_num >= n + 2
pub open spec fn secret_disclosable(es: EnforcementState, n: u64) -> bool {
    n + 2 <= es.next_holder_commit_num
}
// the per-commitment secret of holder commitment n under these channel keys
pub open spec fn holder_secret(keys: InMemorySigner, n: u64) -> SecretKey {
    sk_of_bytes(ldk_commitment_secret(keys, (INITIAL_COMMITMENT_NUMBER - n) as u64))
}
// everything of a Channel that no request may change
pub open spec fn chan_static_eq(a: Channel, b: Channel) -> bool {
    a.keys == b.keys && a.setup == b.setup && a.id0 == b.id0 && a.id == b.id && a.node == b.node
    && a.secp_ctx == b.secp_ctx && a.monitor == b.monitor
}
// between requests: counters inside the BOLT-3 index space, and (C11) the store holds the live state
pub open spec fn chan_wf(c: Channel) -> bool {
    c.enforcement_state.next_holder_commit_num + 2 < COMMIT_LIMIT
    && c.enforcement_state.next_counterparty_commit_num + 2 < COMMIT_LIMIT
    && c.enforcement_state.next_counterparty_revoke_num + 2 < COMMIT_LIMIT
    && c.persisted@ == c.enforcement_state
}

// ---- C01: "counterparty signatures that verify against the transaction it rebuilt" -------------
pub uninterp spec fn setup_features(setup: ChannelSetup) -> ChannelTypeFeatures;
pub uninterp spec fn holder_tx_keys_spec(keys: InMemorySigner, setup: ChannelSetup, point: PublicKey) -> TxCreationKeys;
// LDK CommitmentTransaction::new_with_auxiliary_htlc_data for the holder side, a function of the channel's
// static data and exactly these arguments
pub uninterp spec fn holder_ctx_spec(ckeys: InMemorySigner, setup: ChannelSetup, n: u64, keys: TxCreationKeys, feerate: u32, to_holder: u64, to_cp: u64,
    htlcs: Seq<HTLCOutputInCommitment>) -> CommitmentTransaction;

pub open spec fn setup_is_anchors(s: ChannelSetup) -> bool {
    s.commitment_type == CommitmentType::Anchors || s.commitment_type == CommitmentType::AnchorsZeroFeeHtlc
}
pub open spec fn setup_is_zero_fee_htlc(s: ChannelSetup) -> bool { s.commitment_type == CommitmentType::AnchorsZeroFeeHtlc }

pub open spec fn oic_of(h: HTLCInfo2, offered: bool) -> HTLCOutputInCommitment {
    HTLCOutputInCommitment { offered, amount_msat: (h.value_sat * 1000) as u64, cltv_expiry: h.cltv_expiry,
        payment_hash: h.payment_hash, transaction_output_index: None }
}
pub open spec fn oic_spec(offered: Seq<HTLCInfo2>, received: Seq<HTLCInfo2>) -> Seq<HTLCOutputInCommitment> {
    offered.map(|i: int, h: HTLCInfo2| oic_of(h, true)) + received.map(|i: int, h: HTLCInfo2| oic_of(h, false))
}
pub open spec fn htlcs_msat_fit(s: Seq<HTLCInfo2>) -> bool {
    s.len() <= 0xffff_ffff && forall|i: int| 0 <= i < s.len() ==> (#[trigger] s[i]).value_sat * 1000 <= u64::MAX
}

pub open spec fn htlc_sig_valid(ckeys: InMemorySigner, setup: ChannelSetup, point: PublicKey, txkeys: TxCreationKeys, feerate: u32, ctx: CommitmentTransaction,
    i: int, sig: Signature) -> bool
{
    let htlc = ctx_htlcs(ctx)[i];
    let features = setup_features(setup);
    let build_feerate = if setup_is_zero_fee_htlc(setup) { 0u32 } else { feerate };
    let ty = if setup_is_anchors(setup) { EcdsaSighashType::SinglePlusAnyoneCanPay } else { EcdsaSighashType::All };
    let tx = htlc_tx(ctx_txid(ctx), build_feerate, setup.counterparty_selected_contest_delay, htlc, features,
        txkeys.broadcaster_delayed_payment_key, txkeys.revocation_key);
    let htlc_pk = derived_public_key(point, ldk_counterparty_pubkeys(ckeys)->Some_0.htlc_basepoint.0);
    ecdsa_valid(message_of_digest(sighash_p2wsh(tx, 0, htlc_redeemscript(htlc, features, txkeys), htlc.amount_msat / 1000, ty)), sig, htlc_pk)
}
pub open spec fn holder_sigs_valid(ckeys: InMemorySigner, setup: ChannelSetup, point: PublicKey, txkeys: TxCreationKeys, feerate: u32, commit_sig: Signature,
    htlc_sigs: Seq<Signature>, ctx: CommitmentTransaction) -> bool
{
    let redeem = funding_redeemscript(ldk_pubkeys(ckeys).funding_pubkey, setup.counterparty_points.funding_pubkey);
    ecdsa_valid(message_of_digest(sighash_p2wsh(ctx_built_tx(ctx), 0, redeem, setup.channel_value_sat, EcdsaSighashType::All)),
        commit_sig, setup.counterparty_points.funding_pubkey)
    && ctx_htlcs(ctx).len() <= htlc_sigs.len()
    && forall|i: int| 0 <= i < ctx_htlcs(ctx).len() ==> htlc_sig_valid(ckeys, setup, point, txkeys, feerate, ctx, i, htlc_sigs[i])
}
// holder commitment n with content `info` was counter-signed: both the commitment signature and every HTLC
// signature verify against the transaction the signer rebuilds from `info` and the channel's own keys
pub open spec fn holder_commitment_verified(ckeys: InMemorySigner, setup: ChannelSetup, n: u64, info: CommitmentInfo2, sigs: CommitmentSignatures) -> bool {
    let point = ldk_commitment_point(ckeys, (INITIAL_COMMITMENT_NUMBER - n) as u64);
    let txkeys = holder_tx_keys_spec(ckeys, setup, point);
    let ctx = holder_ctx_spec(ckeys, setup, n, txkeys, info.feerate_per_kw, info.to_broadcaster_value_sat, info.to_countersigner_value_sat,
        oic_spec(info.offered_htlcs@, info.received_htlcs@));
    !info.is_counterparty_broadcaster
    && holder_sigs_valid(ckeys, setup, point, txkeys, info.feerate_per_kw, sigs.0, sigs.1@, ctx)
}
// C01 representation invariant: a stored successor is always a verified one, for the next number
pub open spec fn hc_inv(c: Channel) -> bool {
    match c.enforcement_state.next_holder_commit_info {
        Some((i, s)) => holder_commitment_verified(c.keys, c.setup, c.enforcement_state.next_holder_commit_num, i, s),
        None => true,
    }
}

// CommitmentInfo2::new normalises (sorts) the two HTLC lists and stores the rest verbatim
pub open spec fn info2_built(r: CommitmentInfo2, is_cp: bool, to_countersigner: u64, to_broadcaster: u64,
    offered: Seq<HTLCInfo2>, received: Seq<HTLCInfo2>, feerate: u32) -> bool
{
    r.is_counterparty_broadcaster == is_cp && r.to_countersigner_value_sat == to_countersigner
    && r.to_broadcaster_value_sat == to_broadcaster && r.feerate_per_kw == feerate
    && r.offered_htlcs@.to_multiset() == offered.to_multiset() && r.offered_htlcs@.len() == offered.len()
    && r.received_htlcs@.to_multiset() == received.to_multiset() && r.received_htlcs@.len() == received.len()
}
pub proof fn lemma_msat_fit_multiset(a: Seq<HTLCInfo2>, b: Seq<HTLCInfo2>)
    requires a.to_multiset() == b.to_multiset(), htlcs_msat_fit(a),
    ensures htlcs_msat_fit(b),
{
    a.to_multiset_ensures(); b.to_multiset_ensures();
    assert forall|i: int| 0 <= i < b.len() implies (#[trigger] b[i]).value_sat * 1000 <= u64::MAX by {
        broadcast use vstd::seq_lib::group_seq_properties;
        b.to_multiset_ensures();
        a.to_multiset_ensures();
        assert(b.to_multiset().count(b[i]) > 0);
        assert(a.contains(b[i]));
    }
}
