// ---- frag/channel_recovery_trusted.rs : what sign_holder_commitment_tx_for_recovery relies on (assumed) ----
#[verifier::external_body]
pub struct InputUtxo { _p: u8 }
#[verifier::external_body]
pub fn vx_get_revokeable_redeemscript(revocation_key: &VxKeyWrap, contest_delay: u16, delayed: &VxKeyWrap) -> ScriptBuf { unimplemented!() }
impl ScriptBuf {
    #[verifier::external_body]
    pub fn to_p2wsh(&self) -> ScriptBuf { unimplemented!() }
}
impl HolderCommitmentTransaction {
    #[verifier::external_body]
    pub fn trust(&self) -> TrustedCommitmentTransaction { unimplemented!() }
}
// util/crypto_utils.rs::derive_public_revocation_key always returns Ok (body checked textually)
//@expectbody vls-core/src/util/crypto_utils.rs :: - :: derive_public_revocation_key :: let revocation_key = RevocationKey::from_basepoint( secp_ctx, &countersignatory_revocation_base_point, per_commitment_point, ); Ok(revocation_key)
#[verifier::external_body]
pub fn derive_public_revocation_key(secp: &VxSecp, per_commitment_point: &PublicKey, base: &VxKeyWrap) -> (r: Result<VxKeyWrap, ()>)
    ensures r.is_ok()
{ unimplemented!() }
//@fn vls-core/src/util/transaction_utils.rs :: - :: add_holder_sig mode=trusted
//@end
impl Channel {
    // ASSUMED (by reading, body not verified): with both a commitment point and a revocation key the to-local branch
    // is taken, which has no error exit
//@fn vls-core/src/channel.rs :: impl Channel :: get_unilateral_close_key mode=trusted
    ensures commitment_point.is_some() && revocation_pubkey.is_some() ==> r.is_ok(),
//@end
}
