// ---- frag/enforcement_types.rs : in-repo data types of the channel enforcement state ----
verus! {
//@type vls-core/src/tx/tx.rs :: HTLCInfo2 derive=Clone,PartialEq,Eq
// HTLCInfo2 derives Ord (field order); only the existence of the total order is used (Vec::sort)
impl PartialOrd for HTLCInfo2 { #[verifier::external_body] fn partial_cmp(&self, other: &Self) -> Option<core::cmp::Ordering> { unimplemented!() } }
impl Ord for HTLCInfo2 { #[verifier::external_body] fn cmp(&self, other: &Self) -> core::cmp::Ordering { unimplemented!() } }
//@type vls-core/src/tx/tx.rs :: CommitmentInfo2 derive=Clone,PartialEq
//@type vls-core/src/policy/validator.rs :: CommitmentSignatures derive=Clone
//@type vls-core/src/policy/validator.rs :: CounterpartyCommitmentSecrets derive=Clone
//@type vls-core/src/policy/validator.rs :: EnforcementState derive=Clone
//@type vls-core/src/policy/validator.rs :: ChainState
//@type vls-core/src/policy/validator.rs :: BalanceDelta
} // verus!
