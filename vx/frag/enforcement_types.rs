// ---- frag/enforcement_types.rs : in-repo data types of the channel enforcement state ----
verus! {
//@type vls-core/src/tx/tx.rs :: HTLCInfo2 derive=Clone,PartialEq,Eq
//@type vls-core/src/tx/tx.rs :: CommitmentInfo2 derive=Clone,PartialEq
//@type vls-core/src/policy/validator.rs :: CommitmentSignatures derive=Clone
//@type vls-core/src/policy/validator.rs :: CounterpartyCommitmentSecrets derive=Clone
//@type vls-core/src/policy/validator.rs :: EnforcementState derive=Clone
//@type vls-core/src/policy/validator.rs :: ChainState
//@type vls-core/src/policy/validator.rs :: BalanceDelta
} // verus!
