// ---- frag/redb_model.rs : the redb table / version index model shared by units kvv_redb and kvv_redb_start ----
pub enum Error { VersionMismatch, Other }

// big-endian encoding of a 64-bit version
pub open spec fn be8(v: u64) -> Seq<u8> {
    seq![(v >> 56) as u8, (v >> 48) as u8, (v >> 40) as u8, (v >> 32) as u8, (v >> 24) as u8, (v >> 16) as u8, (v >> 8) as u8, v as u8]
}
#[verifier::external_body]
pub fn vx_be8_u64(v: u64) -> (r: [u8; 8]) ensures r@ == be8(v) { v.to_be_bytes() }
#[verifier::external_body]
pub fn vx_vec_eq(a: &Vec<u8>, b: &Vec<u8>) -> (r: bool) ensures r == (a@ == b@) { a == b }

// u64::from_be_bytes(vv[..8].try_into().unwrap()) and vv[8..].to_vec(): panic (abort) on records shorter than 8 bytes
pub open spec fn unbe8(s: Seq<u8>) -> u64 {
    ((s[0] as u64) << 56 | (s[1] as u64) << 48 | (s[2] as u64) << 40 | (s[3] as u64) << 32
     | (s[4] as u64) << 24 | (s[5] as u64) << 16 | (s[6] as u64) << 8 | (s[7] as u64)) as u64
}
// the two encodings are inverse (proved, bit-vector reasoning)
pub proof fn lemma_unbe8_be8(v: u64) ensures unbe8(be8(v)) == v {
    assert(((((v >> 56) as u8) as u64) << 56 | (((v >> 48) as u8) as u64) << 48 | (((v >> 40) as u8) as u64) << 40
        | (((v >> 32) as u8) as u64) << 32 | (((v >> 24) as u8) as u64) << 24 | (((v >> 16) as u8) as u64) << 16
        | (((v >> 8) as u8) as u64) << 8 | ((v as u8) as u64)) as u64 == v) by(bit_vector);
}
pub proof fn lemma_be8_unbe8(s: Seq<u8>) requires s.len() == 8 ensures be8(unbe8(s)) == s {
    let (b0, b1, b2, b3, b4, b5, b6, b7) = (s[0], s[1], s[2], s[3], s[4], s[5], s[6], s[7]);
    let v = unbe8(s);
    assert(v == ((b0 as u64) << 56 | (b1 as u64) << 48 | (b2 as u64) << 40 | (b3 as u64) << 32
        | (b4 as u64) << 24 | (b5 as u64) << 16 | (b6 as u64) << 8 | (b7 as u64)) as u64);
    assert((v >> 56) as u8 == b0 && (v >> 48) as u8 == b1 && (v >> 40) as u8 == b2 && (v >> 32) as u8 == b3
        && (v >> 24) as u8 == b4 && (v >> 16) as u8 == b5 && (v >> 8) as u8 == b6 && v as u8 == b7) by(bit_vector)
        requires v == ((b0 as u64) << 56 | (b1 as u64) << 48 | (b2 as u64) << 40 | (b3 as u64) << 32
            | (b4 as u64) << 24 | (b5 as u64) << 16 | (b6 as u64) << 8 | (b7 as u64)) as u64;
    assert(be8(v) =~= s);
}
#[verifier::external_body]
pub fn vx_u64_from_be8(vv: &[u8]) -> (r: u64) ensures vv@.len() >= 8, r == unbe8(vv@.take(8)) { unimplemented!() }
#[verifier::external_body]
pub fn vx_skip8(vv: &[u8]) -> (r: Vec<u8>) ensures vv@.len() >= 8, r@ == vv@.skip(8) { unimplemented!() }

// BTreeMap<String, u64>
#[verifier::external_body] pub struct VxVerMap { _p: u8 }
impl VxVerMap {
    pub uninterp spec fn view(&self) -> Map<Seq<char>, u64>;
    #[verifier::external_body]
    pub fn get(&self, key: &str) -> (r: Option<&u64>)
        ensures r.is_some() == self@.dom().contains(key@), r.is_some() ==> *(r->Some_0) == self@[key@] { unimplemented!() }
    #[verifier::external_body]
    pub fn insert(&mut self, key: String, v: u64) -> (r: Option<u64>) ensures final(self)@ == old(self)@.insert(key@, v) { unimplemented!() }
    #[verifier::external_body]
    pub fn new() -> (r: VxVerMap) ensures r@ == Map::<Seq<char>, u64>::empty() { unimplemented!() }
    // `for (key, value) in staged.into_iter() { self.insert(key, value); }`
    #[verifier::external_body]
    pub fn vx_extend(&mut self, staged: VxVerMap) ensures final(self)@ == old(self)@.union_prefer_right(staged@) { unimplemented!() }
}
// redb::Database with the single table `kv` (R5): committed content; a write transaction is a private copy
#[verifier::external_body] pub struct Database { _p: u8 }
#[verifier::external_body] pub struct VxWriteTx { _p: u8 }
impl Database {
    pub uninterp spec fn view(&self) -> Map<Seq<char>, Seq<u8>>;
    // begin_read + open_table + get(key).expect(..).unwrap() + value(): the committed bytes of an existing key
    #[verifier::external_body]
    pub fn vx_read(&self, key: &str) -> (r: Vec<u8>) ensures self@.dom().contains(key@), r@ == self@[key@] { unimplemented!() }
    #[verifier::external_body]
    pub fn vx_read_opt(&self, key: &str) -> (r: Option<Vec<u8>>)
        ensures r.is_some() == self@.dom().contains(key@), r.is_some() ==> (r->Some_0)@ == self@[key@] { unimplemented!() }
    #[verifier::external_body]
    pub fn vx_begin_write(&self) -> (r: VxWriteTx) ensures r@ == self@ { unimplemented!() }
    // tx.commit().unwrap(): the transaction's content becomes the committed content
    #[verifier::external_body]
    pub fn vx_commit(&mut self, tx: VxWriteTx) ensures final(self)@ == tx@ { unimplemented!() }
}
impl VxWriteTx {
    pub uninterp spec fn view(&self) -> Map<Seq<char>, Seq<u8>>;
    // open_table(TABLE) + insert(key, bytes)
    #[verifier::external_body]
    pub fn vx_insert(&mut self, key: &str, v: &[u8]) ensures final(self)@ == old(self)@.insert(key@, v@) { unimplemented!() }
    // table.get(key).expect(..).unwrap().value() inside the write transaction: sees the transaction's own writes
    #[verifier::external_body]
    pub fn vx_get(&self, key: &str) -> (r: Vec<u8>) ensures self@.dom().contains(key@), r@ == self@[key@] { unimplemented!() }
    // tx.abort().unwrap(): nothing is installed
    #[verifier::external_body]
    pub fn vx_abort(self) { unimplemented!() }
}

//@type vls-persist/src/kvv/redb.rs :: RedbKVVStore
//@type vls-persist/src/kvv.rs :: KVV

// ------------------------------------------------------------------ spec side
pub open spec fn enc(version: u64, value: Seq<u8>) -> Seq<u8> { be8(version) + value }
// the version index agrees with the table: same keys, and every stored record starts with its indexed version
pub open spec fn redb_inv(s: RedbKVVStore) -> bool {
    &&& forall|k: Seq<char>| #[trigger] s.versions.val@.dom().contains(k) <==> s.db@.dom().contains(k)
    &&& forall|k: Seq<char>| #[trigger] s.versions.val@.dom().contains(k) ==> s.db@[k].len() >= 8 && s.db@[k].take(8) == be8(s.versions.val@[k])
}
// a write is accepted iff the key is new, the version is higher, or it repeats the current version with identical content
pub open spec fn write_ok(s: RedbKVVStore, k: Seq<char>, version: u64, value: Seq<u8>) -> bool {
    !s.versions.val@.dom().contains(k) || version > s.versions.val@[k]
    || (version == s.versions.val@[k] && s.db@[k] == enc(version, value))
}

