// ---- frag/str_order.rs : the order of `String` / `&str` keys in a BTreeMap or a redb table (byte-wise lexicographic) ----
// Only two facts about that order are used, both stated here as assumptions about std (trusted base):
//   (1) a string is not below any of its prefixes,
//   (2) the keys that start with a prefix form one block of the order: going upwards from the prefix, once a key does not
//       start with it no later key does.
pub open spec fn is_prefix(p: Seq<char>, k: Seq<char>) -> bool { p.len() <= k.len() && k.subrange(0, p.len() as int) == p }
pub uninterp spec fn str_le(a: Seq<char>, b: Seq<char>) -> bool;
pub open spec fn str_lt(a: Seq<char>, b: Seq<char>) -> bool { str_le(a, b) && a != b }
#[verifier::external_body]
pub proof fn axiom_str_order_prefix_first(p: Seq<char>, k: Seq<char>) requires is_prefix(p, k) ensures str_le(p, k) {}
#[verifier::external_body]
pub proof fn axiom_str_order_prefix_block(p: Seq<char>, a: Seq<char>, b: Seq<char>)
    requires str_le(p, a), str_lt(a, b), !is_prefix(p, a) ensures !is_prefix(p, b) {}
#[verifier::external_body]
pub proof fn axiom_str_order_trans(a: Seq<char>, b: Seq<char>, c: Seq<char>) requires str_le(a, b), str_le(b, c) ensures str_le(a, c) {}
#[verifier::external_body]
pub fn vx_starts_with(k: &str, prefix: &str) -> (r: bool) ensures r == is_prefix(prefix@, k@) { k.starts_with(prefix) }
// ascending, each key once
pub open spec fn keys_ascending(ks: Seq<Seq<char>>) -> bool { forall|i: int, j: int| 0 <= i < j < ks.len() ==> str_lt(ks[i], ks[j]) }
