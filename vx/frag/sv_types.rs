// ---- frag/sv_types.rs : SimpleValidator / SimplePolicy as declared in /repo ----
//@type vls-core/src/util/velocity.rs :: VelocityControlIntervalType derive=Clone,Copy
//@type vls-core/src/util/velocity.rs :: VelocityControlSpec derive=Clone,Copy
//@type vls-core/src/policy/simple_validator.rs :: PolicyDevFlags derive=Clone
//@type vls-core/src/policy/simple_validator.rs :: SimplePolicy derive=Clone
//@type vls-core/src/policy/simple_validator.rs :: SimpleValidator
//@const vls-core/src/policy/mod.rs :: MAX_CLTV_EXPIRY
//@const vls-core/src/util/transaction_utils.rs :: MIN_DUST_LIMIT_SATOSHIS
//@const vls-core/src/util/transaction_utils.rs :: MIN_CHAN_DUST_LIMIT_SATOSHIS
