// ---- frag/enforcement_spec.rs : reference semantics of the commitment counters (spec only) ----

// Assumption: fewer than 2^48 commitment updates per channel (BOLT-3 per-commitment index space);
// beyond it INITIAL_COMMITMENT_NUMBER - n underflows in the real code as well.
pub spec const COMMIT_LIMIT: u64 = 0x1_0000_0000_0000u64;

// C03 window guards, from the property: a new counterparty commitment may only move the counter by
// at most one, never to 0, and never below the revoked prefix; a revocation moves by at most one and
// stays inside [next_commit - 2, next_commit - 1].
pub open spec fn cp_commit_guard(es: EnforcementState, num: u64) -> bool {
    num >= 1
    && num >= es.next_counterparty_revoke_num + (if num == 1 { 1int } else { 2int })
    && (num == es.next_counterparty_commit_num || num == es.next_counterparty_commit_num + 1)
}
pub open spec fn cp_revoke_guard(es: EnforcementState, num: u64) -> bool {
    num >= 1
    && num + 2 >= es.next_counterparty_commit_num
    && num + 1 <= es.next_counterparty_commit_num
    && (num == es.next_counterparty_revoke_num || num == es.next_counterparty_revoke_num + 1)
}

// state transformer for "next counterparty commitment number := num"
pub open spec fn es_set_cp_commit(es: EnforcementState, num: u64, point: PublicKey, info: CommitmentInfo2) -> EnforcementState {
    let cur = es.next_counterparty_commit_num;
    let progressed = num >= cur + 1;
    let normal = num == cur + 1;
    let jumped = num > cur + 1 || num < cur;
    EnforcementState {
        next_counterparty_commit_num: num,
        previous_counterparty_point: if normal { es.current_counterparty_point } else if jumped { None } else { es.previous_counterparty_point },
        previous_counterparty_commit_info: if normal { es.current_counterparty_commit_info } else if jumped { None } else { es.previous_counterparty_commit_info },
        current_counterparty_point: if progressed { Some(point) } else { es.current_counterparty_point },
        current_counterparty_commit_info: if progressed { Some(info) } else { es.current_counterparty_commit_info },
        ..es
    }
}
pub open spec fn es_set_cp_revoke(es: EnforcementState, num: u64) -> EnforcementState {
    EnforcementState {
        next_counterparty_revoke_num: num,
        previous_counterparty_commit_info: if num + 1 >= es.next_counterparty_commit_num { None } else { es.previous_counterparty_commit_info },
        ..es
    }
}
// the per-commitment point / content the signer has on record for counterparty commitment `num`
pub open spec fn es_point_for(es: EnforcementState, num: u64) -> Option<PublicKey> {
    if num + 1 == es.next_counterparty_commit_num { es.current_counterparty_point }
    else if num + 2 == es.next_counterparty_commit_num { es.previous_counterparty_point }
    else { None }
}
pub open spec fn es_info_for(es: EnforcementState, num: u64) -> Option<CommitmentInfo2> {
    if num + 1 == es.next_counterparty_commit_num { es.current_counterparty_commit_info }
    else if num + 2 == es.next_counterparty_commit_num { es.previous_counterparty_commit_info }
    else { None }
}

pub open spec fn abs_diff(a: u64, b: u64) -> int { if a > b { a - b } else { b - a } }
pub open spec fn min_u64(a: u64, b: u64) -> u64 { if a < b { a } else { b } }

// C07: the smaller of the two latest commitments' to-holder values, if they agree within epsilon
pub open spec fn es_min_to_holder(es: EnforcementState, eps: u64) -> Option<u64> {
    match (es.current_holder_commit_info, es.current_counterparty_commit_info) {
        (Some(h), Some(c)) => {
            let hval = h.to_broadcaster_value_sat;
            let cval = c.to_countersigner_value_sat;
            if abs_diff(hval, cval) <= eps { Some(min_u64(hval, cval)) } else { None }
        },
        _ => None,
    }
}
pub open spec fn es_min_to_counterparty(es: EnforcementState, eps: u64) -> Option<u64> {
    match (es.current_holder_commit_info, es.current_counterparty_commit_info) {
        (Some(h), Some(c)) => {
            let hval = h.to_countersigner_value_sat;
            let cval = c.to_broadcaster_value_sat;
            if abs_diff(hval, cval) <= eps { Some(min_u64(hval, cval)) } else { None }
        },
        _ => None,
    }
}

pub open spec fn spec_min_opt(a: Option<u64>, b: Option<u64>) -> Option<u64> {
    match (a, b) {
        (Some(x), Some(y)) => Some(min_u64(x, y)),
        (Some(x), None) => a,
        (None, _) => b,
    }
}

// C03 window invariant: at most two unrevoked signed counterparty commitments
pub open spec fn cp_inv(es: EnforcementState) -> bool {
    (es.next_counterparty_commit_num == 0 && es.next_counterparty_revoke_num == 0)
    || (es.next_counterparty_revoke_num + 1 <= es.next_counterparty_commit_num
        && es.next_counterparty_commit_num <= es.next_counterparty_revoke_num + 2)
}

// assumption on chain data: block heights stay far below 2^32 (height + u16 delay cannot wrap)
pub open spec fn height_sane(cstate: ChainState) -> bool { cstate.current_height <= 0x7fff_ffff }
// assumption: HTLC lists are bounded by memory (no usize overflow when adding two vector lengths)
pub open spec fn htlc_lens_sane(info: CommitmentInfo2) -> bool {
    info.offered_htlcs@.len() <= 0xffff_ffff && info.received_htlcs@.len() <= 0xffff_ffff
}
