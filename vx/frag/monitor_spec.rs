// ---- frag/monitor_spec.rs : abstract view of the monitor state and the reference change algebra ----
pub struct CoAbs {
    pub txid: Txid,
    pub our_output: Option<(u32, bool)>,
    pub htlc_outputs: Seq<u32>,
    pub htlc_spents: Seq<bool>,
    pub second: Seq<(OutPoint, bool)>,
}
pub open spec fn second_abs(s: Seq<SecondLevelHTLCOutput>) -> Seq<(OutPoint, bool)> {
    s.map_values(|h: SecondLevelHTLCOutput| (h.outpoint, h.spent))
}
pub open spec fn co_abs(c: ClosingOutpoints) -> CoAbs {
    CoAbs { txid: c.txid, our_output: c.our_output, htlc_outputs: c.htlc_outputs@, htlc_spents: c.htlc_spents@,
        second: second_abs(c.second_level_htlc_outputs@) }
}
pub proof fn lemma_second_push(s: Seq<SecondLevelHTLCOutput>, h: SecondLevelHTLCOutput)
    ensures second_abs(s.push(h)) =~= second_abs(s).push((h.outpoint, h.spent))
{}

pub struct StAbs {
    pub height: u32,
    pub funding_height: Option<u32>,
    pub funding_outpoint: Option<OutPoint>,
    pub dsh: Option<u32>,                    // funding_double_spent_height
    pub mutual: Option<u32>,
    pub unilateral: Option<u32>,
    pub closing: Option<CoAbs>,
    pub closing_swept: Option<u32>,
    pub our_swept: Option<u32>,
    pub saw_block: bool,
    pub saw_forget: bool,
}
pub open spec fn st_abs(s: State) -> StAbs {
    StAbs { height: s.height, funding_height: s.funding_height, funding_outpoint: s.funding_outpoint,
        dsh: s.funding_double_spent_height, mutual: s.mutual_closing_height, unilateral: s.unilateral_closing_height,
        closing: (match s.closing_outpoints { Some(c) => Some(co_abs(c)), None => None }),
        closing_swept: s.closing_swept_height, our_swept: s.our_output_swept_height,
        saw_block: s.saw_block, saw_forget: s.saw_forget_channel }
}
// the parts of State the change algebra never touches
pub open spec fn st_frame(a: State, b: State) -> bool {
    a.funding_txids == b.funding_txids && a.funding_vouts == b.funding_vouts && a.funding_inputs == b.funding_inputs
    && a.channel_id == b.channel_id
}

pub enum ChAbs {
    FundingConfirmed(OutPoint),
    FundingInputSpent(OutPoint),
    UnilateralCloseConfirmed(Txid, OutPoint, Option<u32>, Seq<u32>),
    MutualCloseConfirmed(Txid, OutPoint),
    OurOutputSpent(u32),
    HTLCOutputSpent(u32, OutPoint),
    SecondLevelHTLCOutputSpent(OutPoint),
}
pub open spec fn ch_abs(c: StateChange) -> ChAbs {
    match c {
        StateChange::FundingConfirmed(o) => ChAbs::FundingConfirmed(o),
        StateChange::FundingInputSpent(o) => ChAbs::FundingInputSpent(o),
        StateChange::UnilateralCloseConfirmed(t, o, i, v) => ChAbs::UnilateralCloseConfirmed(t, o, i, v@),
        StateChange::MutualCloseConfirmed(t, o) => ChAbs::MutualCloseConfirmed(t, o),
        StateChange::OurOutputSpent(v) => ChAbs::OurOutputSpent(v),
        StateChange::HTLCOutputSpent(v, o) => ChAbs::HTLCOutputSpent(v, o),
        StateChange::SecondLevelHTLCOutputSpent(o) => ChAbs::SecondLevelHTLCOutputSpent(o),
    }
}

// ---- helpers over sequences ----------------------------------------------------------------
pub open spec fn first_pos(s: Seq<u32>, v: u32) -> int
    decreases s.len()
{
    if s.len() == 0 { 0 } else if s[0] == v { 0 } else { 1 + first_pos(s.drop_first(), v) }
}
pub open spec fn second_contains(s: Seq<(OutPoint, bool)>, o: OutPoint) -> bool {
    exists|i: int| 0 <= i < s.len() && (#[trigger] s[i]).0 == o
}
pub open spec fn second_first(s: Seq<(OutPoint, bool)>, o: OutPoint) -> int
    decreases s.len()
{
    if s.len() == 0 { 0 } else if s[0].0 == o { 0 } else { 1 + second_first(s.drop_first(), o) }
}
pub open spec fn second_set_spent(s: Seq<(OutPoint, bool)>, o: OutPoint, spent: bool) -> Seq<(OutPoint, bool)> {
    s.update(second_first(s, o), (o, spent))
}
pub open spec fn second_remove(s: Seq<(OutPoint, bool)>, o: OutPoint) -> Seq<(OutPoint, bool)> {
    s.filter(|p: (OutPoint, bool)| p.0 != o)
}
pub open spec fn all_true(s: Seq<bool>) -> bool { forall|i: int| 0 <= i < s.len() ==> s[i] }
pub open spec fn co_all_spent(c: CoAbs) -> bool {
    (match c.our_output { Some((_, b)) => b, None => true })
    && all_true(c.htlc_spents)
    && (forall|i: int| 0 <= i < c.second.len() ==> (#[trigger] c.second[i]).1)
}
pub open spec fn falses(n: nat) -> Seq<bool> { Seq::new(n, |i: int| false) }
pub open spec fn co_new(txid: Txid, our: Option<u32>, idx: Seq<u32>) -> CoAbs {
    CoAbs { txid, our_output: (match our { Some(i) => Some((i, false)), None => None }), htlc_outputs: idx,
        htlc_spents: falses(idx.len()), second: Seq::empty() }
}
pub open spec fn opt_outpoint(txid: Txid, our: Option<u32>) -> Seq<OutPoint> {
    match our { Some(i) => seq![OutPoint { txid, vout: i }], None => Seq::empty() }
}
pub open spec fn abs_closing_swept(a: StAbs) -> bool { match a.closing { Some(c) => co_all_spent(c), None => false } }
pub open spec fn abs_our_output_swept(a: StAbs) -> bool {
    match a.closing { Some(c) => (match c.our_output { Some((_, s)) => s, None => true }), None => false }
}
// representation invariant of ClosingOutpoints
pub open spec fn co_wf(c: CoAbs) -> bool { c.htlc_spents.len() == c.htlc_outputs.len() }

// ---- the change algebra, written from the property (each change is undone exactly) --------------
// what the block listener can emit in state `a`: spends refer to outputs that exist and are unspent on the
// current chain, confirmations to events that have not happened yet
pub open spec fn fwd_applicable(a: StAbs, c: ChAbs) -> bool {
    match c {
        ChAbs::FundingConfirmed(_) => true,
        ChAbs::FundingInputSpent(_) => true,
        ChAbs::UnilateralCloseConfirmed(_, _, _, _) => true,
        ChAbs::MutualCloseConfirmed(_, _) => true,
        ChAbs::OurOutputSpent(v) => a.closing.is_some() && a.closing->Some_0.our_output.is_some()
            && a.closing->Some_0.our_output->Some_0.0 == v,
        ChAbs::HTLCOutputSpent(v, _) => a.closing.is_some() && co_wf(a.closing->Some_0) && a.closing->Some_0.htlc_outputs.contains(v),
        ChAbs::SecondLevelHTLCOutputSpent(o) => a.closing.is_some() && second_contains(a.closing->Some_0.second, o),
    }
}
pub open spec fn fwd_abs(a: StAbs, c: ChAbs) -> StAbs {
    match c {
        ChAbs::FundingConfirmed(o) => StAbs { funding_height: Some(a.height), funding_outpoint: Some(o), dsh: None, ..a },
        ChAbs::FundingInputSpent(_) => StAbs { dsh: (if a.dsh.is_some() { a.dsh } else { Some(a.height) }), ..a },
        ChAbs::UnilateralCloseConfirmed(t, _, our, idx) => StAbs { unilateral: Some(a.height), closing: Some(co_new(t, our, idx)), ..a },
        ChAbs::MutualCloseConfirmed(_, _) => StAbs { mutual: Some(a.height), ..a },
        ChAbs::OurOutputSpent(v) => StAbs { closing: Some(CoAbs { our_output: Some((v, true)), ..a.closing->Some_0 }), ..a },
        ChAbs::HTLCOutputSpent(v, o2) => {
            let c0 = a.closing->Some_0;
            StAbs { closing: Some(CoAbs { htlc_spents: c0.htlc_spents.update(first_pos(c0.htlc_outputs, v), true),
                second: c0.second.push((o2, false)), ..c0 }), ..a }
        },
        ChAbs::SecondLevelHTLCOutputSpent(o) => {
            let c0 = a.closing->Some_0;
            StAbs { closing: Some(CoAbs { second: second_set_spent(c0.second, o, true), ..c0 }), ..a }
        },
    }
}
pub open spec fn fwd_adds(a: StAbs, c: ChAbs) -> Seq<OutPoint> {
    match c {
        ChAbs::FundingConfirmed(o) => seq![o],
        ChAbs::UnilateralCloseConfirmed(t, _, our, idx) => opt_outpoint(t, our) + idx.map_values(|i: u32| OutPoint { txid: t, vout: i }),
        ChAbs::HTLCOutputSpent(_, o2) => seq![o2],
        _ => Seq::empty(),
    }
}
pub open spec fn fwd_removes(a: StAbs, c: ChAbs) -> Seq<OutPoint> {
    match c {
        ChAbs::FundingConfirmed(_) => Seq::empty(),
        ChAbs::FundingInputSpent(o) => seq![o],
        ChAbs::UnilateralCloseConfirmed(_, f, _, _) => seq![f],
        ChAbs::MutualCloseConfirmed(_, f) => seq![f],
        ChAbs::OurOutputSpent(v) => seq![OutPoint { txid: a.closing->Some_0.txid, vout: v }],
        ChAbs::HTLCOutputSpent(v, _) => seq![OutPoint { txid: a.closing->Some_0.txid, vout: v }],
        ChAbs::SecondLevelHTLCOutputSpent(o) => seq![o],
    }
}
// applicability of an undo: the state must be one the forward application can have produced at this height
pub open spec fn bwd_applicable(a: StAbs, c: ChAbs) -> bool {
    match c {
        ChAbs::FundingConfirmed(_) => a.funding_height == Some(a.height),
        ChAbs::FundingInputSpent(_) => true,
        ChAbs::UnilateralCloseConfirmed(_, _, _, _) => a.unilateral == Some(a.height),
        ChAbs::MutualCloseConfirmed(_, _) => true,
        ChAbs::OurOutputSpent(v) => a.closing.is_some() && a.closing->Some_0.our_output.is_some()
            && a.closing->Some_0.our_output->Some_0.0 == v,
        ChAbs::HTLCOutputSpent(v, _) => a.closing.is_some() && co_wf(a.closing->Some_0) && a.closing->Some_0.htlc_outputs.contains(v),
        ChAbs::SecondLevelHTLCOutputSpent(o) => a.closing.is_some() && second_contains(a.closing->Some_0.second, o),
    }
}
pub open spec fn bwd_abs(a: StAbs, c: ChAbs) -> StAbs {
    match c {
        ChAbs::FundingConfirmed(_) => StAbs { funding_height: None, funding_outpoint: None, ..a },
        ChAbs::FundingInputSpent(_) => StAbs { dsh: (if a.dsh == Some(a.height) { None } else { a.dsh }), ..a },
        ChAbs::UnilateralCloseConfirmed(_, _, _, _) => StAbs { unilateral: None, closing: None, ..a },
        ChAbs::MutualCloseConfirmed(_, _) => StAbs { mutual: None, ..a },
        ChAbs::OurOutputSpent(v) => StAbs { closing: Some(CoAbs { our_output: Some((v, false)), ..a.closing->Some_0 }), ..a },
        ChAbs::HTLCOutputSpent(v, o2) => {
            let c0 = a.closing->Some_0;
            StAbs { closing: Some(CoAbs { htlc_spents: c0.htlc_spents.update(first_pos(c0.htlc_outputs, v), false),
                second: second_remove(c0.second, o2), ..c0 }), ..a }
        },
        ChAbs::SecondLevelHTLCOutputSpent(o) => {
            let c0 = a.closing->Some_0;
            StAbs { closing: Some(CoAbs { second: second_set_spent(c0.second, o, false), ..c0 }), ..a }
        },
    }
}

// ---- block level ----------------------------------------------------------------------------
pub open spec fn chs_abs(cs: Seq<StateChange>) -> Seq<ChAbs> { cs.map_values(|c: StateChange| ch_abs(c)) }
pub proof fn lemma_chs_abs_reverse(cs: Seq<StateChange>)
    ensures chs_abs(cs.reverse()) =~= chs_abs(cs).reverse()
{}
pub open spec fn fold_fwd(a: StAbs, cs: Seq<ChAbs>) -> StAbs
    decreases cs.len()
{
    if cs.len() == 0 { a } else { fold_fwd(fwd_abs(a, cs[0]), cs.drop_first()) }
}
pub open spec fn fold_bwd(a: StAbs, cs: Seq<ChAbs>) -> StAbs
    decreases cs.len()
{
    if cs.len() == 0 { a } else { fold_bwd(bwd_abs(a, cs[0]), cs.drop_first()) }
}
pub open spec fn fwd_chain_ok(a: StAbs, cs: Seq<ChAbs>) -> bool
    decreases cs.len()
{
    cs.len() == 0 || (fwd_applicable(a, cs[0]) && fwd_chain_ok(fwd_abs(a, cs[0]), cs.drop_first()))
}
pub open spec fn bwd_chain_ok(a: StAbs, cs: Seq<ChAbs>) -> bool
    decreases cs.len()
{
    cs.len() == 0 || (bwd_applicable(a, cs[0]) && bwd_chain_ok(bwd_abs(a, cs[0]), cs.drop_first()))
}
// connecting a block with change list cs
pub open spec fn add_block_abs(a: StAbs, cs: Seq<ChAbs>) -> StAbs {
    let a1 = StAbs { saw_block: true, height: (a.height + 1) as u32, ..a };
    let a2 = fold_fwd(a1, cs);
    let a3 = if !abs_closing_swept(a1) && abs_closing_swept(a2) { StAbs { closing_swept: Some(a2.height), ..a2 } } else { a2 };
    if !abs_our_output_swept(a1) && abs_our_output_swept(a2) { StAbs { our_swept: Some(a2.height), ..a3 } } else { a3 }
}
// disconnecting the block with change list cs: the changes are undone in reverse order
pub open spec fn remove_block_abs(a: StAbs, cs: Seq<ChAbs>) -> StAbs {
    let a2 = fold_bwd(a, cs.reverse());
    let a3 = if abs_closing_swept(a) && !abs_closing_swept(a2) { StAbs { closing_swept: None, ..a2 } } else { a2 };
    let a4 = if abs_our_output_swept(a) && !abs_our_output_swept(a2) { StAbs { our_swept: None, ..a3 } } else { a3 };
    StAbs { height: (a4.height - 1) as u32, ..a4 }
}
