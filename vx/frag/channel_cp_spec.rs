// ---- frag/channel_cp_spec.rs : counterparty side reference predicates (spec only) ----
pub open spec fn cp_strict() -> bool {
    vx_strict(T_policy_commitment_previous_revoked) && vx_strict(T_policy_other)
}
// LDK CommitmentTransaction::new_with_auxiliary_htlc_data for the counterparty side
pub uninterp spec fn cp_ctx_spec(ckeys: InMemorySigner, setup: ChannelSetup, point: PublicKey, n: u64, feerate: u32,
    to_holder: u64, to_cp: u64, htlcs: Seq<HTLCOutputInCommitment>) -> CommitmentTransaction;
