"""Kani route (thorough tier only): runs the registered harnesses of a property on the compiled real code."""
import json
import os
import re
import shutil
import subprocess
import time

VX = os.path.dirname(os.path.abspath(__file__))
VERIF = os.path.dirname(VX)
REPO = os.environ.get("VLS_REPO", "/repo")
KANI_DIR = os.path.join(VERIF, "kani")


def _run(cmd, cwd, timeout):
    env = dict(os.environ)
    env["CARGO_NET_OFFLINE"] = "true"
    t0 = time.time()
    try:
        p = subprocess.run(cmd, cwd=cwd, env=env, stdout=subprocess.PIPE, stderr=subprocess.STDOUT, timeout=timeout)
        out = p.stdout.decode(errors="replace")
        rc = p.returncode
    except subprocess.TimeoutExpired as e:
        out = (e.stdout or b"").decode(errors="replace") + "\nTIMEOUT"
        rc = 124
    return rc, out, time.time() - t0


def run_for(prop, tier):
    if tier != "thorough":
        return None
    reg = json.load(open(os.path.join(VX, "kani_harnesses.json")))["harnesses"]
    mine = [h for h in reg if prop in h["props"]]
    if not mine:
        return None
    res = {"harnesses": [], "cmds": [], "trusted": [], "violations": [], "undecided": None}
    groups = {}
    for h in mine:
        groups.setdefault(h["where"], []).append(h)
    for where, hs in groups.items():
        if where == "crate":
            cwd = KANI_DIR
            try:
                shutil.copy(os.path.join(REPO, "Cargo.lock"), os.path.join(KANI_DIR, "Cargo.lock"))
            except Exception:
                pass
            cmd = ["cargo", "kani"]
            tgt = os.path.join(KANI_DIR, "target")
        else:
            cwd = os.path.join(REPO, "vls-core")
            cmd = ["cargo", "kani", "--no-default-features", "--features", "std", "-Z", "stubbing"]
            tgt = os.path.join(KANI_DIR, "target-inline")
            if os.path.realpath(REPO) != "/repo":
                # a scratch copy of the tree must never share build output with /repo: Kani's artefacts are keyed by crate
                # name, so a later run on the unchanged tree could pick up the goto binaries of the modified copy
                tgt = os.path.join(os.environ.get("VX_OUT") or os.path.join(REPO, ".."), "kani-target-inline")
        for h in hs:
            cmd += ["--harness", h["name"]]
        os.environ["CARGO_TARGET_DIR"] = tgt
        rc, out, secs = _run(cmd, cwd, 2400)
        res["cmds"].append("(cd %s && CARGO_TARGET_DIR=%s %s)" % (cwd, tgt, " ".join(cmd)))
        if "Checking harness" not in out:
            res["undecided"] = "kani did not run (%s): %s" % (where, out[-400:])
            continue
        # per harness verdicts
        blocks = re.split(r"Checking harness ", out)[1:]
        seen = {}
        for b in blocks:
            name = b.split("...")[0].split("::")[-1].strip()
            ok = "VERIFICATION:- SUCCESSFUL" in b
            m = re.search(r"Verification Time: ([0-9.]+)s", b)
            seen[name] = (ok, float(m.group(1)) if m else 0.0, b)
        for h in hs:
            if h["name"] not in seen:
                res["undecided"] = "harness %s not run" % h["name"]
                continue
            ok, t, b = seen[h["name"]]
            res["harnesses"].append({"name": h["name"], "class": h["class"], "bound": h.get("bound"), "ok": ok, "secs": t,
                                     "what": h["what"], "backend": "kani/cbmc"})
            if not ok:
                failed = re.findall(r"Failed Checks: (.*)", b)
                # a harness is a violation only when CBMC reports a failed property check; running out of memory / time,
                # a crashed back end or an unwinding bound that is too small are machinery limits: undecided, never an alarm
                resource = ("CBMC failed" in b or "out of memory" in b or "CBMC timed out" in b or "Killed" in b
                            or not failed or all("unwinding assertion" in f for f in failed))
                if resource:
                    res["harnesses"][-1]["ok"] = None
                    res["harnesses"][-1]["note"] = "not decided (back end resource limit or no failed property check reported)"
                    if h["class"] == "complete":
                        res["undecided"] = "harness %s not decided: %s" % (h["name"], (b[-300:]).replace("\n", " "))
                    continue
                # ask Kani for the concrete failing input (byte vectors of every kani::any()) and keep it in the replay file
                cx = None
                try:
                    cmd2 = [c for c in cmd if not c.startswith("--harness") and c not in [x["name"] for x in hs]]
                    cmd2 = cmd2[:2] + ["-Z", "concrete-playback", "--concrete-playback=print"] + cmd2[2:] + ["--harness", h["name"]]
                    rc2, out2, _ = _run(cmd2, cwd, 1200)
                    m2 = re.search(r"Concrete playback unit test for .*?```(.*?)```", out2, re.S)
                    if m2:
                        cx = {"kind": "kani concrete playback (Rust unit test calling the harness with these bytes)",
                              "harness": h["name"], "test": m2.group(1).strip()[:4000],
                              "replay": "paste into the harness crate and run `cargo kani playback -Z concrete-playback`"}
                        # replay the bytes natively against the normally compiled real code (harnesses of the crate only)
                        vecs = re.findall(r"vec!\[([0-9,\s]*)\]", m2.group(1))
                        vecs = [v for v in vecs if v.strip()]
                        if where == "crate" and vecs:
                            os.environ["CARGO_TARGET_DIR"] = os.path.join(KANI_DIR, "target-native")
                            rcb, outb, _ = _run(["cargo", "build", "--offline", "--bin", "replay"], KANI_DIR, 1800)
                            exe = os.path.join(KANI_DIR, "target-native", "debug", "replay")
                            if rcb == 0 and os.path.exists(exe):
                                rcr, outr, _ = _run([exe, h["name"]] + [re.sub(r"\s+", "", v) for v in vecs], KANI_DIR, 120)
                                cx["replayed_on_real_code"] = (rcr == 1)
                                cx["replay_output"] = outr[-800:]
                                cx["replay_cmd"] = "%s %s %s" % (exe, h["name"], " ".join(re.sub(r"\s+", "", v) for v in vecs))
                except Exception:
                    cx = None
                res["violations"].append({"id": "kani:%s" % h["name"], "message": "; ".join(failed)[:500], "rendered": b[-1500:],
                                          "tags": [], "fn": None, "real": h["name"], "lines": [],
                                          "counterexample": cx})
    return res
