"""Kani route (thorough tier). Filled in later."""
