// ---- prelude/sv_deps.rs : what SimpleValidator uses beyond deps.rs (TCB) ----
verus! {
#[verifier::external_body]
pub struct VxPolicyFilter { _p: u8 }       // policy::filter::PolicyFilter (string prefix rules), see vx_strict
impl Clone for VxPolicyFilter { #[verifier::external_body] fn clone(&self) -> (r: Self) ensures r == *self { unimplemented!() } }
#[verifier::external_body]
pub struct VxAddedIter { _p: u8 }          // AddedItemsIter (only used for debug output)

impl ValidationError {
    #[verifier::external_body]
    pub fn prepend_msg<M>(self, premsg: M) -> (r: ValidationError) ensures ve_unknown_dest(r) == ve_unknown_dest(self) { unimplemented!() }
}
impl VxSecp {
    #[verifier::external_body]
    pub fn signing_only() -> VxSecp { unimplemented!() }
    #[verifier::external_body]
    pub fn new() -> VxSecp { unimplemented!() }
}

// lightning::ln::chan_utils weights: positive constants per feature set
pub uninterp spec fn spec_htlc_timeout_tx_weight(f: ChannelTypeFeatures) -> u64;
pub uninterp spec fn spec_htlc_success_tx_weight(f: ChannelTypeFeatures) -> u64;
#[verifier::external_body]
pub fn htlc_timeout_tx_weight(f: &ChannelTypeFeatures) -> (r: u64)
    ensures r == spec_htlc_timeout_tx_weight(*f), 0 < r <= 1000
{ unimplemented!() }
#[verifier::external_body]
pub fn htlc_success_tx_weight(f: &ChannelTypeFeatures) -> (r: u64)
    ensures r == spec_htlc_success_tx_weight(*f), 0 < r <= 1000
{ unimplemented!() }

// validate_delay builds its tag with format!("policy-channel-contest-delay-range-{}", name)
pub uninterp spec fn delay_tag(name: Seq<char>) -> u64;
#[verifier::external_body]
pub fn vx_delay_tag(name: &str) -> (r: u64) ensures r == delay_tag(name@) { unimplemented!() }
} // verus!
