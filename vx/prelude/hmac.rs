// ---- prelude/hmac.rs : bitcoin_hashes HMAC-SHA256 engine as a ghost byte accumulator (TCB) ----
verus! {
pub uninterp spec fn hmac_sha256(key: Seq<u8>, msg: Seq<u8>) -> Seq<u8>;

#[verifier::external_body]
pub struct HmacEngine { _p: u8 }
impl HmacEngine {
    pub uninterp spec fn key(&self) -> Seq<u8>;
    pub uninterp spec fn msg(&self) -> Seq<u8>;
    #[verifier::external_body]
    pub fn new(key: &[u8]) -> (r: HmacEngine) ensures r.key() == key@, r.msg() == Seq::<u8>::empty() { unimplemented!() }
    #[verifier::external_body]
    pub fn input(&mut self, data: &[u8])
        ensures final(self).key() == old(self).key(), final(self).msg() == old(self).msg() + data@
    { unimplemented!() }
}
#[verifier::external_body]
pub struct Hmac { _p: u8 }
impl Hmac {
    pub uninterp spec fn view(&self) -> Seq<u8>;
    #[verifier::external_body]
    pub fn from_engine(e: HmacEngine) -> (r: Hmac) ensures r@ == hmac_sha256(e.key(), e.msg()) { unimplemented!() }
    #[verifier::external_body]
    pub fn to_byte_array(self) -> (r: [u8; 32]) ensures r@ == self@ { unimplemented!() }
}

// big-endian encoding of a 64-bit version
pub open spec fn be8(v: u64) -> Seq<u8> {
    seq![(v >> 56) as u8, (v >> 48) as u8, (v >> 40) as u8, (v >> 32) as u8, (v >> 24) as u8, (v >> 16) as u8, (v >> 8) as u8, v as u8]
}
#[verifier::external_body]
pub fn vx_be8_u64(v: u64) -> (r: [u8; 8]) ensures r@ == be8(v) { v.to_be_bytes() }
#[verifier::external_body]
pub fn vx_be8_i64(v: i64) -> (r: [u8; 8]) ensures r@ == be8(v as u64) { v.to_be_bytes() }

// UTF-8 bytes of a string key
pub uninterp spec fn str_bytes(s: Seq<char>) -> Seq<u8>;
#[verifier::external_body]
pub fn vx_str_bytes(s: &str) -> (r: &[u8]) ensures r@ == str_bytes(s@) { s.as_bytes() }
} // verus!
