// ---- prelude/channel_deps.rs : what Channel uses from LDK / secp256k1 / Node (TCB, R5 R6 R10 R11) ----
verus! {

// ---- secp256k1 ---------------------------------------------------------------------
#[verifier::external_body]
pub struct VxSecp { _p: u8 }
impl Clone for VxSecp { #[verifier::external_body] fn clone(&self) -> (r: Self) ensures r == *self { unimplemented!() } }
#[verifier::external_body]
pub struct SecpError { _p: u8 }

pub uninterp spec fn ecdsa_valid(msg: Message, sig: Signature, pk: PublicKey) -> bool;
pub uninterp spec fn pk_of(sk: SecretKey) -> PublicKey;
pub uninterp spec fn sk_of_bytes(b: Seq<u8>) -> SecretKey;
pub uninterp spec fn sk_bytes(sk: SecretKey) -> [u8; 32];

impl VxSecp {
    // plain and low-R-grinding ECDSA: a signature by `sk` over exactly `msg` (the grinding only changes the nonce)
    #[verifier::external_body]
    pub fn sign_ecdsa(&self, msg: &Message, sk: &SecretKey) -> (r: Signature) ensures r == ecdsa_sign(*msg, *sk) { unimplemented!() }
    #[verifier::external_body]
    pub fn sign_ecdsa_low_r(&self, msg: &Message, sk: &SecretKey) -> (r: Signature) ensures r == ecdsa_sign(*msg, *sk) { unimplemented!() }
    #[verifier::external_body]
    pub fn verify_ecdsa(&self, msg: &Message, sig: &Signature, pk: &PublicKey) -> (r: Result<(), SecpError>)
        ensures r.is_ok() == ecdsa_valid(*msg, *sig, *pk)
    { unimplemented!() }
}
impl SecretKey {
    #[verifier::external_body]
    pub fn from_slice(data: &[u8]) -> (r: Result<SecretKey, SecpError>)
        ensures r.is_ok() ==> r->Ok_0 == sk_of_bytes(data@)
    { unimplemented!() }
    #[verifier::external_body]
    pub fn secret_bytes(&self) -> (r: [u8; 32])
        ensures sk_of_bytes(r@) == *self, r == sk_bytes(*self)
    { unimplemented!() }
}
impl PublicKey {
    #[verifier::external_body]
    pub fn from_secret_key<C>(secp: &C, sk: &SecretKey) -> (r: PublicKey)
        ensures r == pk_of(*sk)
    { unimplemented!() }
}

// ---- LDK InMemorySigner ---------------------------------------------------------------
#[verifier::external_body]
pub struct InMemorySigner { _p: u8 }
impl Clone for InMemorySigner { #[verifier::external_body] fn clone(&self) -> (r: Self) ensures r == *self { unimplemented!() } }

// per-commitment secret / point of these channel keys at (backwards counting) index idx
pub uninterp spec fn ldk_commitment_secret(keys: InMemorySigner, idx: u64) -> Seq<u8>;
pub uninterp spec fn ldk_commitment_point(keys: InMemorySigner, idx: u64) -> PublicKey;
pub uninterp spec fn ldk_sign_holder_commitment(keys: InMemorySigner, tx: HolderCommitmentTransaction) -> Signature;
pub uninterp spec fn ldk_sign_closing(keys: InMemorySigner, tx: ClosingTransaction) -> Signature;
pub uninterp spec fn ldk_sign_cp_commitment(keys: InMemorySigner, tx: CommitmentTransaction) -> (Signature, Seq<Signature>);

pub uninterp spec fn ldk_pubkeys(keys: InMemorySigner) -> ChannelPublicKeys;
pub uninterp spec fn ldk_counterparty_pubkeys(keys: InMemorySigner) -> Option<ChannelPublicKeys>;
pub uninterp spec fn ldk_funding_key(keys: InMemorySigner) -> SecretKey;
impl InMemorySigner {
    // the pub field `funding_key`
    #[verifier::external_body]
    pub fn vx_funding_key(&self) -> (r: &SecretKey) ensures *r == ldk_funding_key(*self) { unimplemented!() }
    #[verifier::external_body]
    pub fn pubkeys(&self) -> (r: &ChannelPublicKeys) ensures *r == ldk_pubkeys(*self) { unimplemented!() }
    #[verifier::external_body]
    pub fn counterparty_pubkeys(&self) -> (r: Option<&ChannelPublicKeys>)
        ensures r.is_some() == ldk_counterparty_pubkeys(*self).is_some(),
                r.is_some() ==> *(r->Some_0) == ldk_counterparty_pubkeys(*self)->Some_0
    { unimplemented!() }
    #[verifier::external_body]
    pub fn release_commitment_secret(&self, idx: u64) -> (r: Result<[u8; 32], ()>)
        ensures r.is_ok() ==> (r->Ok_0)@ == ldk_commitment_secret(*self, idx)
    { unimplemented!() }
    #[verifier::external_body]
    pub fn get_per_commitment_point(&self, idx: u64, secp: &VxSecp) -> (r: Result<PublicKey, ()>)
        ensures r.is_ok() ==> r->Ok_0 == ldk_commitment_point(*self, idx)
    { unimplemented!() }
    #[verifier::external_body]
    pub fn sign_holder_commitment(&self, tx: &HolderCommitmentTransaction, secp: &VxSecp) -> (r: Result<Signature, ()>)
        ensures r.is_ok() ==> r->Ok_0 == ldk_sign_holder_commitment(*self, *tx)
    { unimplemented!() }
    #[verifier::external_body]
    pub fn sign_closing_transaction(&self, tx: &ClosingTransaction, secp: &VxSecp) -> (r: Result<Signature, ()>)
        ensures r.is_ok() ==> r->Ok_0 == ldk_sign_closing(*self, *tx)
    { unimplemented!() }
    #[verifier::external_body]
    pub fn sign_counterparty_commitment(&self, tx: &CommitmentTransaction, a: Vec<VxPreimage>, b: Vec<VxPreimage>, secp: &VxSecp)
        -> (r: Result<(Signature, Vec<Signature>), ()>)
        ensures r.is_ok() ==> (r->Ok_0.0, r->Ok_0.1@) == ldk_sign_cp_commitment(*self, *tx)
    { unimplemented!() }
}
#[verifier::external_body]
pub struct VxPreimage { _p: u8 }

// ---- catch_panic! (R14) ---------------------------------------------------------------
#[verifier::external_body]
pub fn vx_catch_panic<T>(v: T) -> (r: Result<T, Status>)
    ensures r.is_ok() ==> r->Ok_0 == v
{ unimplemented!() }

impl Status {
    #[verifier::external_body]
    pub fn internal<B>(msg: B) -> Status { unimplemented!() }
    #[verifier::external_body]
    pub fn invalid_argument<B>(msg: B) -> Status { unimplemented!() }
}

// ---- Node and its state behind the lock (R6, R11) ---------------------------------------
#[verifier::external_body]
pub struct VxNodeRef { _p: u8 }          // Weak<Node>
impl Clone for VxNodeRef { #[verifier::external_body] fn clone(&self) -> (r: Self) ensures r == *self { unimplemented!() } }
#[verifier::external_body]
pub struct VxNode { _p: u8 }             // Arc<Node>
#[verifier::external_body]
pub struct VxNodeState { _p: u8 }        // MutexGuard<NodeState>
#[verifier::external_body]
pub struct VxPayMap { _p: u8 }           // Map<PaymentHash, u64>

pub trait PreimageMap {
    fn has_preimage(&self, hash: &PaymentHash) -> bool;
}
impl PreimageMap for VxNodeState {
    #[verifier::external_body]
    fn has_preimage(&self, hash: &PaymentHash) -> bool { unimplemented!() }
}
impl VxNode {
    #[verifier::external_body]
    pub fn get_state(&self) -> VxNodeState { unimplemented!() }
}
impl VxNodeState {
    // NodeState::validate_payments / apply_payments: node-level payment bookkeeping (C06), not
    // under contract here; they cannot touch the channel (it is not passed).  What the Channel units do carry is the
    // data flow (C06): `node_validated` / `node_applied` are uninterpreted call markers - the only way to establish
    // them is to call validate_payments (and get Ok) / apply_payments with exactly these arguments.  Unit node_payments
    // proves what an accepted validate_payments guarantees about the node's ledger.
    #[verifier::external_body]
    pub fn validate_payments(&self, channel_id: &ChannelId, incoming: &VxPayMap, outgoing: &VxPayMap,
        delta: &BalanceDelta, validator: VxValidator) -> (r: Result<(), ValidationError>)
        ensures r.is_ok() ==> node_validated(*channel_id, *incoming, *outgoing)
    { unimplemented!() }
    #[verifier::external_body]
    pub fn apply_payments(&mut self, channel_id: &ChannelId, incoming: &VxPayMap, outgoing: &VxPayMap,
        delta: &BalanceDelta, validator: VxValidator, info: Option<&CommitmentInfo2>)
        ensures node_applied(*channel_id, *incoming, *outgoing, vx_opt_val(info))
    { unimplemented!() }
}
// validator_factory.make_validator(network, node id, Some(channel id0)): one validator per channel
pub uninterp spec fn chan_validator_of(id0: ChannelId) -> VxValidator;
pub uninterp spec fn node_validated(id: ChannelId, incoming: VxPayMap, outgoing: VxPayMap) -> bool;
pub uninterp spec fn node_applied(id: ChannelId, incoming: VxPayMap, outgoing: VxPayMap, info: Option<CommitmentInfo2>) -> bool;
pub open spec fn vx_opt_val<T>(o: Option<&T>) -> Option<T> { match o { Some(x) => Some(*x), None => None } }
// EnforcementState::incoming_payments_summary / payments_summary (proved against their definition in unit pay_summary):
// here only "a function of the state and the two optional new infos"
pub uninterp spec fn pay_in_spec(es: EnforcementState, new_holder: Option<CommitmentInfo2>, new_cp: Option<CommitmentInfo2>) -> VxPayMap;
pub uninterp spec fn pay_out_spec(es: EnforcementState, new_holder: Option<CommitmentInfo2>, new_cp: Option<CommitmentInfo2>) -> VxPayMap;

#[verifier::external_body]
pub struct ChainMonitorBase { _p: u8 }
impl Clone for ChainMonitorBase { #[verifier::external_body] fn clone(&self) -> (r: Self) ensures r == *self { unimplemented!() } }

// Arc<dyn Validator> (R6): one opaque carrier; its methods are declared in the unit with the
// contracts proved on SimpleValidator / the Validator trait defaults
#[verifier::external_body]
pub struct VxValidator { _p: u8 }
impl Clone for VxValidator { #[verifier::external_body] fn clone(&self) -> (r: Self) ensures r == *self { unimplemented!() } }

} // verus!
