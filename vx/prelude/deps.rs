// ---- prelude/deps.rs : opaque dependency types and assumed contracts (TCB, rewrite R5/R3) ----
verus! {

// secp256k1 / bitcoin values: opaque, structural equality, copyable as in the real crates
#[verifier::external_body]
pub struct PublicKey { _p: [u8; 33] }
impl Clone for PublicKey { #[verifier::external_body] fn clone(&self) -> (r: Self) ensures r == *self { unimplemented!() } }
impl Copy for PublicKey {}
impl PartialEq for PublicKey { #[verifier::external_body] fn eq(&self, other: &Self) -> (r: bool) { unimplemented!() } }
impl Eq for PublicKey {}
impl vstd::std_specs::cmp::PartialEqSpecImpl for PublicKey {
    open spec fn obeys_eq_spec() -> bool { true }
    open spec fn eq_spec(&self, other: &Self) -> bool { *self == *other }
}

#[verifier::external_body]
pub struct SecretKey { _p: [u8; 32] }
impl Clone for SecretKey { #[verifier::external_body] fn clone(&self) -> (r: Self) ensures r == *self { unimplemented!() } }
impl Copy for SecretKey {}
impl PartialEq for SecretKey { #[verifier::external_body] fn eq(&self, other: &Self) -> (r: bool) { unimplemented!() } }
impl Eq for SecretKey {}
impl vstd::std_specs::cmp::PartialEqSpecImpl for SecretKey {
    open spec fn obeys_eq_spec() -> bool { true }
    open spec fn eq_spec(&self, other: &Self) -> bool { *self == *other }
}

#[verifier::external_body]
pub struct Signature { _p: [u8; 64] }
impl Clone for Signature { #[verifier::external_body] fn clone(&self) -> (r: Self) ensures r == *self { unimplemented!() } }
impl Copy for Signature {}
impl PartialEq for Signature { #[verifier::external_body] fn eq(&self, other: &Self) -> (r: bool) { unimplemented!() } }
impl Eq for Signature {}
impl vstd::std_specs::cmp::PartialEqSpecImpl for Signature {
    open spec fn obeys_eq_spec() -> bool { true }
    open spec fn eq_spec(&self, other: &Self) -> bool { *self == *other }
}

// lightning::types::payment::PaymentHash is `pub struct PaymentHash(pub [u8; 32])`
pub struct PaymentHash(pub [u8; 32]);
impl Clone for PaymentHash { #[verifier::external_body] fn clone(&self) -> (r: Self) ensures r == *self { unimplemented!() } }
impl Copy for PaymentHash {}
impl PartialEq for PaymentHash { #[verifier::external_body] fn eq(&self, other: &Self) -> (r: bool) { unimplemented!() } }
impl Eq for PaymentHash {}
impl vstd::std_specs::cmp::PartialEqSpecImpl for PaymentHash {
    open spec fn obeys_eq_spec() -> bool { true }
    open spec fn eq_spec(&self, other: &Self) -> bool { *self == *other }
}

// errors: opaque
#[verifier::external_body]
pub struct ValidationError { _p: u8 }
#[verifier::external_body]
pub struct Status { _p: u8 }
impl core::convert::From<ValidationError> for Status {
    #[verifier::external_body]
    fn from(ve: ValidationError) -> Status { unimplemented!() }
}

// ---- policy filter (R3) ------------------------------------------------------------
// vx_strict(tag): the channel's PolicyFilter reports FilterResult::Error for `tag`.
// policy_err!(obj, tag, ..) expands to obj.policy().policy_error(tag, msg)? which is
// policy_error_with_filter: Err iff filter.filter(tag) == Error.
pub uninterp spec fn vx_strict(tag: u64) -> bool;
// ValidationErrorKind::UnknownDestinations: the one refusal an approver may override (policy/error.rs: only
// unknown_destinations_error builds it)
pub uninterp spec fn ve_unknown_dest(e: ValidationError) -> bool;

#[verifier::external_body]
pub fn vx_policy_err<T>(obj: &T, tag: u64) -> (r: Result<(), ValidationError>)
    ensures r.is_err() == vx_strict(tag), r.is_err() ==> !ve_unknown_dest(r->Err_0)
{ unimplemented!() }

#[verifier::external_body]
pub fn vx_temporary_policy_err<T>(obj: &T, tag: u64) -> (r: Result<(), ValidationError>)
    ensures r.is_err() == vx_strict(tag), r.is_err() ==> !ve_unknown_dest(r->Err_0)
{ unimplemented!() }

#[verifier::external_body]
pub fn vx_transaction_format_error() -> (r: ValidationError) ensures !ve_unknown_dest(r) { unimplemented!() }

#[verifier::external_body]
pub fn policy_error<A, B>(tag: A, msg: B) -> (r: ValidationError) ensures !ve_unknown_dest(r) { unimplemented!() }
#[verifier::external_body]
pub fn transaction_format_error<B>(msg: B) -> (r: ValidationError) ensures !ve_unknown_dest(r) { unimplemented!() }
#[verifier::external_body]
pub fn script_format_error<B>(msg: B) -> (r: ValidationError) ensures !ve_unknown_dest(r) { unimplemented!() }
#[verifier::external_body]
pub fn mismatch_error<B>(msg: B) -> (r: ValidationError) ensures !ve_unknown_dest(r) { unimplemented!() }
#[verifier::external_body]
pub fn invalid_argument<B>(msg: B) -> Status { unimplemented!() }
#[verifier::external_body]
pub fn internal_error<B>(msg: B) -> Status { unimplemented!() }
#[verifier::external_body]
pub fn failed_precondition<B>(msg: B) -> Status { unimplemented!() }

} // verus!
