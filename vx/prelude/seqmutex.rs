// ---- prelude/seqmutex.rs : std::sync::Mutex under the sequential (exclusive access) model (R11b) ----
// A `&self` method that locks a mutex is verified as if it had `&mut self` and the mutex were a plain cell:
// exactly the guarantee the lock gives to one request at a time.  Poisoning and concurrent interleavings
// (property C20) are outside this model.
verus! {
pub struct VxSeqMutex<T> { pub val: T }
pub struct VxLockRes<'a, T>(pub &'a mut T);
impl<T> VxSeqMutex<T> {
    pub fn new(v: T) -> (r: Self) ensures r.val == v { VxSeqMutex { val: v } }
    pub fn lock(&mut self) -> (g: VxLockRes<'_, T>)
        ensures *g.0 == old(self).val, *final(g.0) == final(self).val
    { VxLockRes(&mut self.val) }
}
impl<'a, T> VxLockRes<'a, T> {
    pub fn vx_expect(self) -> (r: &'a mut T)
        ensures *r == *old(self.0), *final(r) == *final(self.0)
    { self.0 }
}

// alloc::collections::BTreeMap<String, (u64, Vec<u8>)> as a finite map keyed by the string's characters (TCB)
#[verifier::external_body]
pub struct VxStrMap { _p: u8 }
impl VxStrMap {
    pub uninterp spec fn view(&self) -> Map<Seq<char>, (u64, Vec<u8>)>;
    #[verifier::external_body]
    pub fn new() -> (r: VxStrMap) ensures r@ == Map::<Seq<char>, (u64, Vec<u8>)>::empty() { unimplemented!() }
    #[verifier::external_body]
    pub fn get(&self, key: &str) -> (r: Option<&(u64, Vec<u8>)>)
        ensures r.is_some() == self@.dom().contains(key@), r.is_some() ==> *(r->Some_0) == self@[key@]
    { unimplemented!() }
    #[verifier::external_body]
    pub fn insert(&mut self, key: String, v: (u64, Vec<u8>)) -> (r: Option<(u64, Vec<u8>)>)
        ensures final(self)@ == old(self)@.insert(key@, v)
    { unimplemented!() }
    #[verifier::external_body]
    pub fn contains_key(&self, key: &str) -> (r: bool) ensures r == self@.dom().contains(key@) { unimplemented!() }
    #[verifier::external_body]
    pub fn clear(&mut self) ensures final(self)@ == Map::<Seq<char>, (u64, Vec<u8>)>::empty() { unimplemented!() }
    #[verifier::external_body]
    pub fn len(&self) -> (r: usize) ensures r == self@.dom().len(), self@.dom().finite() { unimplemented!() }
    #[verifier::external_body]
    pub fn is_empty(&self) -> (r: bool) ensures r == (self@.dom().len() == 0 && self@.dom().finite()) { unimplemented!() }
}
#[verifier::external_body]
pub fn vx_to_string(s: &str) -> (r: String) ensures r@ == s@ { s.to_string() }
} // verus!
