// ---- prelude/chain.rs : bitcoin block headers, txoo proofs, listeners (TCB for the tracker unit) ----
verus! {

#[verifier::external_body]
pub struct CompactTarget { _p: u32 }
impl Clone for CompactTarget { #[verifier::external_body] fn clone(&self) -> (r: Self) ensures r == *self { unimplemented!() } }
impl Copy for CompactTarget {}
impl PartialEq for CompactTarget { #[verifier::external_body] fn eq(&self, other: &Self) -> (r: bool) { unimplemented!() } }
impl vstd::std_specs::cmp::PartialEqSpecImpl for CompactTarget {
    open spec fn obeys_eq_spec() -> bool { true }
    open spec fn eq_spec(&self, other: &Self) -> bool { *self == *other }
}
#[verifier::external_body]
pub struct Target { _p: u8 }
impl Clone for Target { #[verifier::external_body] fn clone(&self) -> (r: Self) ensures r == *self { unimplemented!() } }
impl Copy for Target {}
impl PartialEq for Target { #[verifier::external_body] fn eq(&self, other: &Self) -> (r: bool) { unimplemented!() } }
impl vstd::std_specs::cmp::PartialEqSpecImpl for Target {
    open spec fn obeys_eq_spec() -> bool { true }
    open spec fn eq_spec(&self, other: &Self) -> bool { *self == *other }
}

// bitcoin::block::Header: all fields pub
#[verifier::external_body]
pub struct VxHeaderRest { _p: u8 }     // version, merkle_root, nonce
impl Clone for VxHeaderRest { #[verifier::external_body] fn clone(&self) -> (r: Self) ensures r == *self { unimplemented!() } }
impl Copy for VxHeaderRest {}
pub struct BlockHeader { pub prev_blockhash: BlockHash, pub time: u32, pub bits: CompactTarget, pub vx_rest: VxHeaderRest }
impl Clone for BlockHeader { #[verifier::external_body] fn clone(&self) -> (r: Self) ensures r == *self { unimplemented!() } }
impl Copy for BlockHeader {}
impl PartialEq for BlockHeader { #[verifier::external_body] fn eq(&self, other: &Self) -> (r: bool) { unimplemented!() } }
impl vstd::std_specs::cmp::PartialEqSpecImpl for BlockHeader {
    open spec fn obeys_eq_spec() -> bool { true }
    open spec fn eq_spec(&self, other: &Self) -> bool { *self == *other }
}

pub enum Network { Bitcoin, Testnet, Signet, Regtest }
impl Clone for Network { #[verifier::external_body] fn clone(&self) -> (r: Self) ensures r == *self { unimplemented!() } }
impl Copy for Network {}
impl PartialEq for Network { #[verifier::external_body] fn eq(&self, other: &Self) -> (r: bool) { unimplemented!() } }
impl vstd::std_specs::cmp::PartialEqSpecImpl for Network {
    open spec fn obeys_eq_spec() -> bool { true }
    open spec fn eq_spec(&self, other: &Self) -> bool { *self == *other }
}

pub uninterp spec fn hdr_hash(h: BlockHeader) -> BlockHash;
pub uninterp spec fn hdr_target(h: BlockHeader) -> Target;
pub uninterp spec fn pow_ok(h: BlockHeader) -> bool;        // block hash under the header's own target
pub uninterp spec fn spec_max_target(n: Network) -> Target;
pub uninterp spec fn retarget_ok(prev: Target, target: Target, n: Network) -> bool;

#[verifier::external_body]
pub struct PowError { _p: u8 }
impl BlockHeader {
    #[verifier::external_body]
    pub fn block_hash(&self) -> (r: BlockHash) ensures r == hdr_hash(*self) { unimplemented!() }
    #[verifier::external_body]
    pub fn target(&self) -> (r: Target) ensures r == hdr_target(*self) { unimplemented!() }
    #[verifier::external_body]
    pub fn validate_pow(&self, t: Target) -> (r: Result<BlockHash, PowError>)
        ensures r.is_ok() ==> t == hdr_target(*self) ==> pow_ok(*self)
    { unimplemented!() }
}
#[verifier::external_body]
pub fn max_target(n: Network) -> (r: Target) ensures r == spec_max_target(n) { unimplemented!() }
pub const DIFFCHANGE_INTERVAL: u32 = 2016;

// ---- txoo proofs: TxoProof { attestations, proof: ProofType } with pub fields ---------------
#[verifier::external_body]
pub struct VxAttestation { _p: u8 }      // txoo SignedAttestation
#[verifier::external_body]
pub struct VxFilterBytes { _p: u8 }
#[verifier::external_body]
pub struct VxBlock { _p: u8 }
pub struct SpvProof { pub txs: Vec<Transaction>, pub vx_rest: VxFilterBytes }
pub enum ProofType { Filter(VxFilterBytes, SpvProof), Block(VxBlock), ExternalBlock() }
pub struct TxoProof { pub attestations: Vec<(PublicKey, VxAttestation)>, pub proof: ProofType }
pub uninterp spec fn proof_filter_header(p: TxoProof) -> FilterHeader;
impl ProofType {
    pub fn is_external(&self) -> (r: bool) ensures r == (*self is ExternalBlock) {
        match self { ProofType::ExternalBlock() => true, _ => false }
    }
}
pub enum VerifyError { InvalidAttestation, Other }
// txoo TxoProof::verify: SPV / filter proof for the watched outpoints and the attestation signatures (TCB)
pub uninterp spec fn txoo_proof_verifies(p: TxoProof, height: u32, header: BlockHeader, external: Option<BlockHash>,
    prev_filter_header: FilterHeader, watches: Seq<OutPoint>) -> bool;
impl TxoProof {
    #[verifier::external_body]
    pub fn verify(&self, height: u32, header: &BlockHeader, external: Option<&BlockHash>, prev_filter_header: &FilterHeader,
        watches: &[OutPoint], secp: &VxSecpAll) -> (r: Result<(), VerifyError>)
        ensures r.is_ok() == txoo_proof_verifies(*self, height, *header, (match external { Some(h) => Some(*h), None => None }),
            *prev_filter_header, watches@)
    { unimplemented!() }
    #[verifier::external_body]
    pub fn filter_header(&self) -> (r: FilterHeader) ensures r == proof_filter_header(*self) { unimplemented!() }
}
impl FilterHeader {
    pub uninterp spec fn bytes(&self) -> Seq<u8>;
    // "no filter header recorded" (upgrade path): all 32 bytes are zero
    pub open spec fn is_all_zero(&self) -> bool { forall|i: int| 0 <= i < 32 ==> #[trigger] self.bytes()[i] == 0 }
    #[verifier::external_body]
    pub fn to_byte_array(&self) -> (r: [u8; 32]) ensures r@ == self.bytes(), self.bytes().len() == 32 { unimplemented!() }
    #[verifier::external_body]
    pub fn vx_all_zero(&self) -> (r: bool) ensures r == self.is_all_zero() { unimplemented!() }
}

#[verifier::external_body]
pub struct VxSecpAll { _p: u8 }
impl VxSecpAll { #[verifier::external_body] pub fn new() -> VxSecpAll { unimplemented!() } }
} // verus!
verus! {
// alloc::collections::VecDeque operations vstd does not specify (TCB): standard sequence semantics
pub assume_specification<T, A: core::alloc::Allocator>[std::collections::VecDeque::<T, A>::is_empty](d: &std::collections::VecDeque<T, A>) -> (r: bool)
    ensures r == (d@.len() == 0);

} // verus!
