// ---- prelude/chain.rs : bitcoin block headers, txoo proofs, listeners (TCB for the tracker unit) ----
verus! {

#[verifier::external_body]
pub struct CompactTarget { _p: u32 }
impl Clone for CompactTarget { #[verifier::external_body] fn clone(&self) -> (r: Self) ensures r == *self { unimplemented!() } }
impl Copy for CompactTarget {}
impl PartialEq for CompactTarget { #[verifier::external_body] fn eq(&self, other: &Self) -> (r: bool) { unimplemented!() } }
impl vstd::std_specs::cmp::PartialEqSpecImpl for CompactTarget {
    open spec fn obeys_eq_spec() -> bool { true }
    open spec fn eq_spec(&self, other: &Self) -> bool { *self == *other }
}
#[verifier::external_body]
pub struct Target { _p: u8 }
impl Clone for Target { #[verifier::external_body] fn clone(&self) -> (r: Self) ensures r == *self { unimplemented!() } }
impl Copy for Target {}
impl PartialEq for Target { #[verifier::external_body] fn eq(&self, other: &Self) -> (r: bool) { unimplemented!() } }
impl vstd::std_specs::cmp::PartialEqSpecImpl for Target {
    open spec fn obeys_eq_spec() -> bool { true }
    open spec fn eq_spec(&self, other: &Self) -> bool { *self == *other }
}

// bitcoin::block::Header: all fields pub
#[verifier::external_body]
pub struct VxHeaderRest { _p: u8 }     // version, merkle_root, nonce
impl Clone for VxHeaderRest { #[verifier::external_body] fn clone(&self) -> (r: Self) ensures r == *self { unimplemented!() } }
impl Copy for VxHeaderRest {}
pub struct BlockHeader { pub prev_blockhash: BlockHash, pub time: u32, pub bits: CompactTarget, pub vx_rest: VxHeaderRest }
impl Clone for BlockHeader { #[verifier::external_body] fn clone(&self) -> (r: Self) ensures r == *self { unimplemented!() } }
impl Copy for BlockHeader {}
impl PartialEq for BlockHeader { #[verifier::external_body] fn eq(&self, other: &Self) -> (r: bool) { unimplemented!() } }
impl vstd::std_specs::cmp::PartialEqSpecImpl for BlockHeader {
    open spec fn obeys_eq_spec() -> bool { true }
    open spec fn eq_spec(&self, other: &Self) -> bool { *self == *other }
}

pub enum Network { Bitcoin, Testnet, Signet, Regtest }
impl Clone for Network { #[verifier::external_body] fn clone(&self) -> (r: Self) ensures r == *self { unimplemented!() } }
impl Copy for Network {}
impl PartialEq for Network { #[verifier::external_body] fn eq(&self, other: &Self) -> (r: bool) { unimplemented!() } }
impl vstd::std_specs::cmp::PartialEqSpecImpl for Network {
    open spec fn obeys_eq_spec() -> bool { true }
    open spec fn eq_spec(&self, other: &Self) -> bool { *self == *other }
}

pub uninterp spec fn hdr_hash(h: BlockHeader) -> BlockHash;
pub uninterp spec fn hdr_target(h: BlockHeader) -> Target;
pub uninterp spec fn pow_ok(h: BlockHeader) -> bool;        // block hash under the header's own target
pub uninterp spec fn spec_max_target(n: Network) -> Target;
// Targets are 256-bit numbers; the consensus retarget rule (from the property: "meets ... the retarget rules"): at a
// retarget boundary the new target is at most the chain's proof-of-work limit and within the factor-4 transition window of
// the previous target, both window ends taken after the compact ("bits") round trip that full nodes apply
pub uninterp spec fn target_val(t: Target) -> nat;
pub uninterp spec fn spec_min_transition(t: Target) -> Target;                 // rust-bitcoin Target::min_transition_threshold (prev / 4)
pub uninterp spec fn spec_max_transition(t: Target, p: VxParams) -> Target;    // Target::max_transition_threshold (min(prev * 4, limit))
pub uninterp spec fn spec_compact(t: Target) -> CompactTarget;                 // Target::to_compact_lossy
pub uninterp spec fn spec_from_compact(c: CompactTarget) -> Target;            // Target::from_compact
pub uninterp spec fn spec_params(n: Network) -> VxParams;
pub open spec fn spec_rt(t: Target) -> Target { spec_from_compact(spec_compact(t)) }
pub open spec fn retarget_ok(prev: Target, target: Target, n: Network) -> bool {
    &&& target_val(target) <= target_val(spec_max_target(n))
    &&& target_val(spec_rt(spec_min_transition(prev))) <= target_val(target)
    &&& target_val(target) <= target_val(spec_rt(spec_max_transition(prev, spec_params(n))))
}
#[verifier::external_body]
pub struct VxParams { _p: u8 }       // &'static bitcoin::consensus::Params
impl Network {
    #[verifier::external_body]
    pub fn params(&self) -> (r: VxParams) ensures r == spec_params(*self) { unimplemented!() }
}
// `a > b` / `a < b` on targets (PartialOrd, numeric order of the 256-bit values)
impl PartialOrd for Target { #[verifier::external_body] fn partial_cmp(&self, other: &Self) -> Option<core::cmp::Ordering> { unimplemented!() } }
impl vstd::std_specs::cmp::PartialOrdSpecImpl for Target {
    open spec fn obeys_partial_cmp_spec() -> bool { true }
    open spec fn partial_cmp_spec(&self, other: &Self) -> Option<core::cmp::Ordering> {
        if target_val(*self) < target_val(*other) { Some(core::cmp::Ordering::Less) }
        else if target_val(*self) > target_val(*other) { Some(core::cmp::Ordering::Greater) }
        else { Some(core::cmp::Ordering::Equal) }
    }
}
impl Target {
    #[verifier::external_body]
    pub fn gt(&self, o: &Target) -> (r: bool) ensures r == (target_val(*self) > target_val(*o)) { unimplemented!() }
    #[verifier::external_body]
    pub fn lt(&self, o: &Target) -> (r: bool) ensures r == (target_val(*self) < target_val(*o)) { unimplemented!() }
    #[verifier::external_body]
    pub fn min_transition_threshold(&self) -> (r: Target) ensures r == spec_min_transition(*self) { unimplemented!() }
    #[verifier::external_body]
    pub fn max_transition_threshold(&self, p: VxParams) -> (r: Target) ensures r == spec_max_transition(*self, p) { unimplemented!() }
    #[verifier::external_body]
    pub fn to_compact_lossy(self) -> (r: CompactTarget) ensures r == spec_compact(self) { unimplemented!() }
    #[verifier::external_body]
    pub fn from_compact(c: CompactTarget) -> (r: Target) ensures r == spec_from_compact(c) { unimplemented!() }
}

#[verifier::external_body]
pub struct PowError { _p: u8 }
impl BlockHeader {
    #[verifier::external_body]
    pub fn block_hash(&self) -> (r: BlockHash) ensures r == hdr_hash(*self) { unimplemented!() }
    #[verifier::external_body]
    pub fn target(&self) -> (r: Target) ensures r == hdr_target(*self) { unimplemented!() }
    #[verifier::external_body]
    pub fn validate_pow(&self, t: Target) -> (r: Result<BlockHash, PowError>)
        ensures r.is_ok() ==> t == hdr_target(*self) ==> pow_ok(*self)
    { unimplemented!() }
}
#[verifier::external_body]
pub fn max_target(n: Network) -> (r: Target) ensures r == spec_max_target(n) { unimplemented!() }
pub const DIFFCHANGE_INTERVAL: u32 = 2016;

// ---- txoo proofs: TxoProof { attestations, proof: ProofType } with pub fields ---------------
#[verifier::external_body]
pub struct VxAttestation { _p: u8 }      // txoo SignedAttestation
#[verifier::external_body]
pub struct VxFilterBytes { _p: u8 }
#[verifier::external_body]
pub struct VxBlock { _p: u8 }
pub struct SpvProof { pub txs: Vec<Transaction>, pub vx_rest: VxFilterBytes }
pub enum ProofType { Filter(VxFilterBytes, SpvProof), Block(VxBlock), ExternalBlock() }
pub struct TxoProof { pub attestations: Vec<(PublicKey, VxAttestation)>, pub proof: ProofType }
pub uninterp spec fn proof_filter_header(p: TxoProof) -> FilterHeader;
impl ProofType {
    pub fn is_external(&self) -> (r: bool) ensures r == (*self is ExternalBlock) {
        match self { ProofType::ExternalBlock() => true, _ => false }
    }
}
pub enum VerifyError { InvalidAttestation, Other }
// txoo TxoProof::verify: SPV / filter proof for the watched outpoints and the attestation signatures (TCB)
pub uninterp spec fn txoo_proof_verifies(p: TxoProof, height: u32, header: BlockHeader, external: Option<BlockHash>,
    prev_filter_header: FilterHeader, watches: Seq<OutPoint>) -> bool;
impl TxoProof {
    #[verifier::external_body]
    pub fn verify(&self, height: u32, header: &BlockHeader, external: Option<&BlockHash>, prev_filter_header: &FilterHeader,
        watches: &[OutPoint], secp: &VxSecpAll) -> (r: Result<(), VerifyError>)
        ensures r.is_ok() == txoo_proof_verifies(*self, height, *header, (match external { Some(h) => Some(*h), None => None }),
            *prev_filter_header, watches@)
    { unimplemented!() }
    #[verifier::external_body]
    pub fn filter_header(&self) -> (r: FilterHeader) ensures r == proof_filter_header(*self) { unimplemented!() }
}
impl FilterHeader {
    pub uninterp spec fn bytes(&self) -> Seq<u8>;
    // "no filter header recorded" (upgrade path): all 32 bytes are zero
    pub open spec fn is_all_zero(&self) -> bool { forall|i: int| 0 <= i < 32 ==> #[trigger] self.bytes()[i] == 0 }
    #[verifier::external_body]
    pub fn to_byte_array(&self) -> (r: [u8; 32]) ensures r@ == self.bytes(), self.bytes().len() == 32 { unimplemented!() }
    #[verifier::external_body]
    pub fn vx_all_zero(&self) -> (r: bool) ensures r == self.is_all_zero() { unimplemented!() }
}

#[verifier::external_body]
pub struct VxSecpAll { _p: u8 }
impl VxSecpAll { #[verifier::external_body] pub fn new() -> VxSecpAll { unimplemented!() } }
} // verus!
verus! {
// alloc::collections::VecDeque operations vstd does not specify (TCB): standard sequence semantics
pub assume_specification<T, A: core::alloc::Allocator>[std::collections::VecDeque::<T, A>::is_empty](d: &std::collections::VecDeque<T, A>) -> (r: bool)
    ensures r == (d@.len() == 0);

} // verus!
