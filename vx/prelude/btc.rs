// ---- prelude/btc.rs : opaque bitcoin / lightning value types (TCB, R5) ----
verus! {

#[verifier::external_body]
pub struct ScriptBuf { _p: u8 }
impl Clone for ScriptBuf { #[verifier::external_body] fn clone(&self) -> (r: Self) ensures r == *self { unimplemented!() } }
impl PartialEq for ScriptBuf { #[verifier::external_body] fn eq(&self, other: &Self) -> (r: bool) { unimplemented!() } }
impl vstd::std_specs::cmp::PartialEqSpecImpl for ScriptBuf {
    open spec fn obeys_eq_spec() -> bool { true }
    open spec fn eq_spec(&self, other: &Self) -> bool { *self == *other }
}

#[verifier::external_body]
pub struct Txid { _p: u8 }
impl Clone for Txid { #[verifier::external_body] fn clone(&self) -> (r: Self) ensures r == *self { unimplemented!() } }
impl Copy for Txid {}
impl PartialEq for Txid { #[verifier::external_body] fn eq(&self, other: &Self) -> (r: bool) { unimplemented!() } }
impl vstd::std_specs::cmp::PartialEqSpecImpl for Txid {
    open spec fn obeys_eq_spec() -> bool { true }
    open spec fn eq_spec(&self, other: &Self) -> bool { *self == *other }
}

#[verifier::external_body]
pub struct DerivationPath { _p: u8 }
impl Clone for DerivationPath { #[verifier::external_body] fn clone(&self) -> (r: Self) ensures r == *self { unimplemented!() } }
impl PartialEq for DerivationPath { #[verifier::external_body] fn eq(&self, other: &Self) -> (r: bool) { unimplemented!() } }
impl vstd::std_specs::cmp::PartialEqSpecImpl for DerivationPath {
    open spec fn obeys_eq_spec() -> bool { true }
    open spec fn eq_spec(&self, other: &Self) -> bool { *self == *other }
}

// lightning::ln::chan_utils::ChannelPublicKeys (all fields pub in LDK); the basepoint newtypes are
// modelled by their inner PublicKey accessed through `.0`
pub struct VxKeyWrap(pub PublicKey);
impl Clone for VxKeyWrap { #[verifier::external_body] fn clone(&self) -> (r: Self) ensures r == *self { unimplemented!() } }
impl Copy for VxKeyWrap {}
pub struct ChannelPublicKeys {
    pub funding_pubkey: PublicKey,
    pub revocation_basepoint: VxKeyWrap,
    pub payment_point: PublicKey,
    pub delayed_payment_basepoint: VxKeyWrap,
    pub htlc_basepoint: VxKeyWrap,
}
impl Clone for ChannelPublicKeys { #[verifier::external_body] fn clone(&self) -> (r: Self) ensures r == *self { unimplemented!() } }

// lightning::ln::chan_utils::TxCreationKeys (all fields pub in LDK)
pub struct TxCreationKeys {
    pub per_commitment_point: PublicKey,
    pub revocation_key: VxKeyWrap,
    pub broadcaster_htlc_key: VxKeyWrap,
    pub countersignatory_htlc_key: VxKeyWrap,
    pub broadcaster_delayed_payment_key: VxKeyWrap,
}
impl Clone for TxCreationKeys { #[verifier::external_body] fn clone(&self) -> (r: Self) ensures r == *self { unimplemented!() } }

#[verifier::external_body]
pub struct CommitmentTransaction { _p: u8 }
impl Clone for CommitmentTransaction { #[verifier::external_body] fn clone(&self) -> (r: Self) ensures r == *self { unimplemented!() } }
impl PartialEq for CommitmentTransaction { #[verifier::external_body] fn eq(&self, other: &Self) -> (r: bool) { unimplemented!() } }
impl vstd::std_specs::cmp::PartialEqSpecImpl for CommitmentTransaction {
    open spec fn obeys_eq_spec() -> bool { true }
    open spec fn eq_spec(&self, other: &Self) -> bool { *self == *other }
}

#[verifier::external_body]
pub struct HolderCommitmentTransaction { _p: u8 }
impl Clone for HolderCommitmentTransaction { #[verifier::external_body] fn clone(&self) -> (r: Self) ensures r == *self { unimplemented!() } }
impl PartialEq for HolderCommitmentTransaction { #[verifier::external_body] fn eq(&self, other: &Self) -> (r: bool) { unimplemented!() } }
impl vstd::std_specs::cmp::PartialEqSpecImpl for HolderCommitmentTransaction {
    open spec fn obeys_eq_spec() -> bool { true }
    open spec fn eq_spec(&self, other: &Self) -> bool { *self == *other }
}

#[verifier::external_body]
pub struct ClosingTransaction { _p: u8 }
impl Clone for ClosingTransaction { #[verifier::external_body] fn clone(&self) -> (r: Self) ensures r == *self { unimplemented!() } }
impl PartialEq for ClosingTransaction { #[verifier::external_body] fn eq(&self, other: &Self) -> (r: bool) { unimplemented!() } }
impl vstd::std_specs::cmp::PartialEqSpecImpl for ClosingTransaction {
    open spec fn obeys_eq_spec() -> bool { true }
    open spec fn eq_spec(&self, other: &Self) -> bool { *self == *other }
}

#[verifier::external_body]
pub struct ChannelTransactionParameters { _p: u8 }
impl Clone for ChannelTransactionParameters { #[verifier::external_body] fn clone(&self) -> (r: Self) ensures r == *self { unimplemented!() } }
impl PartialEq for ChannelTransactionParameters { #[verifier::external_body] fn eq(&self, other: &Self) -> (r: bool) { unimplemented!() } }
impl vstd::std_specs::cmp::PartialEqSpecImpl for ChannelTransactionParameters {
    open spec fn obeys_eq_spec() -> bool { true }
    open spec fn eq_spec(&self, other: &Self) -> bool { *self == *other }
}

#[verifier::external_body]
pub struct ChannelTypeFeatures { _p: u8 }
impl Clone for ChannelTypeFeatures { #[verifier::external_body] fn clone(&self) -> (r: Self) ensures r == *self { unimplemented!() } }
impl PartialEq for ChannelTypeFeatures { #[verifier::external_body] fn eq(&self, other: &Self) -> (r: bool) { unimplemented!() } }
impl vstd::std_specs::cmp::PartialEqSpecImpl for ChannelTypeFeatures {
    open spec fn obeys_eq_spec() -> bool { true }
    open spec fn eq_spec(&self, other: &Self) -> bool { *self == *other }
}

// lightning::ln::chan_utils::HTLCOutputInCommitment (all fields pub in LDK)
pub struct HTLCOutputInCommitment {
    pub offered: bool,
    pub amount_msat: u64,
    pub cltv_expiry: u32,
    pub payment_hash: PaymentHash,
    pub transaction_output_index: Option<u32>,
}
impl Clone for HTLCOutputInCommitment { #[verifier::external_body] fn clone(&self) -> (r: Self) ensures r == *self { unimplemented!() } }
// LDK derives PartialEq (field-wise)
impl PartialEq for HTLCOutputInCommitment { #[verifier::external_body] fn eq(&self, other: &Self) -> (r: bool) { unimplemented!() } }
impl vstd::std_specs::cmp::PartialEqSpecImpl for HTLCOutputInCommitment {
    open spec fn obeys_eq_spec() -> bool { true }
    open spec fn eq_spec(&self, other: &Self) -> bool { *self == *other }
}

#[verifier::external_body]
pub struct Message { _p: u8 }
impl Clone for Message { #[verifier::external_body] fn clone(&self) -> (r: Self) ensures r == *self { unimplemented!() } }
impl Copy for Message {}
impl PartialEq for Message { #[verifier::external_body] fn eq(&self, other: &Self) -> (r: bool) { unimplemented!() } }
impl vstd::std_specs::cmp::PartialEqSpecImpl for Message {
    open spec fn obeys_eq_spec() -> bool { true }
    open spec fn eq_spec(&self, other: &Self) -> bool { *self == *other }
}

#[verifier::external_body]
pub struct BlockHash { _p: u8 }
impl Clone for BlockHash { #[verifier::external_body] fn clone(&self) -> (r: Self) ensures r == *self { unimplemented!() } }
impl Copy for BlockHash {}
impl PartialEq for BlockHash { #[verifier::external_body] fn eq(&self, other: &Self) -> (r: bool) { unimplemented!() } }
impl vstd::std_specs::cmp::PartialEqSpecImpl for BlockHash {
    open spec fn obeys_eq_spec() -> bool { true }
    open spec fn eq_spec(&self, other: &Self) -> bool { *self == *other }
}

#[verifier::external_body]
pub struct FilterHeader { _p: u8 }
impl Clone for FilterHeader { #[verifier::external_body] fn clone(&self) -> (r: Self) ensures r == *self { unimplemented!() } }
impl Copy for FilterHeader {}
impl PartialEq for FilterHeader { #[verifier::external_body] fn eq(&self, other: &Self) -> (r: bool) { unimplemented!() } }
impl vstd::std_specs::cmp::PartialEqSpecImpl for FilterHeader {
    open spec fn obeys_eq_spec() -> bool { true }
    open spec fn eq_spec(&self, other: &Self) -> bool { *self == *other }
}

#[verifier::external_body]
pub struct ChannelId { _p: u8 }
impl Clone for ChannelId { #[verifier::external_body] fn clone(&self) -> (r: Self) ensures r == *self { unimplemented!() } }
impl PartialEq for ChannelId { #[verifier::external_body] fn eq(&self, other: &Self) -> (r: bool) { unimplemented!() } }
impl vstd::std_specs::cmp::PartialEqSpecImpl for ChannelId {
    open spec fn obeys_eq_spec() -> bool { true }
    open spec fn eq_spec(&self, other: &Self) -> bool { *self == *other }
}

// bitcoin::Amount
#[verifier::external_body]
pub struct Amount { _p: u8 }
impl Clone for Amount { #[verifier::external_body] fn clone(&self) -> (r: Self) ensures r == *self { unimplemented!() } }
impl Copy for Amount {}
pub uninterp spec fn amount_sat(a: Amount) -> u64;
impl Amount {
    #[verifier::external_body]
    pub fn from_sat(v: u64) -> (r: Amount) ensures amount_sat(r) == v { unimplemented!() }
    #[verifier::external_body]
    pub fn to_sat(self) -> (r: u64) ensures r == amount_sat(self) { unimplemented!() }
}
// bitcoin::transaction::Version(pub i32), bitcoin::Sequence(pub u32)
pub struct Version(pub i32);
impl Clone for Version { #[verifier::external_body] fn clone(&self) -> (r: Self) ensures r == *self { unimplemented!() } }
impl Copy for Version {}
impl PartialEq for Version { #[verifier::external_body] fn eq(&self, other: &Self) -> (r: bool) { unimplemented!() } }
impl vstd::std_specs::cmp::PartialEqSpecImpl for Version {
    open spec fn obeys_eq_spec() -> bool { true }
    open spec fn eq_spec(&self, other: &Self) -> bool { *self == *other }
}
impl Version { pub const TWO: Version = Version(2); }
pub struct Sequence(pub u32);
impl Clone for Sequence { #[verifier::external_body] fn clone(&self) -> (r: Self) ensures r == *self { unimplemented!() } }
impl Copy for Sequence {}
#[verifier::external_body]
pub struct LockTime { _p: u8 }
impl Clone for LockTime { #[verifier::external_body] fn clone(&self) -> (r: Self) ensures r == *self { unimplemented!() } }
impl Copy for LockTime {}
#[verifier::external_body]
pub struct Witness { _p: u8 }
impl Clone for Witness { #[verifier::external_body] fn clone(&self) -> (r: Self) ensures r == *self { unimplemented!() } }
// bitcoin::{TxIn, TxOut, Transaction}: all fields pub
pub struct TxIn { pub previous_output: OutPoint, pub script_sig: ScriptBuf, pub sequence: Sequence, pub witness: Witness }
pub struct TxOut { pub value: Amount, pub script_pubkey: ScriptBuf }
pub struct Transaction { pub version: Version, pub lock_time: LockTime, pub input: Vec<TxIn>, pub output: Vec<TxOut> }
impl Clone for Transaction { #[verifier::external_body] fn clone(&self) -> (r: Self) ensures r == *self { unimplemented!() } }
impl PartialEq for Transaction { #[verifier::external_body] fn eq(&self, other: &Self) -> (r: bool) { unimplemented!() } }
impl vstd::std_specs::cmp::PartialEqSpecImpl for Transaction {
    open spec fn obeys_eq_spec() -> bool { true }
    open spec fn eq_spec(&self, other: &Self) -> bool { *self == *other }
}
pub uninterp spec fn tx_base_size(tx: Transaction) -> usize;
impl Transaction {
    #[verifier::external_body]
    pub fn base_size(&self) -> (r: usize) ensures r == tx_base_size(*self) { unimplemented!() }
}

// bitcoin::OutPoint { pub txid, pub vout }
pub struct OutPoint { pub txid: Txid, pub vout: u32 }
impl Clone for OutPoint { #[verifier::external_body] fn clone(&self) -> (r: Self) ensures r == *self { unimplemented!() } }
impl Copy for OutPoint {}
impl PartialEq for OutPoint { #[verifier::external_body] fn eq(&self, other: &Self) -> (r: bool) { unimplemented!() } }
impl vstd::std_specs::cmp::PartialEqSpecImpl for OutPoint {
    open spec fn obeys_eq_spec() -> bool { true }
    open spec fn eq_spec(&self, other: &Self) -> bool { *self == *other }
}
} // verus!
