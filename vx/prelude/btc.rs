// ---- prelude/btc.rs : opaque bitcoin / lightning value types (TCB, R5) ----
verus! {

#[verifier::external_body]
pub struct Transaction { _p: u8 }
impl Clone for Transaction { #[verifier::external_body] fn clone(&self) -> (r: Self) ensures r == *self { unimplemented!() } }
impl PartialEq for Transaction { #[verifier::external_body] fn eq(&self, other: &Self) -> (r: bool) { unimplemented!() } }
impl vstd::std_specs::cmp::PartialEqSpecImpl for Transaction {
    open spec fn obeys_eq_spec() -> bool { true }
    open spec fn eq_spec(&self, other: &Self) -> bool { *self == *other }
}

#[verifier::external_body]
pub struct ScriptBuf { _p: u8 }
impl Clone for ScriptBuf { #[verifier::external_body] fn clone(&self) -> (r: Self) ensures r == *self { unimplemented!() } }
impl PartialEq for ScriptBuf { #[verifier::external_body] fn eq(&self, other: &Self) -> (r: bool) { unimplemented!() } }
impl vstd::std_specs::cmp::PartialEqSpecImpl for ScriptBuf {
    open spec fn obeys_eq_spec() -> bool { true }
    open spec fn eq_spec(&self, other: &Self) -> bool { *self == *other }
}

#[verifier::external_body]
pub struct Txid { _p: u8 }
impl Clone for Txid { #[verifier::external_body] fn clone(&self) -> (r: Self) ensures r == *self { unimplemented!() } }
impl Copy for Txid {}
impl PartialEq for Txid { #[verifier::external_body] fn eq(&self, other: &Self) -> (r: bool) { unimplemented!() } }
impl vstd::std_specs::cmp::PartialEqSpecImpl for Txid {
    open spec fn obeys_eq_spec() -> bool { true }
    open spec fn eq_spec(&self, other: &Self) -> bool { *self == *other }
}

#[verifier::external_body]
pub struct DerivationPath { _p: u8 }
impl Clone for DerivationPath { #[verifier::external_body] fn clone(&self) -> (r: Self) ensures r == *self { unimplemented!() } }
impl PartialEq for DerivationPath { #[verifier::external_body] fn eq(&self, other: &Self) -> (r: bool) { unimplemented!() } }
impl vstd::std_specs::cmp::PartialEqSpecImpl for DerivationPath {
    open spec fn obeys_eq_spec() -> bool { true }
    open spec fn eq_spec(&self, other: &Self) -> bool { *self == *other }
}

// lightning::ln::chan_utils::ChannelPublicKeys (all fields pub in LDK); the basepoint newtypes are
// modelled by their inner PublicKey accessed through `.0`
pub struct VxKeyWrap(pub PublicKey);
impl Clone for VxKeyWrap { #[verifier::external_body] fn clone(&self) -> (r: Self) ensures r == *self { unimplemented!() } }
impl Copy for VxKeyWrap {}
pub struct ChannelPublicKeys {
    pub funding_pubkey: PublicKey,
    pub revocation_basepoint: VxKeyWrap,
    pub payment_point: PublicKey,
    pub delayed_payment_basepoint: VxKeyWrap,
    pub htlc_basepoint: VxKeyWrap,
}
impl Clone for ChannelPublicKeys { #[verifier::external_body] fn clone(&self) -> (r: Self) ensures r == *self { unimplemented!() } }

// lightning::ln::chan_utils::TxCreationKeys (all fields pub in LDK)
pub struct TxCreationKeys {
    pub per_commitment_point: PublicKey,
    pub revocation_key: VxKeyWrap,
    pub broadcaster_htlc_key: VxKeyWrap,
    pub countersignatory_htlc_key: VxKeyWrap,
    pub broadcaster_delayed_payment_key: VxKeyWrap,
}
impl Clone for TxCreationKeys { #[verifier::external_body] fn clone(&self) -> (r: Self) ensures r == *self { unimplemented!() } }

#[verifier::external_body]
pub struct CommitmentTransaction { _p: u8 }
impl Clone for CommitmentTransaction { #[verifier::external_body] fn clone(&self) -> (r: Self) ensures r == *self { unimplemented!() } }
impl PartialEq for CommitmentTransaction { #[verifier::external_body] fn eq(&self, other: &Self) -> (r: bool) { unimplemented!() } }
impl vstd::std_specs::cmp::PartialEqSpecImpl for CommitmentTransaction {
    open spec fn obeys_eq_spec() -> bool { true }
    open spec fn eq_spec(&self, other: &Self) -> bool { *self == *other }
}

#[verifier::external_body]
pub struct HolderCommitmentTransaction { _p: u8 }
impl Clone for HolderCommitmentTransaction { #[verifier::external_body] fn clone(&self) -> (r: Self) ensures r == *self { unimplemented!() } }
impl PartialEq for HolderCommitmentTransaction { #[verifier::external_body] fn eq(&self, other: &Self) -> (r: bool) { unimplemented!() } }
impl vstd::std_specs::cmp::PartialEqSpecImpl for HolderCommitmentTransaction {
    open spec fn obeys_eq_spec() -> bool { true }
    open spec fn eq_spec(&self, other: &Self) -> bool { *self == *other }
}

#[verifier::external_body]
pub struct ClosingTransaction { _p: u8 }
impl Clone for ClosingTransaction { #[verifier::external_body] fn clone(&self) -> (r: Self) ensures r == *self { unimplemented!() } }
impl PartialEq for ClosingTransaction { #[verifier::external_body] fn eq(&self, other: &Self) -> (r: bool) { unimplemented!() } }
impl vstd::std_specs::cmp::PartialEqSpecImpl for ClosingTransaction {
    open spec fn obeys_eq_spec() -> bool { true }
    open spec fn eq_spec(&self, other: &Self) -> bool { *self == *other }
}

#[verifier::external_body]
pub struct ChannelTransactionParameters { _p: u8 }
impl Clone for ChannelTransactionParameters { #[verifier::external_body] fn clone(&self) -> (r: Self) ensures r == *self { unimplemented!() } }
impl PartialEq for ChannelTransactionParameters { #[verifier::external_body] fn eq(&self, other: &Self) -> (r: bool) { unimplemented!() } }
impl vstd::std_specs::cmp::PartialEqSpecImpl for ChannelTransactionParameters {
    open spec fn obeys_eq_spec() -> bool { true }
    open spec fn eq_spec(&self, other: &Self) -> bool { *self == *other }
}

#[verifier::external_body]
pub struct ChannelTypeFeatures { _p: u8 }
impl Clone for ChannelTypeFeatures { #[verifier::external_body] fn clone(&self) -> (r: Self) ensures r == *self { unimplemented!() } }
impl PartialEq for ChannelTypeFeatures { #[verifier::external_body] fn eq(&self, other: &Self) -> (r: bool) { unimplemented!() } }
impl vstd::std_specs::cmp::PartialEqSpecImpl for ChannelTypeFeatures {
    open spec fn obeys_eq_spec() -> bool { true }
    open spec fn eq_spec(&self, other: &Self) -> bool { *self == *other }
}

// lightning::ln::chan_utils::HTLCOutputInCommitment (all fields pub in LDK)
pub struct HTLCOutputInCommitment {
    pub offered: bool,
    pub amount_msat: u64,
    pub cltv_expiry: u32,
    pub payment_hash: PaymentHash,
    pub transaction_output_index: Option<u32>,
}
impl Clone for HTLCOutputInCommitment { #[verifier::external_body] fn clone(&self) -> (r: Self) ensures r == *self { unimplemented!() } }

#[verifier::external_body]
pub struct Message { _p: u8 }
impl Clone for Message { #[verifier::external_body] fn clone(&self) -> (r: Self) ensures r == *self { unimplemented!() } }
impl Copy for Message {}
impl PartialEq for Message { #[verifier::external_body] fn eq(&self, other: &Self) -> (r: bool) { unimplemented!() } }
impl vstd::std_specs::cmp::PartialEqSpecImpl for Message {
    open spec fn obeys_eq_spec() -> bool { true }
    open spec fn eq_spec(&self, other: &Self) -> bool { *self == *other }
}

#[verifier::external_body]
pub struct BlockHash { _p: u8 }
impl Clone for BlockHash { #[verifier::external_body] fn clone(&self) -> (r: Self) ensures r == *self { unimplemented!() } }
impl Copy for BlockHash {}
impl PartialEq for BlockHash { #[verifier::external_body] fn eq(&self, other: &Self) -> (r: bool) { unimplemented!() } }
impl vstd::std_specs::cmp::PartialEqSpecImpl for BlockHash {
    open spec fn obeys_eq_spec() -> bool { true }
    open spec fn eq_spec(&self, other: &Self) -> bool { *self == *other }
}

#[verifier::external_body]
pub struct FilterHeader { _p: u8 }
impl Clone for FilterHeader { #[verifier::external_body] fn clone(&self) -> (r: Self) ensures r == *self { unimplemented!() } }
impl Copy for FilterHeader {}
impl PartialEq for FilterHeader { #[verifier::external_body] fn eq(&self, other: &Self) -> (r: bool) { unimplemented!() } }
impl vstd::std_specs::cmp::PartialEqSpecImpl for FilterHeader {
    open spec fn obeys_eq_spec() -> bool { true }
    open spec fn eq_spec(&self, other: &Self) -> bool { *self == *other }
}

#[verifier::external_body]
pub struct ChannelId { _p: u8 }
impl Clone for ChannelId { #[verifier::external_body] fn clone(&self) -> (r: Self) ensures r == *self { unimplemented!() } }
impl PartialEq for ChannelId { #[verifier::external_body] fn eq(&self, other: &Self) -> (r: bool) { unimplemented!() } }
impl vstd::std_specs::cmp::PartialEqSpecImpl for ChannelId {
    open spec fn obeys_eq_spec() -> bool { true }
    open spec fn eq_spec(&self, other: &Self) -> bool { *self == *other }
}

// bitcoin::OutPoint { pub txid, pub vout }
pub struct OutPoint { pub txid: Txid, pub vout: u32 }
impl Clone for OutPoint { #[verifier::external_body] fn clone(&self) -> (r: Self) ensures r == *self { unimplemented!() } }
impl Copy for OutPoint {}
impl PartialEq for OutPoint { #[verifier::external_body] fn eq(&self, other: &Self) -> (r: bool) { unimplemented!() } }
impl vstd::std_specs::cmp::PartialEqSpecImpl for OutPoint {
    open spec fn obeys_eq_spec() -> bool { true }
    open spec fn eq_spec(&self, other: &Self) -> bool { *self == *other }
}
} // verus!
