// ---- prelude/wallet.rs : the Wallet trait object (Node) as an opaque carrier (TCB, R6) ----
// can_spend / allowlist_contains use address derivation and a mutex-protected allowlist; they are
// uninterpreted deterministic functions of (wallet, path, script).
verus! {
#[verifier::external_body]
pub struct VxWallet { _p: u8 }
pub uninterp spec fn wallet_can_spend(w: VxWallet, path: DerivationPath, script: ScriptBuf) -> Option<bool>;   // None: error
pub uninterp spec fn wallet_allowlisted(w: VxWallet, script: ScriptBuf, path: DerivationPath) -> bool;
pub uninterp spec fn wallet_network(w: VxWallet) -> VxNetwork;
#[verifier::external_body]
pub struct VxNetwork { _p: u8 }
impl Clone for VxNetwork { #[verifier::external_body] fn clone(&self) -> (r: Self) ensures r == *self { unimplemented!() } }
impl Copy for VxNetwork {}
impl VxWallet {
    #[verifier::external_body]
    pub fn can_spend(&self, child_path: &DerivationPath, script_pubkey: &ScriptBuf) -> (r: Result<bool, Status>)
        ensures r.is_ok() == wallet_can_spend(*self, *child_path, *script_pubkey).is_some(),
                r.is_ok() ==> r->Ok_0 == wallet_can_spend(*self, *child_path, *script_pubkey)->Some_0
    { unimplemented!() }
    #[verifier::external_body]
    pub fn allowlist_contains(&self, script_pubkey: &ScriptBuf, path: &DerivationPath) -> (r: bool)
        ensures r == wallet_allowlisted(*self, *script_pubkey, *path)
    { unimplemented!() }
    #[verifier::external_body]
    pub fn network(&self) -> (r: VxNetwork) ensures r == wallet_network(*self) { unimplemented!() }
}
// the destination is one the node controls or has allowlisted
pub open spec fn wallet_ok(w: VxWallet, script: ScriptBuf, path: DerivationPath) -> bool {
    wallet_can_spend(w, path, script) == Some(true) || wallet_allowlisted(w, script, path)
}

pub uninterp spec fn path_len(p: DerivationPath) -> usize;
pub uninterp spec fn master_path() -> DerivationPath;
impl DerivationPath {
    #[verifier::external_body]
    pub fn len(&self) -> (r: usize) ensures r == path_len(*self) { unimplemented!() }
    #[verifier::external_body]
    pub fn master() -> (r: DerivationPath) ensures r == master_path() { unimplemented!() }
}
#[verifier::external_body]
pub struct Address { _p: u8 }
pub uninterp spec fn p2wsh_script(redeem: ScriptBuf, n: VxNetwork) -> ScriptBuf;
impl Address {
    pub uninterp spec fn spk(&self) -> ScriptBuf;
    #[verifier::external_body]
    pub fn p2wsh(script: &ScriptBuf, n: VxNetwork) -> (r: Address) ensures r.spk() == p2wsh_script(*script, n) { unimplemented!() }
    #[verifier::external_body]
    pub fn script_pubkey(&self) -> (r: ScriptBuf) ensures r == self.spk() { unimplemented!() }
}
} // verus!
verus! {
// ---- locktimes and HTLC script parsers (bitcoin / tx.rs script templates; TCB) ----
#[verifier::external_body] pub struct Height { _p: u8 }
pub struct Time(pub u32);
#[verifier::external_body] pub struct HeightError { _p: u8 }
pub uninterp spec fn height_of(h: Height) -> u32;
impl Height {
    #[verifier::external_body]
    pub fn from_consensus(n: u32) -> (r: Result<Height, HeightError>) ensures r.is_ok() ==> height_of(r->Ok_0) == n { unimplemented!() }
}
impl Time { pub const MIN: Time = Time(0); }
// the locktime is a block height no later than `h` (or not a height-based lock that is still pending)
pub uninterp spec fn locktime_satisfied_by_height(l: LockTime, h: u32) -> bool;
pub uninterp spec fn locktime_consensus(l: LockTime) -> u32;
impl LockTime {
    #[verifier::external_body]
    pub fn is_satisfied_by(&self, height: Height, time: Time) -> (r: bool) ensures r == locktime_satisfied_by_height(*self, height_of(height)) { unimplemented!() }
    #[verifier::external_body]
    pub fn to_consensus_u32(self) -> (r: u32) ensures r == locktime_consensus(self) { unimplemented!() }
    // bitcoin::absolute::LockTime: consensus values below 500_000_000 are block heights, the others UNIX times
    #[verifier::external_body]
    pub fn is_block_height(&self) -> (r: bool) ensures r == (locktime_consensus(*self) < 500_000_000) { unimplemented!() }
    #[verifier::external_body]
    pub fn is_block_time(&self) -> (r: bool) ensures r == (locktime_consensus(*self) >= 500_000_000) { unimplemented!() }
}
// script template parsers of tx/tx.rs
pub uninterp spec fn spec_received_htlc_cltv(script: ScriptBuf, anchors: bool) -> Option<i64>;   // Some: parses as received HTLC
pub uninterp spec fn spec_is_offered_htlc(script: ScriptBuf, anchors: bool) -> bool;
#[verifier::external_body]
pub fn parse_received_htlc_script(script: &ScriptBuf, anchors: bool) -> (r: Result<(Vec<u8>, Vec<u8>, Vec<u8>, Vec<u8>, i64), ValidationError>)
    ensures r.is_ok() == spec_received_htlc_cltv(*script, anchors).is_some(),
            r.is_ok() ==> r->Ok_0.4 == spec_received_htlc_cltv(*script, anchors)->Some_0
{ unimplemented!() }
#[verifier::external_body]
pub fn parse_offered_htlc_script(script: &ScriptBuf, anchors: bool) -> (r: Result<(Vec<u8>, Vec<u8>, Vec<u8>, Vec<u8>), ValidationError>)
    ensures r.is_ok() == spec_is_offered_htlc(*script, anchors)
{ unimplemented!() }
#[verifier::external_body]
pub fn parse_revokeable_redeemscript(script: &ScriptBuf, anchors: bool) -> Result<(Vec<u8>, i64, Vec<u8>), ValidationError> { unimplemented!() }
} // verus!
verus! {
// ---- closing transactions (LDK ClosingTransaction; TCB) ----
pub uninterp spec fn closing_tx_spec(to_holder: u64, to_cp: u64, holder_script: ScriptBuf, cp_script: ScriptBuf, funding: OutPoint) -> ClosingTransaction;
pub uninterp spec fn closing_built_tx(c: ClosingTransaction) -> Transaction;
pub uninterp spec fn empty_script() -> ScriptBuf;
#[verifier::external_body]
pub struct TrustedClosingTransaction { _p: u8 }
impl ClosingTransaction {
    #[verifier::external_body]
    pub fn new(to_holder: u64, to_cp: u64, holder_script: ScriptBuf, cp_script: ScriptBuf, funding: OutPoint) -> (r: ClosingTransaction)
        ensures r == closing_tx_spec(to_holder, to_cp, holder_script, cp_script, funding)
    { unimplemented!() }
    #[verifier::external_body]
    pub fn trust(&self) -> (r: TrustedClosingTransaction) ensures r.inner() == *self { unimplemented!() }
}
impl TrustedClosingTransaction {
    pub uninterp spec fn inner(&self) -> ClosingTransaction;
    #[verifier::external_body]
    pub fn built_transaction(&self) -> (r: &Transaction) ensures *r == closing_built_tx(self.inner()) { unimplemented!() }
}
impl ScriptBuf {
    #[verifier::external_body]
    pub fn new() -> (r: ScriptBuf) ensures r == empty_script() { unimplemented!() }
}
pub open spec fn script_or_empty(o: Option<ScriptBuf>) -> ScriptBuf { match o { Some(s) => s, None => empty_script() } }
// `opt.clone().unwrap_or_else(|| ScriptBuf::new())` (closure returning a default; R5 helper)
#[verifier::external_body]
pub fn vx_script_or_empty(o: Option<ScriptBuf>) -> (r: ScriptBuf) ensures r == script_or_empty(o) { unimplemented!() }
pub uninterp spec fn spec_mutual_close_weight(tx: Transaction) -> usize;
#[verifier::external_body]
pub fn mutual_close_tx_weight(tx: &Transaction) -> (r: usize) ensures r == spec_mutual_close_weight(*tx), r > 0 { unimplemented!() }
} // verus!
