// ---- prelude/wallet.rs : the Wallet trait object (Node) as an opaque carrier (TCB, R6) ----
// can_spend / allowlist_contains use address derivation and a mutex-protected allowlist; they are
// uninterpreted deterministic functions of (wallet, path, script).
verus! {
#[verifier::external_body]
pub struct VxWallet { _p: u8 }
pub uninterp spec fn wallet_can_spend(w: VxWallet, path: DerivationPath, script: ScriptBuf) -> Option<bool>;   // None: error
pub uninterp spec fn wallet_allowlisted(w: VxWallet, script: ScriptBuf, path: DerivationPath) -> bool;
pub uninterp spec fn wallet_network(w: VxWallet) -> VxNetwork;
#[verifier::external_body]
pub struct VxNetwork { _p: u8 }
impl Clone for VxNetwork { #[verifier::external_body] fn clone(&self) -> (r: Self) ensures r == *self { unimplemented!() } }
impl Copy for VxNetwork {}
impl VxWallet {
    #[verifier::external_body]
    pub fn can_spend(&self, child_path: &DerivationPath, script_pubkey: &ScriptBuf) -> (r: Result<bool, Status>)
        ensures r.is_ok() == wallet_can_spend(*self, *child_path, *script_pubkey).is_some(),
                r.is_ok() ==> r->Ok_0 == wallet_can_spend(*self, *child_path, *script_pubkey)->Some_0
    { unimplemented!() }
    #[verifier::external_body]
    pub fn allowlist_contains(&self, script_pubkey: &ScriptBuf, path: &DerivationPath) -> (r: bool)
        ensures r == wallet_allowlisted(*self, *script_pubkey, *path)
    { unimplemented!() }
    #[verifier::external_body]
    pub fn network(&self) -> (r: VxNetwork) ensures r == wallet_network(*self) { unimplemented!() }
}
// the destination is one the node controls or has allowlisted
pub open spec fn wallet_ok(w: VxWallet, script: ScriptBuf, path: DerivationPath) -> bool {
    wallet_can_spend(w, path, script) == Some(true) || wallet_allowlisted(w, script, path)
}

pub uninterp spec fn path_len(p: DerivationPath) -> usize;
pub uninterp spec fn master_path() -> DerivationPath;
impl DerivationPath {
    #[verifier::external_body]
    pub fn len(&self) -> (r: usize) ensures r == path_len(*self) { unimplemented!() }
    #[verifier::external_body]
    pub fn master() -> (r: DerivationPath) ensures r == master_path() { unimplemented!() }
}
#[verifier::external_body]
pub struct Address { _p: u8 }
pub uninterp spec fn p2wsh_script(redeem: ScriptBuf, n: VxNetwork) -> ScriptBuf;
impl Address {
    pub uninterp spec fn spk(&self) -> ScriptBuf;
    #[verifier::external_body]
    pub fn p2wsh(script: &ScriptBuf, n: VxNetwork) -> (r: Address) ensures r.spk() == p2wsh_script(*script, n) { unimplemented!() }
    #[verifier::external_body]
    pub fn script_pubkey(&self) -> (r: ScriptBuf) ensures r == self.spk() { unimplemented!() }
}
} // verus!
