// ---- prelude/core.rs : assumed facts about core / alloc used by every unit (TCB) ----
verus! {

// assumption: 64-bit target (usize == u64)
global size_of usize == 8;

// abort constructs (R7): control never continues, so `false` may be assumed after it.
#[verifier::external_body]
pub fn vx_abort() -> !
    ensures false
{ panic!() }

// opaque message text (R2)
#[verifier::external_body]
pub struct VxMsg { _p: u8 }
#[verifier::external_body]
pub fn vx_msg() -> VxMsg { unimplemented!() }

#[verifier::allow(undeclared_external_trait)]
pub assume_specification<T: core::cmp::Ord + core::marker::Destruct>[core::cmp::min](a: T, b: T) -> (r: T)
    ensures T::obeys_cmp_spec() ==> r == (if a.cmp_spec(&b) == core::cmp::Ordering::Greater { b } else { a });

#[verifier::allow(undeclared_external_trait)]
pub assume_specification<T: core::cmp::Ord + core::marker::Destruct>[core::cmp::max](a: T, b: T) -> (r: T)
    ensures T::obeys_cmp_spec() ==> r == (if a.cmp_spec(&b) == core::cmp::Ordering::Greater { a } else { b });

} // verus!
