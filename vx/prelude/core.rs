// ---- prelude/core.rs : assumed facts about core / alloc used by every unit (TCB) ----
verus! {

// assumption: 64-bit target (usize == u64)
global size_of usize == 8;

// abort constructs (R7): control never continues, so `false` may be assumed after it.
#[verifier::external_body]
pub fn vx_abort() -> !
    ensures false
{ panic!() }

// in `noabort` functions (C14) reaching an abort construct is a proof obligation
#[verifier::external_body]
pub fn vx_unreachable() -> !
    requires false
{ panic!() }

// opaque message text (R2)
#[verifier::external_body]
pub struct VxMsg { _p: u8 }
#[verifier::external_body]
pub fn vx_msg() -> VxMsg { unimplemented!() }

#[verifier::allow(undeclared_external_trait)]
pub assume_specification<T: core::cmp::Ord + core::marker::Destruct>[core::cmp::min](a: T, b: T) -> (r: T)
    ensures T::obeys_cmp_spec() ==> r == (if a.cmp_spec(&b) == core::cmp::Ordering::Greater { b } else { a });

#[verifier::allow(undeclared_external_trait)]
pub assume_specification<T: core::cmp::Ord + core::marker::Destruct>[core::cmp::max](a: T, b: T) -> (r: T)
    ensures T::obeys_cmp_spec() ==> r == (if a.cmp_spec(&b) == core::cmp::Ordering::Greater { a } else { b });

// slice indexing panics (aborts, R7) when out of bounds
#[verifier::external_body]
pub fn vx_index<T>(s: &[T], i: usize) -> (r: &T)
    ensures i < s@.len(), *r == s@[i as int]
{ &s[i] }

// alloc: slice.to_vec() clones the elements
pub assume_specification<T: core::clone::Clone>[<[T]>::to_vec](s: &[T]) -> (r: Vec<T>)
    ensures r@.len() == s@.len(), forall|i: int| 0 <= i < s@.len() ==> cloned::<T>(#[trigger] s@[i], r@[i]);

// core: equality on byte arrays is element-wise
pub mod vx_axioms {
    use vstd::prelude::*;
    pub broadcast axiom fn axiom_u8_array32_eq(a: [u8; 32], b: [u8; 32])
        ensures <[u8; 32] as vstd::std_specs::cmp::PartialEqSpec<[u8; 32]>>::obeys_eq_spec(),
                (#[trigger] vstd::std_specs::cmp::PartialEqSpec::eq_spec(&a, &b)) == (a@ == b@);
}
broadcast use vx_axioms::axiom_u8_array32_eq;

// `.expect(..)` (R7): aborts unless a value is present
pub trait VxExpect<T>: Sized {
    spec fn vx_has(self, r: T) -> bool;
    fn vx_expect(self) -> (r: T)
        ensures self.vx_has(r);
}
impl<T> VxExpect<T> for Option<T> {
    open spec fn vx_has(self, r: T) -> bool { self == Some(r) }
    #[verifier::external_body]
    fn vx_expect(self) -> (r: T) { unimplemented!() }
}
impl<T, E> VxExpect<T> for Result<T, E> {
    open spec fn vx_has(self, r: T) -> bool { self == Ok::<T, E>(r) }
    #[verifier::external_body]
    fn vx_expect(self) -> (r: T) { unimplemented!() }
}


} // verus!
verus! {
// Vec::drain(..) consumed by a for loop, and its reversal (R18): the drained elements in order / in reverse
#[verifier::external_body]
pub fn vx_drain<T>(v: &mut Vec<T>) -> (r: Vec<T>)
    ensures r@ == old(v)@, final(v)@.len() == 0
{ v.drain(..).collect() }
#[verifier::external_body]
pub fn vx_drain_rev<T>(v: &mut Vec<T>) -> (r: Vec<T>)
    ensures r@ == old(v)@.reverse(), final(v)@.len() == 0
{ v.drain(..).rev().collect() }
} // verus!
verus! {
// `opt.as_ref() == Some(r)` on Option<&T> (manual anchor in monitor on_*_block_end): structural comparison
#[verifier::external_body]
pub fn vx_opt_ref_eq<T: PartialEq>(o: &Option<T>, r: &T) -> (b: bool)
    ensures b == (*o == Some(*r))
{ o.as_ref() == Some(r) }

// Vec::dedup: consecutive equal elements collapse to the first of the run
pub open spec fn spec_dedup<T>(s: Seq<T>) -> Seq<T>
    decreases s.len()
{
    if s.len() <= 1 { s } else {
        let d = spec_dedup(s.drop_last());
        if s.last() == s[s.len() - 2] { d } else { d.push(s.last()) }
    }
}
pub assume_specification<T: core::cmp::PartialEq, A: core::alloc::Allocator>[ Vec::<T, A>::dedup ](v: &mut Vec<T, A>)
    ensures final(v)@ == spec_dedup(old(v)@);

pub assume_specification<T: Copy>[ Option::<&T>::copied ](o: Option<&T>) -> (r: Option<T>)
    ensures r == (match o { Some(v) => Some(*v), None => None::<T> });

// <[T]>::sort (reached through Vec's DerefMut): a permutation of the elements (order not specified here)
pub assume_specification<T: core::cmp::Ord>[ <[T]>::sort ](s: &mut [T])
    ensures final(s)@.to_multiset() == old(s)@.to_multiset(), final(s)@.len() == old(s)@.len();
} // verus!
