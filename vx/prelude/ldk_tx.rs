// ---- prelude/ldk_tx.rs : LDK / bitcoin transaction building and sighash (TCB, R5) ----
// Every builder is an uninterpreted, deterministic function of exactly its arguments.
verus! {

pub enum EcdsaSighashType { All, SinglePlusAnyoneCanPay }
impl Clone for EcdsaSighashType { #[verifier::external_body] fn clone(&self) -> (r: Self) ensures r == *self { unimplemented!() } }
impl Copy for EcdsaSighashType {}

pub uninterp spec fn funding_redeemscript(a: PublicKey, b: PublicKey) -> ScriptBuf;
#[verifier::external_body]
pub fn make_funding_redeemscript(a: &PublicKey, b: &PublicKey) -> (r: ScriptBuf)
    ensures r == funding_redeemscript(*a, *b)
{ unimplemented!() }

// sighash of input `idx` of `tx` for a p2wsh spend of `script` worth `value`
pub uninterp spec fn sighash_p2wsh(tx: Transaction, idx: nat, script: ScriptBuf, value_sat: u64, ty: EcdsaSighashType) -> Seq<u8>;
pub uninterp spec fn message_of_digest(d: Seq<u8>) -> Message;

#[verifier::external_body]
pub struct SighashCache { _p: u8 }
#[verifier::external_body]
pub struct SegwitV0Sighash { _p: u8 }
#[verifier::external_body]
pub struct SighashError { _p: u8 }
impl SighashCache {
    pub uninterp spec fn tx(&self) -> Transaction;
    #[verifier::external_body]
    pub fn new(tx: &Transaction) -> (r: SighashCache) ensures r.tx() == *tx { unimplemented!() }
    #[verifier::external_body]
    pub fn p2wsh_signature_hash(&mut self, idx: usize, script: &ScriptBuf, value: Amount, ty: EcdsaSighashType)
        -> (r: Result<SegwitV0Sighash, SighashError>)
        ensures r.is_ok() ==> (r->Ok_0)@ == sighash_p2wsh(old(self).tx(), idx as nat, *script, amount_sat(value), ty)
    { unimplemented!() }
}
impl PartialEq for SegwitV0Sighash { #[verifier::external_body] fn eq(&self, other: &Self) -> (r: bool) { unimplemented!() } }
impl vstd::std_specs::cmp::PartialEqSpecImpl for SegwitV0Sighash {
    open spec fn obeys_eq_spec() -> bool { true }
    open spec fn eq_spec(&self, other: &Self) -> bool { self@ == other@ }
}
impl SegwitV0Sighash {
    pub uninterp spec fn view(&self) -> Seq<u8>;
    #[verifier::external_body]
    pub fn to_byte_array(self) -> (r: [u8; 32]) ensures r@ == self@ { unimplemented!() }
}
impl Message {
    #[verifier::external_body]
    pub fn from_digest(d: [u8; 32]) -> (r: Message) ensures r == message_of_digest(d@) { unimplemented!() }
}

// ---- commitment transactions ---------------------------------------------------------------
pub uninterp spec fn ctx_built_tx(c: CommitmentTransaction) -> Transaction;
pub uninterp spec fn ctx_txid(c: CommitmentTransaction) -> Txid;
pub uninterp spec fn ctx_htlcs(c: CommitmentTransaction) -> Seq<HTLCOutputInCommitment>;
pub uninterp spec fn ctx_keys(c: CommitmentTransaction) -> TxCreationKeys;
pub uninterp spec fn ctx_commitment_number(c: CommitmentTransaction) -> u64;   // backwards counting, as LDK

pub struct BuiltCommitmentTransaction { pub transaction: Transaction, pub txid: Txid }
// BuiltCommitmentTransaction::sign_counterparty_commitment: ECDSA over the SIGHASH_ALL sighash of the funding input
pub uninterp spec fn ecdsa_sign(msg: Message, sk: SecretKey) -> Signature;
impl BuiltCommitmentTransaction {
    #[verifier::external_body]
    pub fn sign_counterparty_commitment(&self, funding_key: &SecretKey, redeemscript: &ScriptBuf, value_sat: u64, secp: &VxSecp) -> (r: Signature)
        ensures r == ecdsa_sign(message_of_digest(sighash_p2wsh(self.transaction, 0, *redeemscript, value_sat, EcdsaSighashType::All)), *funding_key)
    { unimplemented!() }
}
#[verifier::external_body]
pub struct TrustedCommitmentTransaction { _p: u8 }
impl CommitmentTransaction {
    #[verifier::external_body]
    pub fn trust(&self) -> (r: TrustedCommitmentTransaction) ensures r.inner() == *self { unimplemented!() }
    #[verifier::external_body]
    pub fn htlcs(&self) -> (r: &Vec<HTLCOutputInCommitment>) ensures r@ == ctx_htlcs(*self) { unimplemented!() }
}
impl TrustedCommitmentTransaction {
    pub uninterp spec fn inner(&self) -> CommitmentTransaction;
    #[verifier::external_body]
    pub fn built_transaction(&self) -> (r: &BuiltCommitmentTransaction)
        ensures r.transaction == ctx_built_tx(self.inner()), r.txid == ctx_txid(self.inner())
    { unimplemented!() }
    #[verifier::external_body]
    pub fn txid(&self) -> (r: Txid) ensures r == ctx_txid(self.inner()) { unimplemented!() }
    #[verifier::external_body]
    pub fn keys(&self) -> (r: &TxCreationKeys) ensures *r == ctx_keys(self.inner()) { unimplemented!() }
    #[verifier::external_body]
    pub fn commitment_number(&self) -> (r: u64) ensures r == ctx_commitment_number(self.inner()) { unimplemented!() }
}

// second-level HTLC transactions
pub uninterp spec fn htlc_redeemscript(htlc: HTLCOutputInCommitment, features: ChannelTypeFeatures, keys: TxCreationKeys) -> ScriptBuf;
#[verifier::external_body]
pub fn get_htlc_redeemscript(htlc: &HTLCOutputInCommitment, features: &ChannelTypeFeatures, keys: &TxCreationKeys) -> (r: ScriptBuf)
    ensures r == htlc_redeemscript(*htlc, *features, *keys)
{ unimplemented!() }
pub uninterp spec fn htlc_tx(txid: Txid, feerate: u32, delay: u16, htlc: HTLCOutputInCommitment, features: ChannelTypeFeatures,
    delayed: VxKeyWrap, revocation: VxKeyWrap) -> Transaction;
#[verifier::external_body]
pub fn build_htlc_transaction(txid: &Txid, feerate: u32, delay: u16, htlc: &HTLCOutputInCommitment, features: &ChannelTypeFeatures,
    delayed: &VxKeyWrap, revocation: &VxKeyWrap) -> (r: Transaction)
    ensures r == htlc_tx(*txid, feerate, delay, *htlc, *features, *delayed, *revocation)
{ unimplemented!() }

pub uninterp spec fn derived_public_key(point: PublicKey, base: PublicKey) -> PublicKey;
#[verifier::external_body]
pub fn derive_public_key(secp: &VxSecp, point: &PublicKey, base: &PublicKey) -> (r: Result<PublicKey, SecpError>)
    ensures r.is_ok() ==> r->Ok_0 == derived_public_key(*point, *base)
{ unimplemented!() }

} // verus!
