// ---- prelude/hashes.rs : bitcoin::hashes stubs (TCB): SHA-256 is an uninterpreted deterministic function ----
verus! {
pub uninterp spec fn sha256_spec(s: Seq<u8>) -> Seq<u8>;
pub broadcast axiom fn axiom_sha256_len(s: Seq<u8>)
    ensures #[trigger] sha256_spec(s).len() == 32;

#[verifier::external_body]
pub struct Sha256 { _p: [u8; 32] }
impl Sha256 {
    pub uninterp spec fn view(&self) -> Seq<u8>;
    #[verifier::external_body]
    pub fn hash(data: &[u8]) -> (r: Sha256) ensures r@ == sha256_spec(data@) { unimplemented!() }
    #[verifier::external_body]
    pub fn to_byte_array(self) -> (r: [u8; 32]) ensures r@ == self@ { unimplemented!() }
}
} // verus!
