"""Minimal Rust-aware scanner: tokens, brace matching, item lookup.

It is *not* a parser.  It knows comments (nested block comments), string / raw
string / byte string / char literals, lifetimes, identifiers, numbers and
punctuation, which is what is needed to find items and bodies reliably and to
rewrite macro invocations without being fooled by braces inside strings.
"""
import re

IDENT_START = set("abcdefghijklmnopqrstuvwxyzABCDEFGHIJKLMNOPQRSTUVWXYZ_")
IDENT_CONT = IDENT_START | set("0123456789")
OPEN = {"(": ")", "[": "]", "{": "}"}
CLOSE = {")": "(", "]": "[", "}": "{"}


class Tok:
    __slots__ = ("kind", "text", "start", "end")

    def __init__(self, kind, text, start, end):
        self.kind, self.text, self.start, self.end = kind, text, start, end

    def __repr__(self):
        return "Tok(%s,%r,%d)" % (self.kind, self.text, self.start)


def tokenize(src):
    """Return list of Tok. kinds: ws comment doc str char life ident num punct"""
    toks = []
    i, n = 0, len(src)
    while i < n:
        c = src[i]
        if c in " \t\r\n":
            j = i + 1
            while j < n and src[j] in " \t\r\n":
                j += 1
            toks.append(Tok("ws", src[i:j], i, j))
            i = j
            continue
        if c == "/" and i + 1 < n and src[i + 1] == "/":
            j = src.find("\n", i)
            if j < 0:
                j = n
            toks.append(Tok("comment", src[i:j], i, j))
            i = j
            continue
        if c == "/" and i + 1 < n and src[i + 1] == "*":
            depth, j = 1, i + 2
            while j < n and depth > 0:
                if src.startswith("/*", j):
                    depth += 1
                    j += 2
                elif src.startswith("*/", j):
                    depth -= 1
                    j += 2
                else:
                    j += 1
            toks.append(Tok("comment", src[i:j], i, j))
            i = j
            continue
        # raw / byte strings
        m = re.compile(r'(?:br|rb|r)(#*)"').match(src, i)
        if m and (i == 0 or src[i - 1] not in IDENT_CONT):
            hashes = m.group(1)
            endpat = '"' + hashes
            j = src.find(endpat, m.end())
            j = n if j < 0 else j + len(endpat)
            toks.append(Tok("str", src[i:j], i, j))
            i = j
            continue
        if c == '"' or (c == "b" and i + 1 < n and src[i + 1] == '"'):
            j = i + (2 if c == "b" else 1)
            while j < n and src[j] != '"':
                j += 2 if src[j] == "\\" else 1
            j = min(j + 1, n)
            toks.append(Tok("str", src[i:j], i, j))
            i = j
            continue
        if c == "'" or (c == "b" and i + 1 < n and src[i + 1] == "'"):
            k = i + (1 if c == "b" else 0)
            # char literal or lifetime
            if k + 1 < n and src[k + 1] == "\\":
                j = k + 2
                while j < n and src[j] != "'":
                    j += 1
                j += 1
                toks.append(Tok("char", src[i:j], i, j))
                i = j
                continue
            if k + 2 < n and src[k + 2] == "'":
                toks.append(Tok("char", src[i:k + 3], i, k + 3))
                i = k + 3
                continue
            # lifetime
            j = k + 1
            while j < n and src[j] in IDENT_CONT:
                j += 1
            toks.append(Tok("life", src[i:j], i, j))
            i = j
            continue
        if c in IDENT_START:
            j = i + 1
            while j < n and src[j] in IDENT_CONT:
                j += 1
            toks.append(Tok("ident", src[i:j], i, j))
            i = j
            continue
        if c.isdigit():
            j = i + 1
            while j < n and (src[j] in IDENT_CONT or (src[j] == "." and j + 1 < n and src[j + 1].isdigit())):
                j += 1
            toks.append(Tok("num", src[i:j], i, j))
            i = j
            continue
        toks.append(Tok("punct", c, i, i + 1))
        i += 1
    return toks


def code_indices(toks):
    return [k for k, t in enumerate(toks) if t.kind not in ("ws", "comment")]


def match_close(toks, k):
    """toks[k] is an opening bracket; return index of the matching closer."""
    depth = 0
    for j in range(k, len(toks)):
        t = toks[j]
        if t.kind == "punct":
            if t.text in OPEN:
                depth += 1
            elif t.text in CLOSE:
                depth -= 1
                if depth == 0:
                    return j
    raise ValueError("unbalanced bracket at offset %d" % toks[k].start)


def strip_comments(src):
    """Replace comments by whitespace, keeping newlines and offsets."""
    out = []
    for t in tokenize(src):
        if t.kind == "comment":
            out.append("".join(ch if ch == "\n" else " " for ch in t.text))
        else:
            out.append(t.text)
    return "".join(out)


def norm(text):
    """Whitespace/comment-insensitive normal form of a code fragment."""
    return " ".join(t.text for t in tokenize(text) if t.kind not in ("ws", "comment"))


def split_top_commas(text):
    """Split a macro/arg list at top-level commas (comments already stripped)."""
    toks = tokenize(text)
    parts, depth, cur = [], 0, 0
    angle = 0
    for t in toks:
        if t.kind == "punct":
            if t.text in OPEN:
                depth += 1
            elif t.text in CLOSE:
                depth -= 1
            elif t.text == "," and depth == 0:
                parts.append(text[cur:t.start])
                cur = t.end
    last = text[cur:]
    if last.strip():
        parts.append(last)
    return [p.strip() for p in parts]


class Item:
    def __init__(self, kind, name, header, start, body_open, end, toks_range):
        self.kind, self.name, self.header = kind, name, header
        self.start, self.body_open, self.end = start, body_open, end
        self.toks_range = toks_range


class RustFile:
    def __init__(self, path, src=None):
        self.path = path
        self.src = open(path).read() if src is None else src
        self.toks = tokenize(self.src)
        self._line_starts = [0]
        for m in re.finditer("\n", self.src):
            self._line_starts.append(m.end())

    def line_of(self, off):
        import bisect
        return bisect.bisect_right(self._line_starts, off)

    # -- generic scanning -------------------------------------------------
    def _scan_block(self, lo, hi, want, out, in_test=False):
        """Scan tokens [lo,hi) at one nesting level; descend into mod blocks."""
        toks = self.toks
        k = lo
        pending_attrs = []
        while k < hi:
            t = toks[k]
            if t.kind in ("ws", "comment"):
                k += 1
                continue
            if t.kind == "punct" and t.text == "#":
                # attribute: # [ ... ]  or #![...]
                j = k + 1
                while toks[j].kind in ("ws",) or (toks[j].kind == "punct" and toks[j].text == "!"):
                    j += 1
                if toks[j].kind == "punct" and toks[j].text == "[":
                    e = match_close(toks, j)
                    pending_attrs.append(self.src[toks[k].start:toks[e].end])
                    k = e + 1
                    continue
            if t.kind == "punct" and t.text in OPEN:
                k = match_close(toks, k) + 1
                pending_attrs = []
                continue
            if t.kind == "ident" and t.text in ("impl", "trait", "mod", "struct", "enum", "fn", "const", "static", "type", "union", "macro_rules"):
                kw = t.text
                if kw == "const":
                    nx = k + 1
                    while nx < hi and toks[nx].kind in ("ws", "comment"):
                        nx += 1
                    if nx < hi and toks[nx].kind == "ident" and toks[nx].text in ("fn", "unsafe", "async", "extern"):
                        k += 1
                        continue
                # find header end: first `{` or `;` outside () and []
                j = k + 1
                depth = 0
                while j < hi:
                    tt = toks[j]
                    if tt.kind == "punct":
                        if tt.text in "([":
                            depth += 1
                        elif tt.text in ")]":
                            depth -= 1
                        elif depth == 0 and tt.text in "{;":
                            break
                        elif depth == 0 and tt.text == "=" and kw in ("const", "static", "type"):
                            # const X: T = expr ;  -> scan to `;` at depth 0 over all brackets
                            d2 = 0
                            while j < hi:
                                t2 = toks[j]
                                if t2.kind == "punct":
                                    if t2.text in OPEN:
                                        d2 += 1
                                    elif t2.text in CLOSE:
                                        d2 -= 1
                                    elif t2.text == ";" and d2 == 0:
                                        break
                                j += 1
                            break
                    j += 1
                if j >= hi:
                    break
                is_test = in_test or any("cfg(test)" in a.replace(" ", "") for a in pending_attrs)
                # item start including visibility
                s = k
                b = k - 1
                while b >= lo and toks[b].kind in ("ws", "comment"):
                    b -= 1
                # walk back over qualifiers: pub, pub(crate), unsafe, async, const, extern "C", default
                while b >= lo:
                    tb = toks[b]
                    if tb.kind == "ident" and tb.text in ("pub", "unsafe", "async", "const", "extern", "default"):
                        s = b
                    elif tb.kind == "str":
                        s = b
                    elif tb.kind == "punct" and tb.text == ")":
                        # pub(crate)
                        d = 0
                        bb = b
                        while bb >= lo:
                            if toks[bb].kind == "punct" and toks[bb].text == ")":
                                d += 1
                            elif toks[bb].kind == "punct" and toks[bb].text == "(":
                                d -= 1
                                if d == 0:
                                    break
                            bb -= 1
                        b2 = bb - 1
                        while b2 >= lo and toks[b2].kind in ("ws", "comment"):
                            b2 -= 1
                        if b2 >= lo and toks[b2].kind == "ident" and toks[b2].text == "pub":
                            s = b2
                            b = b2
                        else:
                            break
                    else:
                        break
                    b -= 1
                    while b >= lo and toks[b].kind in ("ws", "comment"):
                        b -= 1
                header = self.src[toks[k].start:toks[j].start]
                # item name
                name = None
                ci = [x for x in range(k + 1, j) if toks[x].kind not in ("ws", "comment")]
                if kw in ("struct", "enum", "trait", "mod", "fn", "const", "static", "type", "union"):
                    for x in ci:
                        if toks[x].kind == "ident" and toks[x].text not in ("unsafe", "fn", "mut"):
                            name = toks[x].text
                            break
                if toks[j].text == "{":
                    e = match_close(toks, j)
                    item = Item(kw, name, header, toks[s].start, toks[j].start, toks[e].end, (k, j, e))
                else:
                    e = j
                    item = Item(kw, name, header, toks[s].start, None, toks[e].end, (k, j, e))
                item.attrs = pending_attrs
                item.is_test = is_test
                out.append(item)
                if kw == "mod" and toks[j].text == "{":
                    self._scan_block(j + 1, e, want, out, is_test)
                if kw in ("impl", "trait") and toks[j].text == "{":
                    sub = []
                    self._scan_block(j + 1, e, want, sub, is_test)
                    item.children = sub
                k = e + 1
                pending_attrs = []
                continue
            if t.kind == "punct" and t.text == ";":
                pending_attrs = []
            k += 1

    def items(self):
        if not hasattr(self, "_items"):
            out = []
            self._scan_block(0, len(self.toks), None, out)
            self._items = out
        return self._items

    def find_type(self, name):
        for it in self.items():
            if it.kind in ("struct", "enum") and it.name == name and not it.is_test:
                return it
        return None

    def find_const(self, name, ctx=None, accept=None):
        for it in self.items():
            if ctx and it.kind in ("impl", "trait") and norm(it.header) == norm(ctx):
                for c in getattr(it, "children", []):
                    if c.kind == "const" and c.name == name and (accept is None or accept(c)):
                        return c
            if not ctx and it.kind in ("const", "static") and it.name == name and not it.is_test \
                    and (accept is None or accept(it)):
                return it
        return None

    def find_fn(self, ctx, name):
        """ctx: '-' for free fn, else normalised impl/trait header."""
        found = []
        if ctx in ("-", "", None):
            for it in self.items():
                if it.kind == "fn" and it.name == name and not it.is_test:
                    found.append(it)
        else:
            want = norm(ctx)
            for it in self.items():
                if it.kind in ("impl", "trait") and not it.is_test and norm(it.header) == want:
                    for c in getattr(it, "children", []):
                        if c.kind == "fn" and c.name == name:
                            found.append(c)
        return found
