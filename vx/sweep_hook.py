"""Thorough tier, informational only: a deterministic sample of mechanical mutations (tools/mutsweep.py) of the functions
this property has under contract is applied to scratch copies of the working tree; the evidence file records how many the
contracts kill.  Never changes the verdict: survivors are contract-strength information (many are equivalent or make a
validator stricter), not violations."""
import json
import os
import subprocess
import sys
import tempfile

VX = os.path.dirname(os.path.abspath(__file__))
VERIF = os.path.dirname(VX)


def run(prop, evidence_path, sample=40):
    out = tempfile.mktemp(prefix="vx-sweep-", suffix=".json")
    try:
        p = subprocess.run([sys.executable, os.path.join(VERIF, "tools", "mutsweep.py"), "--prop", prop, "--sample", str(sample),
                            "--kinds", "rel,relflip,bool,neg,dropcheck,dropassign,dropcall,iffalse", "--jobs", "12", "--quiet", "--out", out],
                           stdout=subprocess.PIPE, stderr=subprocess.STDOUT, timeout=700)
        rs = json.load(open(out))
    except Exception as e:      # informational: never fails the check
        print("SWEEP property=%s skipped (%s)" % (prop, type(e).__name__))
        return
    finally:
        if os.path.exists(out):
            os.remove(out)
    c = {}
    for r in rs:
        c[r["verdict"]] = c.get(r["verdict"], 0) + 1
    surv = [{"where": "%s:%d" % (r["file"], r["line"]), "fn": r["fn"], "kind": r["kind"], "old": r["old"], "new": r["new"]}
            for r in rs if r["verdict"] == "survived"]
    try:
        ev = json.load(open(evidence_path))
        ev["coverage"]["mutation_sweep"] = {
            "what": "deterministic sample of single-token / single-statement mutations of the functions under contract for this "
                    "property, each applied to a scratch copy and re-verified (informational: survivors include equivalent "
                    "mutants and mutants that only make a validator stricter)",
            "mutants": len(rs), "killed": c.get("killed", 0), "undecided": c.get("undecided", 0), "survived": c.get("survived", 0),
            "survivors": surv[:25]}
        json.dump(ev, open(evidence_path, "w"), indent=1)
    except Exception:
        pass
    print("SWEEP property=%s mutants=%d killed=%d undecided=%d survived=%d" % (prop, len(rs), c.get("killed", 0),
          c.get("undecided", 0), c.get("survived", 0)))
