// ---- lemmas/velocity_window.rs : C12 over histories (pure spec, about vc_step / vc_accepts only) ----
// A history is a sequence of insert requests (time, amount) with non-decreasing times, run through vc_step from a fresh
// control (restarts restore the state verbatim: [C12.restore.keeps], [C12.load.state]).  Bucket number of a time t: t / I.
pub open spec fn run(vc: VcAbs, ev: Seq<(u64, u64)>) -> VcAbs
    decreases ev.len()
{
    if ev.len() == 0 { vc } else { vc_step(run(vc, ev.drop_last()), ev.last().0, ev.last().1) }
}
pub open spec fn acc_last(vc: VcAbs, ev: Seq<(u64, u64)>) -> bool
    recommends ev.len() > 0
{
    vc_accepts(run(vc, ev.drop_last()), ev.last().0, ev.last().1)
}
pub open spec fn bq(t: u64, i: u32) -> int { t as int / i as int }
pub open spec fn sorted_ev(ev: Seq<(u64, u64)>) -> bool {
    forall|a: int, b: int| 0 <= a <= b < ev.len() ==> ev[a].0 <= ev[b].0
}
pub open spec fn fresh(vc: VcAbs) -> bool {
    abs_wf(vc) && vc.start_sec == 0 && vc.buckets == zeros(vc.buckets.len()) && vc.limit < u64::MAX
}
// approved amounts whose bucket number lies in [lo, hi]
pub open spec fn brange(vc: VcAbs, ev: Seq<(u64, u64)>, lo: int, hi: int) -> nat
    decreases ev.len()
{
    if ev.len() == 0 { 0 } else {
        brange(vc, ev.drop_last(), lo, hi)
            + (if acc_last(vc, ev) && lo <= bq(ev.last().0, vc.bucket_interval) <= hi { ev.last().1 as nat } else { 0 })
    }
}
// approved amounts with time >= a
pub open spec fn wsum(vc: VcAbs, ev: Seq<(u64, u64)>, a: u64) -> nat
    decreases ev.len()
{
    if ev.len() == 0 { 0 } else {
        wsum(vc, ev.drop_last(), a) + (if acc_last(vc, ev) && ev.last().0 >= a { ev.last().1 as nat } else { 0 })
    }
}

proof fn lemma_brange_empty(vc: VcAbs, ev: Seq<(u64, u64)>, lo: int, hi: int)
    requires lo > hi,
    ensures brange(vc, ev, lo, hi) == 0,
    decreases ev.len(),
{
    if ev.len() > 0 { lemma_brange_empty(vc, ev.drop_last(), lo, hi); }
}
proof fn lemma_brange_split(vc: VcAbs, ev: Seq<(u64, u64)>, lo: int, hi: int)
    requires lo <= hi,
    ensures brange(vc, ev, lo, hi) == brange(vc, ev, lo + 1, hi) + brange(vc, ev, lo, lo),
    decreases ev.len(),
{
    if ev.len() > 0 { lemma_brange_split(vc, ev.drop_last(), lo, hi); }
}
proof fn lemma_brange_mono(vc: VcAbs, ev: Seq<(u64, u64)>, lo1: int, lo2: int, hi: int)
    requires lo1 <= lo2,
    ensures brange(vc, ev, lo2, hi) <= brange(vc, ev, lo1, hi),
    decreases ev.len(),
{
    if ev.len() > 0 { lemma_brange_mono(vc, ev.drop_last(), lo1, lo2, hi); }
}
// nothing is counted above the newest bucket number seen
proof fn lemma_brange_above(vc: VcAbs, ev: Seq<(u64, u64)>, lo: int, hi: int, top: int)
    requires forall|k: int| 0 <= k < ev.len() ==> bq(#[trigger] ev[k].0, vc.bucket_interval) <= top, lo > top,
    ensures brange(vc, ev, lo, hi) == 0,
    decreases ev.len(),
{
    if ev.len() > 0 {
        assert forall|k: int| 0 <= k < ev.drop_last().len() implies bq(#[trigger] ev.drop_last()[k].0, vc.bucket_interval) <= top by {
            assert(ev.drop_last()[k] == ev[k]);
        }
        lemma_brange_above(vc, ev.drop_last(), lo, hi, top);
    }
}
// a bucket vector whose j-th entry is what was approved in bucket number cur - j sums to what was approved in the range
proof fn lemma_vsum_is_brange(vc: VcAbs, ev: Seq<(u64, u64)>, s: Seq<u64>, cur: int)
    requires forall|j: int| 0 <= j < s.len() ==> #[trigger] s[j] as nat == brange(vc, ev, cur - j, cur - j),
    ensures vsum(s) == brange(vc, ev, cur - s.len() + 1, cur),
    decreases s.len(),
{
    if s.len() == 0 {
        lemma_brange_empty(vc, ev, cur + 1, cur);
    } else {
        let d = s.drop_last();
        assert forall|j: int| 0 <= j < d.len() implies #[trigger] d[j] as nat == brange(vc, ev, cur - j, cur - j) by { assert(d[j] == s[j]); }
        lemma_vsum_is_brange(vc, ev, d, cur);
        lemma_brange_split(vc, ev, cur - s.len() + 1, cur);
        assert(s.last() == s[s.len() - 1]);
    }
}
