// ---- lemmas/velocity_window.rs : C12 over histories (pure spec, about vc_step / vc_accepts only) ----
// A history is a sequence of insert requests (time, amount) with non-decreasing times, run through vc_step from a fresh
// control (restarts restore the state verbatim: [C12.restore.keeps], [C12.load.state]).  Bucket number of a time t: t / I.
pub open spec fn run(vc: VcAbs, ev: Seq<(u64, u64)>) -> VcAbs
    decreases ev.len()
{
    if ev.len() == 0 { vc } else { vc_step(run(vc, ev.drop_last()), ev.last().0, ev.last().1) }
}
pub open spec fn acc_last(vc: VcAbs, ev: Seq<(u64, u64)>) -> bool
    recommends ev.len() > 0
{
    vc_accepts(run(vc, ev.drop_last()), ev.last().0, ev.last().1)
}
pub open spec fn bq(t: u64, i: u32) -> int { t as int / i as int }
pub open spec fn sorted_ev(ev: Seq<(u64, u64)>) -> bool {
    forall|a: int, b: int| 0 <= a <= b < ev.len() ==> ev[a].0 <= ev[b].0
}
pub open spec fn fresh(vc: VcAbs) -> bool {
    abs_wf(vc) && vc.start_sec == 0 && vc.buckets == zeros(vc.buckets.len()) && vc.limit < u64::MAX
}
// approved amounts whose bucket number lies in [lo, hi]
pub open spec fn brange(vc: VcAbs, ev: Seq<(u64, u64)>, lo: int, hi: int) -> nat
    decreases ev.len()
{
    if ev.len() == 0 { 0 } else {
        brange(vc, ev.drop_last(), lo, hi)
            + (if acc_last(vc, ev) && lo <= bq(ev.last().0, vc.bucket_interval) <= hi { ev.last().1 as nat } else { 0 })
    }
}
// approved amounts with time >= a
pub open spec fn wsum(vc: VcAbs, ev: Seq<(u64, u64)>, a: u64) -> nat
    decreases ev.len()
{
    if ev.len() == 0 { 0 } else {
        wsum(vc, ev.drop_last(), a) + (if acc_last(vc, ev) && ev.last().0 >= a { ev.last().1 as nat } else { 0 })
    }
}

proof fn lemma_brange_empty(vc: VcAbs, ev: Seq<(u64, u64)>, lo: int, hi: int)
    requires lo > hi,
    ensures brange(vc, ev, lo, hi) == 0,
    decreases ev.len(),
{
    if ev.len() > 0 { lemma_brange_empty(vc, ev.drop_last(), lo, hi); }
}
proof fn lemma_brange_split(vc: VcAbs, ev: Seq<(u64, u64)>, lo: int, hi: int)
    requires lo <= hi,
    ensures brange(vc, ev, lo, hi) == brange(vc, ev, lo + 1, hi) + brange(vc, ev, lo, lo),
    decreases ev.len(),
{
    if ev.len() > 0 { lemma_brange_split(vc, ev.drop_last(), lo, hi); }
}
proof fn lemma_brange_mono(vc: VcAbs, ev: Seq<(u64, u64)>, lo1: int, lo2: int, hi: int)
    requires lo1 <= lo2,
    ensures brange(vc, ev, lo2, hi) <= brange(vc, ev, lo1, hi),
    decreases ev.len(),
{
    if ev.len() > 0 { lemma_brange_mono(vc, ev.drop_last(), lo1, lo2, hi); }
}
// nothing is counted above the newest bucket number seen
proof fn lemma_brange_above(vc: VcAbs, ev: Seq<(u64, u64)>, lo: int, hi: int, top: int)
    requires forall|k: int| 0 <= k < ev.len() ==> bq(#[trigger] ev[k].0, vc.bucket_interval) <= top, lo > top,
    ensures brange(vc, ev, lo, hi) == 0,
    decreases ev.len(),
{
    if ev.len() > 0 {
        assert forall|k: int| 0 <= k < ev.drop_last().len() implies bq(#[trigger] ev.drop_last()[k].0, vc.bucket_interval) <= top by {
            assert(ev.drop_last()[k] == ev[k]);
        }
        lemma_brange_above(vc, ev.drop_last(), lo, hi, top);
    }
}
// a bucket vector whose j-th entry is what was approved in bucket number cur - j sums to what was approved in the range
proof fn lemma_vsum_is_brange(vc: VcAbs, ev: Seq<(u64, u64)>, s: Seq<u64>, cur: int)
    requires forall|j: int| 0 <= j < s.len() ==> #[trigger] s[j] as nat == brange(vc, ev, cur - j, cur - j),
    ensures vsum(s) == brange(vc, ev, cur - s.len() + 1, cur),
    decreases s.len(),
{
    if s.len() == 0 {
        lemma_brange_empty(vc, ev, cur + 1, cur);
    } else {
        let d = s.drop_last();
        assert forall|j: int| 0 <= j < d.len() implies #[trigger] d[j] as nat == brange(vc, ev, cur - j, cur - j) by { assert(d[j] == s[j]); }
        lemma_vsum_is_brange(vc, ev, d, cur);
        lemma_brange_split(vc, ev, cur - s.len() + 1, cur);
        assert(s.last() == s[s.len() - 1]);
    }
}

// ---- arithmetic of bucket numbers ----
proof fn lemma_bucket_arith(t: int, i: int, c: int)
    requires i > 0, t >= 0, c >= 0, c * i <= t,
    ensures
        (t - c * i) / i == t / i - c,
        t - t % i == (t / i) * i,
        ((t / i) * i) / i == t / i,
        ((t / i) * i) % i == 0,
        t / i >= c,
{
    let q = t / i;
    let r = t % i;
    vstd::arithmetic::div_mod::lemma_fundamental_div_mod(t, i);
    assert(t == i * q + r);
    assert(0 <= r < i) by { vstd::arithmetic::div_mod::lemma_mod_bound(t, i); }
    assert(i * q == q * i) by(nonlinear_arith);
    assert((q - c) * i == q * i - c * i) by(nonlinear_arith);
    assert(q >= c) by(nonlinear_arith) requires c * i <= t, t == q * i + r, 0 <= r < i, i > 0;
    vstd::arithmetic::div_mod::lemma_fundamental_div_mod_converse(t - c * i, i, q - c, r);
    vstd::arithmetic::div_mod::lemma_fundamental_div_mod_converse(q * i, i, q, 0);
}

// ---- the history invariant: bucket j holds exactly what was approved in bucket number cur - j ----
pub open spec fn hist_inv(vc0: VcAbs, ev: Seq<(u64, u64)>) -> bool {
    let s = run(vc0, ev);
    let i = vc0.bucket_interval;
    let cur = s.start_sec as int / i as int;
    &&& s.bucket_interval == i && s.limit == vc0.limit && s.buckets.len() == vc0.buckets.len()
    &&& s.start_sec as int == cur * i
    &&& forall|k: int| 0 <= k < ev.len() ==> bq(#[trigger] ev[k].0, i) <= cur
    &&& (ev.len() > 0 ==> s.start_sec <= ev.last().0)
    &&& forall|j: int| 0 <= j < s.buckets.len() ==> #[trigger] s.buckets[j] as nat == brange(vc0, ev, cur - j, cur - j)
    &&& vsum(s.buckets) <= vc0.limit
}

// shape of one step (arithmetic only, no history)
proof fn lemma_step_shape(s0: VcAbs, t: u64, amt: u64, cur0: int)
    requires abs_wf(s0), s0.start_sec as int == cur0 * s0.bucket_interval, s0.start_sec <= t, cur0 >= 0,
    ensures ({
        let i = s0.bucket_interval as int;
        let n = s0.buckets.len() as int;
        let cur = t as int / i;
        let d = cur - cur0;
        let s = vc_step(s0, t, amt);
        let sh = vc_shifted(s0, t);
        &&& d >= 0
        &&& s.start_sec as int == cur * i && s.start_sec as int / i == cur && s.start_sec <= t
        &&& s.bucket_interval == s0.bucket_interval && s.limit == s0.limit && s.buckets.len() == n && sh.len() == n
        &&& forall|j: int| 0 <= j < n && j < d ==> #[trigger] sh[j] == 0
        &&& forall|j: int| 0 <= j < n && j >= d ==> #[trigger] sh[j] == s0.buckets[j - d]
        &&& s.buckets == (if vc_accepts(s0, t, amt) { sh.update(0, sat(sh[0] as nat + amt as nat)) } else { sh })
    }),
{
    let i = s0.bucket_interval as int;
    let n = s0.buckets.len() as int;
    lemma_bucket_arith(t as int, i, cur0);
    let cur = t as int / i;
    let d = cur - cur0;
    assert(((t - s0.start_sec) / s0.bucket_interval as int) == d);
    let ns = vc_nshift(s0, t);
    assert(ns == (if d < n { d as nat } else { n as nat }));
    let sh = vc_shifted(s0, t);
    assert(sh == zeros(ns) + s0.buckets.take(n - ns));
    assert(sh.len() == n);
    assert forall|j: int| 0 <= j < n && j < d implies #[trigger] sh[j] == 0 by { }
    assert forall|j: int| 0 <= j < n && j >= d implies #[trigger] sh[j] == s0.buckets[j - d] by {
        assert(ns == d);
        assert(sh[j] == s0.buckets.take(n - ns)[j - ns]);
    }
    assert((t - (t % s0.bucket_interval as u64)) as int == cur * i) by {
        assert(t as int % i == (t % s0.bucket_interval as u64) as int);
    }
}

proof fn lemma_hist_base(vc0: VcAbs)
    requires fresh(vc0),
    ensures hist_inv(vc0, Seq::<(u64, u64)>::empty()),
{
    let ev = Seq::<(u64, u64)>::empty();
    let i = vc0.bucket_interval as int;
    lemma_vsum_zeros(vc0.buckets.len());
    assert(run(vc0, ev) == vc0);
    assert(0int / i == 0) by { vstd::arithmetic::div_mod::lemma_fundamental_div_mod_converse(0, i, 0, 0); }
    assert forall|j: int| 0 <= j < vc0.buckets.len() implies #[trigger] vc0.buckets[j] as nat == brange(vc0, ev, 0 - j, 0 - j) by { }
}

// the per-bucket part of the step: every bucket of the new state holds what the extended history approved in it
proof fn lemma_hist_step_buckets(vc0: VcAbs, ev: Seq<(u64, u64)>, cur0: int)
    requires
        ev.len() > 0, fresh(vc0),
        ({
            let p = ev.drop_last();
            let s0 = run(vc0, p);
            &&& abs_wf(s0) && s0.bucket_interval == vc0.bucket_interval && s0.limit == vc0.limit && s0.buckets.len() == vc0.buckets.len()
            &&& s0.start_sec as int == cur0 * vc0.bucket_interval && cur0 >= 0 && s0.start_sec <= ev.last().0
            &&& forall|k: int| 0 <= k < p.len() ==> bq(#[trigger] p[k].0, vc0.bucket_interval) <= cur0
            &&& forall|j: int| 0 <= j < s0.buckets.len() ==> #[trigger] s0.buckets[j] as nat == brange(vc0, p, cur0 - j, cur0 - j)
            &&& vsum(s0.buckets) <= vc0.limit
        }),
    ensures ({
        let s = run(vc0, ev);
        let cur = ev.last().0 as int / vc0.bucket_interval as int;
        &&& forall|j: int| 0 <= j < s.buckets.len() ==> #[trigger] s.buckets[j] as nat == brange(vc0, ev, cur - j, cur - j)
        &&& vsum(s.buckets) <= vc0.limit
    }),
{
    let i = vc0.bucket_interval;
    let n = vc0.buckets.len() as int;
    let p = ev.drop_last();
    let t = ev.last().0;
    let amt = ev.last().1;
    let s0 = run(vc0, p);
    lemma_step_shape(s0, t, amt, cur0);
    let cur = t as int / i as int;
    let d = cur - cur0;
    let s = run(vc0, ev);
    assert(s == vc_step(s0, t, amt));
    let sh = vc_shifted(s0, t);
    assert forall|j: int| 0 <= j < n implies #[trigger] sh[j] as nat == brange(vc0, p, cur - j, cur - j) by {
        if j < d {
            lemma_brange_above(vc0, p, cur - j, cur - j, cur0);
        } else {
            assert(sh[j] == s0.buckets[j - d]);
            assert(cur0 - (j - d) == cur - j);
        }
    }
    lemma_vsum_is_brange(vc0, p, sh, cur);
    lemma_vsum_is_brange(vc0, p, s0.buckets, cur0);
    lemma_shift_sum_le(vc0, p, cur0, cur, n);
    assert(vsum(sh) <= vsum(s0.buckets));
    let acc = vc_accepts(s0, t, amt);
    assert(acc == acc_last(vc0, ev));
    if acc {
        assert(vsum(sh) + amt <= vc0.limit);
        lemma_vsum_ge_first(sh);
        lemma_vsum_update(sh, 0, sat(sh[0] as nat + amt as nat));
        assert(s.buckets == sh.update(0, (sh[0] + amt) as u64));
    } else {
        assert(s.buckets == sh);
    }
    assert forall|j: int| 0 <= j < n implies #[trigger] s.buckets[j] as nat == brange(vc0, ev, cur - j, cur - j) by {
        assert(sh[j] as nat == brange(vc0, p, cur - j, cur - j));
        assert(bq(t, i) == cur);
    }
}

proof fn lemma_hist_inv(vc0: VcAbs, ev: Seq<(u64, u64)>)
    requires fresh(vc0), sorted_ev(ev),
    ensures hist_inv(vc0, ev),
    decreases ev.len(),
{
    if ev.len() == 0 {
        lemma_hist_base(vc0);
        assert(ev == Seq::<(u64, u64)>::empty());
    } else {
        let i = vc0.bucket_interval;
        let p = ev.drop_last();
        let t = ev.last().0;
        let amt = ev.last().1;
        assert forall|a: int, b: int| 0 <= a <= b < p.len() implies p[a].0 <= p[b].0 by { assert(p[a] == ev[a] && p[b] == ev[b]); }
        lemma_hist_inv(vc0, p);
        let s0 = run(vc0, p);
        let cur0 = s0.start_sec as int / i as int;
        assert(s0.start_sec <= t) by {
            if p.len() > 0 { assert(p.last() == ev[ev.len() - 2]); assert(ev[ev.len() - 2].0 <= ev[ev.len() - 1].0); }
        }
        assert(cur0 >= 0);
        lemma_step_shape(s0, t, amt, cur0);
        lemma_hist_step_buckets(vc0, ev, cur0);
        let cur = t as int / i as int;
        assert forall|k: int| 0 <= k < ev.len() implies bq(#[trigger] ev[k].0, i) <= cur by {
            if k < p.len() { assert(p[k] == ev[k]); }
        }
    }
}
// what is counted in [cur - n + 1, cur] is at most what was counted in [cur0 - n + 1, cur0] when nothing lies above cur0
proof fn lemma_shift_sum_le(vc: VcAbs, ev: Seq<(u64, u64)>, cur0: int, cur: int, n: int)
    requires cur0 <= cur, forall|k: int| 0 <= k < ev.len() ==> bq(#[trigger] ev[k].0, vc.bucket_interval) <= cur0,
    ensures brange(vc, ev, cur - n + 1, cur) <= brange(vc, ev, cur0 - n + 1, cur0),
    decreases ev.len(),
{
    if ev.len() > 0 {
        assert forall|k: int| 0 <= k < ev.drop_last().len() implies bq(#[trigger] ev.drop_last()[k].0, vc.bucket_interval) <= cur0 by {
            assert(ev.drop_last()[k] == ev[k]);
        }
        lemma_shift_sum_le(vc, ev.drop_last(), cur0, cur, n);
        assert(bq(ev[ev.len() - 1].0, vc.bucket_interval) <= cur0);
    }
}
proof fn lemma_vsum_ge_first(s: Seq<u64>)
    requires s.len() > 0,
    ensures s[0] as nat <= vsum(s),
    decreases s.len(),
{
    if s.len() > 1 { lemma_vsum_ge_first(s.drop_last()); assert(s.drop_last()[0] == s[0]); }
}

// approved amounts with time >= a are among those with bucket number >= bucket(a)
proof fn lemma_wsum_le_brange(vc: VcAbs, ev: Seq<(u64, u64)>, a: u64, top: int)
    requires vc.bucket_interval > 0, forall|k: int| 0 <= k < ev.len() ==> bq(#[trigger] ev[k].0, vc.bucket_interval) <= top,
    ensures wsum(vc, ev, a) <= brange(vc, ev, bq(a, vc.bucket_interval), top),
    decreases ev.len(),
{
    if ev.len() > 0 {
        assert forall|k: int| 0 <= k < ev.drop_last().len() implies bq(#[trigger] ev.drop_last()[k].0, vc.bucket_interval) <= top by {
            assert(ev.drop_last()[k] == ev[k]);
        }
        lemma_wsum_le_brange(vc, ev.drop_last(), a, top);
        assert(bq(ev[ev.len() - 1].0, vc.bucket_interval) <= top);
        if ev.last().0 >= a {
            vstd::arithmetic::div_mod::lemma_div_is_ordered(a as int, ev.last().0 as int, vc.bucket_interval as int);
        }
    }
}

// C12, history form.  After any history of requests (non-decreasing times) on a control that started empty, the amounts
// approved since time `a` stay within the limit whenever the window [a, now] is no longer than the tracked interval
// (number of buckets x bucket length) minus one bucket.  `now` is the time of the latest request; every prefix of a
// history is a history, so this covers every window ending at any request.
pub proof fn c12_window_bound(vc0: VcAbs, ev: Seq<(u64, u64)>, a: u64)
    requires
        fresh(vc0), sorted_ev(ev), ev.len() > 0, a <= ev.last().0,
        ev.last().0 - a <= (vc0.buckets.len() - 1) * vc0.bucket_interval,
    ensures
        wsum(vc0, ev, a) <= vc0.limit,                                                              //[C12.lemma.window-bound]
{
    let i = vc0.bucket_interval as int;
    let n = vc0.buckets.len() as int;
    let t = ev.last().0 as int;
    lemma_hist_inv(vc0, ev);
    let s = run(vc0, ev);
    let cur = s.start_sec as int / i;
    assert(bq(ev[ev.len() - 1].0, vc0.bucket_interval) <= cur);
    // bucket(a) >= bucket(now) - (n - 1)
    let qa = a as int / i;
    let qt = t / i;
    assert(qa >= qt - (n - 1)) by {
        vstd::arithmetic::div_mod::lemma_fundamental_div_mod(a as int, i);
        vstd::arithmetic::div_mod::lemma_fundamental_div_mod(t, i);
        vstd::arithmetic::div_mod::lemma_mod_bound(a as int, i);
        vstd::arithmetic::div_mod::lemma_mod_bound(t, i);
        let ra = a as int % i;
        let rt = t % i;
        assert(i * qt + rt - (i * qa + ra) <= (n - 1) * i);
        assert(i * (qt - qa - (n - 1)) <= ra - rt) by(nonlinear_arith)
            requires i * qt + rt - (i * qa + ra) <= (n - 1) * i;
        assert(qt - qa - (n - 1) <= 0) by(nonlinear_arith)
            requires i * (qt - qa - (n - 1)) <= ra - rt, 0 <= ra < i, 0 <= rt < i, i > 0;
    }
    assert(qt <= cur);
    assert(cur >= 0 && cur * i <= t);
    lemma_bucket_arith(t, i, cur);
    assert(cur <= qt);
    lemma_wsum_le_brange(vc0, ev, a, cur);
    lemma_brange_mono(vc0, ev, cur - n + 1, qa, cur);
    lemma_vsum_is_brange(vc0, ev, s.buckets, cur);
}
