// window lemma (to be filled)
