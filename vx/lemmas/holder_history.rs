// ---- lemmas/holder_history.rs : C01 / C02 over whole request histories (pure spec) ----
// Abstract holder-side state of one channel: the counter, whether a successor is stored, whether a holder
// signature was released, and two ghost sets: the commitment numbers that were accepted together with verifying
// counterparty signatures, and the numbers whose secret has been disclosed / signature released.
pub struct HAbs {
    pub next: nat,
    pub stored: bool,                 // next_holder_commit_info.is_some()
    pub closed: bool,                 // channel_closed
    pub verified: Set<nat>,           // ghost: commitments accepted with verifying signatures (commitment and every HTLC)
    pub disclosed: Set<nat>,          // ghost: secrets handed out
    pub signed: Set<nat>,             // ghost: holder commitments signed for broadcast
}
pub enum HReq {
    Validate(nat, bool),              // validate_holder_commitment_tx*(n, ..) and whether the signature check passed
    Revoke(nat),                      // revoke_previous_holder_commitment(N)
    Activate,                         // activate_initial_commitment
    GetSecret(nat),                   // get_per_commitment_secret(_or_none)(n)
    Sign(nat),                        // sign_holder_commitment_tx_phase2 / _for_recovery / _phase2_redundant / mutual close
    Restart,                          // restore from the store: identity, because every Ok persisted the state (C11)
}
// One accepted request, as established by the postconditions proved on the real functions (strict filter):
//   Validate : [C01.check-sigs.all-verify] [C01.validate-holder.only-next] [C02.validate-holder.closed-no-new-state]
//              [C02.sv-validate-holder.not-revoked]
//   Revoke   : [C01.revoke.advances-from-stored-info] [C01.revoke.secret-bound] [C02.revoke.closed]
//   Activate : [C01.activate.from-stored-info]
//   GetSecret: [C01.secret.bound] [C01.secret-or-none.bound] [C01.stub.never-discloses]
//   Sign     : [C02.get-current-holder.is-current] [C02.sign-holder.is-current] [C02.sign-redundant.not-revoked]
//              [C02.sign-*.marks-closed]
pub open spec fn h_step(s: HAbs, q: HReq) -> HAbs {
    match q {
        HReq::Validate(n, sig_ok) =>
            if sig_ok && n == s.next && !s.closed { HAbs { stored: true, verified: s.verified.insert(n), ..s } } else { s },
        HReq::Revoke(big_n) =>
            if big_n == s.next && s.stored && !s.closed {
                HAbs { next: s.next + 1, stored: false,
                    disclosed: (if big_n >= 1 { s.disclosed.insert((big_n - 1) as nat) } else { s.disclosed }), ..s }
            } else if big_n != s.next && big_n >= 1 && big_n - 1 + 2 <= s.next {
                HAbs { disclosed: s.disclosed.insert((big_n - 1) as nat), ..s }      // retry: release_commitment_secret
            } else { s },
        HReq::Activate => if s.next == 0 && s.stored { HAbs { next: 1, stored: false, ..s } } else { s },
        HReq::GetSecret(n) => if n + 2 <= s.next { HAbs { disclosed: s.disclosed.insert(n), ..s } } else { s },
        HReq::Sign(n) => if n + 2 > s.next && n <= s.next { HAbs { closed: true, signed: s.signed.insert(n), ..s } } else { s },
        HReq::Restart => s,
    }
}
pub open spec fn h_run(s: HAbs, qs: Seq<HReq>) -> HAbs
    decreases qs.len()
{
    if qs.len() == 0 { s } else { h_step(h_run(s, qs.drop_last()), qs.last()) }
}
pub open spec fn h_init() -> HAbs {
    HAbs { next: 0, stored: false, closed: false, verified: Set::empty(), disclosed: Set::empty(), signed: Set::empty() }
}
pub open spec fn h_inv(s: HAbs) -> bool {
    // every commitment that ever became current was accepted with verifying signatures ...
    (forall|m: nat| m < s.next ==> s.verified.contains(m))
    && (s.stored ==> s.verified.contains(s.next))
    // ... a disclosed secret is of a commitment at least two behind the counter ...
    && (forall|n: nat| s.disclosed.contains(n) ==> n + 2 <= s.next)
    // ... a signed commitment is the current one or the stored successor, and signing closes the channel
    && (forall|n: nat| s.signed.contains(n) ==> n + 2 > s.next && s.closed)
}
pub proof fn lemma_h_step_keeps_inv(s: HAbs, q: HReq)
    requires h_inv(s),
    ensures h_inv(h_step(s, q)),
{
}
pub proof fn lemma_h_run_inv(qs: Seq<HReq>)
    ensures h_inv(h_run(h_init(), qs)),
    decreases qs.len()
{
    if qs.len() > 0 {
        lemma_h_run_inv(qs.drop_last());
        lemma_h_step_keeps_inv(h_run(h_init(), qs.drop_last()), qs.last());
    }
}
// C01: over any request history (with restarts), secret n is disclosed only after commitment n+1 was accepted with
// verifying counterparty signatures
pub proof fn c01_history(qs: Seq<HReq>, n: nat)
    requires h_run(h_init(), qs).disclosed.contains(n),
    ensures h_run(h_init(), qs).verified.contains(n + 1),                                         //[C01.lemma.history]
{
    lemma_h_run_inv(qs);
}
// C02: over any request history, no holder commitment is both signed for broadcast and revoked, in either order
pub proof fn c02_history(qs: Seq<HReq>, n: nat)
    ensures !(h_run(h_init(), qs).signed.contains(n) && h_run(h_init(), qs).disclosed.contains(n)),   //[C02.lemma.history]
{
    lemma_h_run_inv(qs);
}
