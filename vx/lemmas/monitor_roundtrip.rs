// roundtrip lemmas (to be filled)
