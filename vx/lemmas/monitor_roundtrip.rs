// ---- lemmas/monitor_roundtrip.rs : C14 "connecting a block and then disconnecting it restores the view" ----
// Pure spec-level lemmas over the reference change algebra of frag/monitor_spec.rs; the real functions are
// tied to fwd_abs / bwd_abs / add_block_abs / remove_block_abs by their (proved) postconditions.

// The double-spend marker is the one field whose undo is not an exact inverse per change (several
// FundingInputSpent of one block share it); everything else is restored change by change.
pub open spec fn no_dsh(a: StAbs) -> StAbs { StAbs { dsh: None, ..a } }

// what the block listener guarantees about a change it emits in state `a` (read off PushListener):
// confirmations are of events that have not happened yet, spends are of outputs unspent on this chain
pub open spec fn rt_applicable(a: StAbs, c: ChAbs) -> bool {
    fwd_applicable(a, c) && match c {
        ChAbs::FundingConfirmed(_) => a.funding_height.is_none() && a.funding_outpoint.is_none(),
        ChAbs::FundingInputSpent(_) => true,
        ChAbs::UnilateralCloseConfirmed(_, _, _, _) => a.closing.is_none() && a.unilateral.is_none(),
        ChAbs::MutualCloseConfirmed(_, _) => a.mutual.is_none(),
        ChAbs::OurOutputSpent(_) => !a.closing->Some_0.our_output->Some_0.1,
        ChAbs::HTLCOutputSpent(v, o2) => {
            let c0 = a.closing->Some_0;
            !c0.htlc_spents[first_pos(c0.htlc_outputs, v)] && !second_contains(c0.second, o2)
        },
        ChAbs::SecondLevelHTLCOutputSpent(o) => !a.closing->Some_0.second[second_first(a.closing->Some_0.second, o)].1,
    }
}

pub proof fn lemma_first_pos(s: Seq<u32>, v: u32)
    requires s.contains(v),
    ensures 0 <= first_pos(s, v) < s.len(), s[first_pos(s, v)] == v,
    decreases s.len()
{
    if s[0] != v {
        let i = choose|i: int| 0 <= i < s.len() && s[i] == v;
        assert(s.drop_first()[i - 1] == v);
        lemma_first_pos(s.drop_first(), v);
    }
}
pub proof fn lemma_second_first(s: Seq<(OutPoint, bool)>, o: OutPoint)
    requires second_contains(s, o),
    ensures 0 <= second_first(s, o) < s.len(), s[second_first(s, o)].0 == o,
    decreases s.len()
{
    if s[0].0 != o {
        let i = choose|i: int| 0 <= i < s.len() && (#[trigger] s[i]).0 == o;
        assert(s.drop_first()[i - 1].0 == o);
        lemma_second_first(s.drop_first(), o);
    }
}
pub proof fn lemma_second_remove_fresh(s: Seq<(OutPoint, bool)>, o: OutPoint)
    requires !second_contains(s, o),
    ensures second_remove(s, o) == s,
    decreases s.len()
{
    reveal(Seq::filter);
    if s.len() > 0 {
        assert(!second_contains(s.drop_last(), o)) by {
            if second_contains(s.drop_last(), o) {
                let i = choose|i: int| 0 <= i < s.drop_last().len() && (#[trigger] s.drop_last()[i]).0 == o;
                assert(s[i].0 == o);
            }
        }
        lemma_second_remove_fresh(s.drop_last(), o);
        assert(s.last().0 != o);
        assert(s =~= s.drop_last().push(s.last()));
    }
}
pub proof fn lemma_second_remove_pushed(s: Seq<(OutPoint, bool)>, o: OutPoint, b: bool)
    requires !second_contains(s, o),
    ensures second_remove(s.push((o, b)), o) == s,
{
    reveal(Seq::filter);
    assert(s.push((o, b)).drop_last() =~= s);
    lemma_second_remove_fresh(s, o);
}

// one change: undoing it restores everything but (possibly) the shared double-spend marker
pub proof fn lemma_change_roundtrip(a: StAbs, c: ChAbs)
    requires rt_applicable(a, c),
    ensures
        bwd_applicable(fwd_abs(a, c), c),                                                        //[C14.lemma.undo-never-aborts]
        no_dsh(bwd_abs(fwd_abs(a, c), c)) == no_dsh(a),                                          //[C14.lemma.change-roundtrip]
        !(c is FundingConfirmed) && !(c is FundingInputSpent) ==> bwd_abs(fwd_abs(a, c), c) == a,
{
    match c {
        ChAbs::HTLCOutputSpent(v, o2) => {
            let c0 = a.closing->Some_0;
            lemma_first_pos(c0.htlc_outputs, v);
            lemma_second_remove_pushed(c0.second, o2, false);
            let i = first_pos(c0.htlc_outputs, v);
            assert(c0.htlc_spents.update(i, true).update(i, false) =~= c0.htlc_spents);
        },
        ChAbs::SecondLevelHTLCOutputSpent(o) => {
            let s = a.closing->Some_0.second;
            lemma_second_first(s, o);
            let i = second_first(s, o);
            let s1 = second_set_spent(s, o, true);
            assert(second_contains(s1, o)) by { assert(s1[i].0 == o); }
            lemma_second_first_stable(s, o, true);
            assert(s1.update(i, (o, false)) =~= s);
        },
        ChAbs::UnilateralCloseConfirmed(t, f, our, idx) => {},
        _ => {},
    }
}
// updating the first match keeps it the first match
pub proof fn lemma_second_first_stable(s: Seq<(OutPoint, bool)>, o: OutPoint, b: bool)
    requires second_contains(s, o),
    ensures second_first(second_set_spent(s, o, b), o) == second_first(s, o),
    decreases s.len()
{
    lemma_second_first(s, o);
    if s[0].0 != o {
        let i = choose|i: int| 0 <= i < s.len() && (#[trigger] s[i]).0 == o;
        assert(s.drop_first()[i - 1].0 == o);
        lemma_second_first_stable(s.drop_first(), o, b);
        lemma_second_first(s.drop_first(), o);
        let k = second_first(s.drop_first(), o);
        assert(second_set_spent(s, o, b).drop_first() =~= second_set_spent(s.drop_first(), o, b));
    }
}

// the non-dsh part of an undo does not read the dsh marker
pub proof fn lemma_bwd_ignores_dsh(x: StAbs, y: StAbs, c: ChAbs)
    requires no_dsh(x) == no_dsh(y),
    ensures no_dsh(bwd_abs(x, c)) == no_dsh(bwd_abs(y, c)), bwd_applicable(x, c) == bwd_applicable(y, c),
{}

// all changes of a block are of the kind the listener can emit, each in the state left by its predecessors
pub open spec fn rt_chain_ok(a: StAbs, cs: Seq<ChAbs>) -> bool
    decreases cs.len()
{
    cs.len() == 0 || (rt_applicable(a, cs[0]) && rt_chain_ok(fwd_abs(a, cs[0]), cs.drop_first()))
}

pub proof fn lemma_fold_bwd_append(a: StAbs, xs: Seq<ChAbs>, c: ChAbs)
    ensures fold_bwd(a, xs.push(c)) == bwd_abs(fold_bwd(a, xs), c)
    decreases xs.len()
{
    reveal_with_fuel(fold_bwd, 3);
    assert(xs.push(c)[0] == (if xs.len() == 0 { c } else { xs[0] }));
    if xs.len() == 0 {
        assert(xs.push(c).drop_first() =~= Seq::<ChAbs>::empty());
    } else {
        assert(xs.push(c).drop_first() =~= xs.drop_first().push(c));
        lemma_fold_bwd_append(bwd_abs(a, xs[0]), xs.drop_first(), c);
    }
}
pub proof fn lemma_bwd_chain_append(a: StAbs, xs: Seq<ChAbs>, c: ChAbs)
    requires bwd_chain_ok(a, xs), bwd_applicable(fold_bwd(a, xs), c),
    ensures bwd_chain_ok(a, xs.push(c))
    decreases xs.len()
{
    reveal_with_fuel(bwd_chain_ok, 3);
    reveal_with_fuel(fold_bwd, 3);
    assert(xs.push(c)[0] == (if xs.len() == 0 { c } else { xs[0] }));
    if xs.len() == 0 {
        assert(xs.push(c).drop_first() =~= Seq::<ChAbs>::empty());
    } else {
        assert(xs.push(c).drop_first() =~= xs.drop_first().push(c));
        lemma_bwd_chain_append(bwd_abs(a, xs[0]), xs.drop_first(), c);
    }
}

// a whole change list: undoing it in reverse order never aborts and restores everything but the dsh marker
pub proof fn lemma_list_roundtrip(a: StAbs, cs: Seq<ChAbs>)
    requires rt_chain_ok(a, cs),
    ensures
        bwd_chain_ok(fold_fwd(a, cs), cs.reverse()),                                             //[C14.lemma.list-undo-never-aborts]
        no_dsh(fold_bwd(fold_fwd(a, cs), cs.reverse())) == no_dsh(a),                            //[C14.lemma.list-roundtrip]
        fwd_chain_ok(a, cs),
    decreases cs.len()
{
    if cs.len() == 0 {
        assert(cs.reverse() =~= Seq::<ChAbs>::empty());
    } else {
        let c = cs[0];
        let rest = cs.drop_first();
        let a1 = fwd_abs(a, c);
        lemma_list_roundtrip(a1, rest);
        let top = fold_fwd(a1, rest);
        assert(fold_fwd(a, cs) == top);
        assert(cs.reverse() =~= rest.reverse().push(c));
        lemma_fold_bwd_append(top, rest.reverse(), c);
        let mid = fold_bwd(top, rest.reverse());
        // mid agrees with a1 up to dsh, so undoing c from mid behaves like undoing it from a1
        lemma_change_roundtrip(a, c);
        lemma_bwd_ignores_dsh(mid, a1, c);
        lemma_bwd_chain_append(top, rest.reverse(), c);
    }
}

// ---- block level: heights and the swept markers -------------------------------------------------
// the swept markers record exactly whether the closing outputs are (all) swept
pub open spec fn swept_inv(a: StAbs) -> bool {
    (a.closing_swept.is_some() == abs_closing_swept(a)) && (a.our_swept.is_some() == abs_our_output_swept(a))
}
pub proof fn lemma_swept_ignores_dsh(x: StAbs, y: StAbs)
    requires no_dsh(x) == no_dsh(y),
    ensures abs_closing_swept(x) == abs_closing_swept(y), abs_our_output_swept(x) == abs_our_output_swept(y),
{}

pub proof fn lemma_block_roundtrip(a: StAbs, cs: Seq<ChAbs>)
    requires
        a.height < u32::MAX - 1, swept_inv(a),
        rt_chain_ok(StAbs { saw_block: true, height: (a.height + 1) as u32, ..a }, cs),
    ensures
        bwd_chain_ok(add_block_abs(a, cs), cs.reverse()),                                         //[C14.lemma.block-undo-never-aborts]
        // connecting a block and disconnecting it again restores the previous view
        no_dsh(remove_block_abs(add_block_abs(a, cs), cs)) == no_dsh(StAbs { saw_block: true, ..a }),   //[C14.lemma.block-roundtrip]
{
    let a1 = StAbs { saw_block: true, height: (a.height + 1) as u32, ..a };
    lemma_list_roundtrip(a1, cs);
    let a2 = fold_fwd(a1, cs);
    let b = add_block_abs(a, cs);
    // b differs from a2 only in the swept markers, which the change algebra neither reads nor writes
    lemma_fold_bwd_markers(a2, b, cs.reverse());
    lemma_fold_fwd_keeps_markers(a1, cs);
    let u = fold_bwd(b, cs.reverse());
    let u2 = fold_bwd(a2, cs.reverse());
    lemma_swept_ignores_dsh(u2, a1);
    lemma_fold_fwd_height(a1, cs);
}
// same state up to the swept markers
pub open spec fn eq_mod_markers(x: StAbs, y: StAbs) -> bool {
    StAbs { closing_swept: None, our_swept: None, ..x } == StAbs { closing_swept: None, our_swept: None, ..y }
}
pub proof fn lemma_fold_bwd_markers(x: StAbs, y: StAbs, cs: Seq<ChAbs>)
    requires eq_mod_markers(x, y), bwd_chain_ok(x, cs),
    ensures
        eq_mod_markers(fold_bwd(x, cs), fold_bwd(y, cs)), bwd_chain_ok(y, cs),
        fold_bwd(y, cs).closing_swept == y.closing_swept, fold_bwd(y, cs).our_swept == y.our_swept,
    decreases cs.len()
{
    if cs.len() > 0 {
        lemma_fold_bwd_markers(bwd_abs(x, cs[0]), bwd_abs(y, cs[0]), cs.drop_first());
    }
}
pub proof fn lemma_fold_fwd_keeps_markers(a: StAbs, cs: Seq<ChAbs>)
    ensures fold_fwd(a, cs).closing_swept == a.closing_swept, fold_fwd(a, cs).our_swept == a.our_swept,
    decreases cs.len()
{
    if cs.len() > 0 { lemma_fold_fwd_keeps_markers(fwd_abs(a, cs[0]), cs.drop_first()); }
}
pub proof fn lemma_fold_fwd_height(a: StAbs, cs: Seq<ChAbs>)
    ensures fold_fwd(a, cs).height == a.height, fold_fwd(a, cs).saw_block == a.saw_block, fold_fwd(a, cs).saw_forget == a.saw_forget,
    decreases cs.len()
{
    if cs.len() > 0 { lemma_fold_fwd_height(fwd_abs(a, cs[0]), cs.drop_first()); }
}

// ---- C15: the "closing swept" marker never outlives the fact it records ----------------------------
// marker set => every output of the closing transaction that belongs to the node is spent on the current chain
pub open spec fn marker_inv(a: StAbs) -> bool { a.closing_swept.is_some() ==> abs_closing_swept(a) }

proof fn lemma_fold_bwd_keeps_markers(a: StAbs, cs: Seq<ChAbs>)
    ensures fold_bwd(a, cs).closing_swept == a.closing_swept, fold_bwd(a, cs).our_swept == a.our_swept,
    decreases cs.len(),
{
    if cs.len() > 0 { lemma_fold_bwd_keeps_markers(bwd_abs(a, cs[0]), cs.drop_first()); }
}
pub proof fn c15_marker_kept_by_remove_block(a: StAbs, cs: Seq<ChAbs>)
    requires marker_inv(a),
    ensures marker_inv(remove_block_abs(a, cs)),                                                  //[C15.lemma.marker-remove-block]
{
    lemma_fold_bwd_keeps_markers(a, cs.reverse());
}

// (The forward direction - a connected block never un-sweeps a swept closing transaction - is not derivable from the
// change algebra alone: it needs the listener's emission discipline (a second close of the same funding output or a
// repeated HTLC spend cannot occur on one chain), which lives in PushListener and is not decided.)
