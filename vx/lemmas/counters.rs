// ---- lemmas/counters.rs : window lemmas over the guards (pure spec) ----

// C03: if the validator accepted commitment `commit_num` (commit_num <= next_revoke + 1, the
// check in validate_counterparty_commitment_tx) and the counter setter accepted commit_num + 1,
// the window invariant is preserved: never more than two unrevoked signed commitments.
pub proof fn lemma_cp_commit_keeps_window(es: EnforcementState, commit_num: u64, point: PublicKey, info: CommitmentInfo2)
    requires
        cp_inv(es),
        commit_num < COMMIT_LIMIT,
        commit_num <= es.next_counterparty_revoke_num + 1,
        cp_commit_guard(es, (commit_num + 1) as u64),
    ensures
        cp_inv(es_set_cp_commit(es, (commit_num + 1) as u64, point, info)),                 //[C03.window.commit-keeps]
        // signing n means everything below n-1 was revoked
        commit_num >= 1 ==> es.next_counterparty_revoke_num + 1 >= commit_num,              //[C03.window.revoked-prefix]
{
}

pub proof fn lemma_cp_revoke_keeps_window(es: EnforcementState, num: u64)
    requires cp_inv(es), cp_revoke_guard(es, num),
    ensures cp_inv(es_set_cp_revoke(es, num)),                                              //[C03.window.revoke-keeps]
{
}
