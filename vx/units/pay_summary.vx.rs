//@unit pay_summary
//@props C06
// Contracts on the per-channel payment summaries (vls-core/src/policy/validator.rs): summarize_payments,
// payments_summary (outgoing: the LARGER of the holder and counterparty views) and incoming_payments_summary
// (incoming: the SMALLER of the two views).  These are the amounts NodeState::validate_payments checks.
use vstd::prelude::*;
use vstd::std_specs::cmp::OrdSpec;
use core::cmp::{max, min};
//@include prelude/core.rs
//@include prelude/deps.rs
//@include frag/enforcement_types.rs
//@map /Map<PaymentHash, u64>/ => VxPayMap
//@map /Map::new\(\)/ => VxPayMap::new()
// R21: hashbrown entry API desugared to get / insert, closure bodies kept verbatim (`e` is bound to the old value)
//@map /(\w+)\.entry\(([^;]+?)\)\.and_modify\(\|e\| \*e \+= ([^;]+?)\)\.or_insert\(([^;]+?)\);/ => { let vx_k = \2; match \1.vx_get(&vx_k) { Some(vx_e) => { let e = &vx_e; let vx_n = *e + \3; \1.vx_insert(vx_k, vx_n); } None => { \1.vx_insert(vx_k, \4); } } }
//@map /(\w+)\.entry\(([^;]+?)\)\.and_modify\(\|e\| \*e = ([^;]+?)\)\.or_insert\(([^;]+?)\);/ => { let vx_k = \2; match \1.vx_get(&vx_k) { Some(vx_e) => { let e = &vx_e; let vx_n = \3; \1.vx_insert(vx_k, vx_n); } None => { \1.vx_insert(vx_k, \4); } } }
//@map /(\w+)\.entry\(([^;]+?)\)\.and_modify\(\|e\| \*e = ([^;]+?)\);/ => { let vx_k = \2; match \1.vx_get(&vx_k) { Some(vx_e) => { let e = &vx_e; let vx_n = \3; \1.vx_insert(vx_k, vx_n); } None => { } } }
//@map /(\w+)\.entry\(([^;]+?)\)\.or_insert\(([^;]+?)\);/ => { let vx_k = \2; if !\1.contains_key(&vx_k) { \1.vx_insert(vx_k, \3); } }
verus! {

//@@TAGS

// hashbrown::HashMap<PaymentHash, u64> (R5): a finite map; Hash/Eq of PaymentHash are structural
#[verifier::external_body]
pub struct VxPayMap { _p: u8 }
pub open spec fn entries_of(es: Seq<(PaymentHash, u64)>, m: Map<PaymentHash, u64>) -> bool {
    &&& forall|i: int| 0 <= i < es.len() ==> m.contains_key((#[trigger] es[i]).0) && m[es[i].0] == es[i].1
    &&& forall|k: PaymentHash| m.contains_key(k) ==> exists|i: int| 0 <= i < es.len() && (#[trigger] es[i]).0 == k
    &&& forall|i: int, j: int| 0 <= i < es.len() && 0 <= j < es.len() && i != j ==> (#[trigger] es[i]).0 != (#[trigger] es[j]).0
}
impl VxPayMap {
    pub uninterp spec fn view(&self) -> Map<PaymentHash, u64>;
    #[verifier::external_body]
    pub fn new() -> (r: VxPayMap) ensures r@ == Map::<PaymentHash, u64>::empty() { unimplemented!() }
    #[verifier::external_body]
    pub fn vx_get(&self, k: &PaymentHash) -> (r: Option<u64>)
        ensures r == (if self@.contains_key(*k) { Some(self@[*k]) } else { None::<u64> }) { unimplemented!() }
    #[verifier::external_body]
    pub fn contains_key(&self, k: &PaymentHash) -> (r: bool) ensures r == self@.contains_key(*k) { unimplemented!() }
    #[verifier::external_body]
    pub fn vx_insert(&mut self, k: PaymentHash, v: u64) ensures final(self)@ == old(self)@.insert(k, v) { unimplemented!() }
    // `m.retain(|k, _| other.contains_key(k))`
    #[verifier::external_body]
    pub fn vx_retain_in(&mut self, other: &VxPayMap) ensures final(self)@ == old(self)@.restrict(other@.dom()) { unimplemented!() }
    // `for (k, v) in m`: every entry exactly once, in an unspecified order
    #[verifier::external_body]
    pub fn vx_into_entries(self) -> (r: Vec<(PaymentHash, u64)>) ensures entries_of(r@, self@) { unimplemented!() }
}
pub assume_specification<T>[ Option::<T>::or ](a: Option<T>, b: Option<T>) -> (r: Option<T>)
    ensures r == (if a.is_some() { a } else { b });

// ------------------------------------------------------------------ spec side
// total value of the HTLCs with payment hash k
pub open spec fn sum_for(s: Seq<HTLCInfo2>, k: PaymentHash) -> nat decreases s.len() {
    if s.len() == 0 { 0 } else {
        sum_for(s.drop_last(), k) + (if s.last().payment_hash == k { s.last().value_sat as nat } else { 0 })
    }
}
pub open spec fn has_hash(s: Seq<HTLCInfo2>, k: PaymentHash) -> bool decreases s.len() {
    s.len() > 0 && (s.last().payment_hash == k || has_hash(s.drop_last(), k))
}
pub open spec fn sums_fit(s: Seq<HTLCInfo2>) -> bool { forall|k: PaymentHash| sum_for(s, k) <= u64::MAX }
pub open spec fn is_summary(m: Map<PaymentHash, u64>, s: Seq<HTLCInfo2>) -> bool {
    &&& forall|k: PaymentHash| m.contains_key(k) <==> has_hash(s, k)
    &&& forall|k: PaymentHash| m.contains_key(k) ==> m[k] == sum_for(s, k)
}
pub open spec fn opt_htlcs(o: Option<Seq<HTLCInfo2>>) -> Seq<HTLCInfo2> {
    match o { Some(s) => s, None => Seq::<HTLCInfo2>::empty() }
}
pub open spec fn max_nat(a: nat, b: nat) -> nat { if a >= b { a } else { b } }
pub open spec fn min_nat(a: nat, b: nat) -> nat { if a <= b { a } else { b } }
// the views the summaries are taken over: the proposed commitment if there is one, else the current one
pub open spec fn view_of(new_tx: Option<&CommitmentInfo2>, cur: Option<CommitmentInfo2>) -> Option<CommitmentInfo2> {
    match new_tx { Some(n) => Some(*n), None => cur }
}
pub open spec fn offered_of(c: Option<CommitmentInfo2>) -> Seq<HTLCInfo2> {
    match c { Some(i) => i.offered_htlcs@, None => Seq::<HTLCInfo2>::empty() }
}
pub open spec fn received_of(c: Option<CommitmentInfo2>) -> Seq<HTLCInfo2> {
    match c { Some(i) => i.received_htlcs@, None => Seq::<HTLCInfo2>::empty() }
}

pub proof fn lemma_take_step(s: Seq<HTLCInfo2>, i: int, k: PaymentHash)
    requires 0 <= i < s.len(),
    ensures
        sum_for(s.take(i + 1), k) == sum_for(s.take(i), k) + (if s[i].payment_hash == k { s[i].value_sat as nat } else { 0 }),
        has_hash(s.take(i + 1), k) == (s[i].payment_hash == k || has_hash(s.take(i), k)),
{
    assert(s.take(i + 1).drop_last() == s.take(i));
    assert(s.take(i + 1).last() == s[i]);
}
pub proof fn lemma_sum_prefix_le(s: Seq<HTLCInfo2>, i: int, k: PaymentHash)
    requires 0 <= i <= s.len(),
    ensures sum_for(s.take(i), k) <= sum_for(s, k),
    decreases s.len() - i,
{
    if i < s.len() {
        lemma_take_step(s, i, k);
        lemma_sum_prefix_le(s, i + 1, k);
    } else {
        assert(s.take(i) == s);
    }
}
pub proof fn lemma_no_hash_no_sum(s: Seq<HTLCInfo2>, k: PaymentHash)
    ensures !has_hash(s, k) ==> sum_for(s, k) == 0,
    decreases s.len(),
{
    if s.len() > 0 { lemma_no_hash_no_sum(s.drop_last(), k); }
}

// ------------------------------------------------------------------ code side
impl EnforcementState {

//@fn vls-core/src/policy/validator.rs :: impl EnforcementState :: summarize_payments props=C06
    requires sums_fit(htlcs@),
    ensures is_summary(r@, htlcs@),                                                                   //[C06.summarize.sum-per-hash]
//@loop 1 iter=it
        invariant
            it.index@ <= htlcs@.len(), sums_fit(htlcs@),
            is_summary(summary@, htlcs@.take(it.index@ as int)),
//@proof before /let vx_k = h\.payment_hash/
        proof {
            let i = it.index@ as int;
            assert(*h == htlcs@[i]);
            assert forall|k: PaymentHash| #[trigger] sum_for(htlcs@.take(i + 1), k) == sum_for(htlcs@.take(i), k)
                    + (if htlcs@[i].payment_hash == k { htlcs@[i].value_sat as nat } else { 0 })
                && sum_for(htlcs@.take(i + 1), k) <= u64::MAX by {
                lemma_take_step(htlcs@, i, k);
                lemma_sum_prefix_le(htlcs@, i + 1, k);
            }
            assert forall|k: PaymentHash| #[trigger] has_hash(htlcs@.take(i + 1), k)
                    == (htlcs@[i].payment_hash == k || has_hash(htlcs@.take(i), k)) by {
                lemma_take_step(htlcs@, i, k);
            }
            lemma_no_hash_no_sum(htlcs@.take(i), h.payment_hash);
            assert(sum_for(htlcs@.take(i + 1), h.payment_hash) <= u64::MAX);
        }
//@proof before /^\s*summary\s*$/
        proof { assert(htlcs@.take(htlcs@.len() as int) == htlcs@); }
//@end

//@fn vls-core/src/policy/validator.rs :: impl EnforcementState :: payments_summary props=C06 optclosures
    requires
        sums_fit(offered_of(view_of(new_holder_tx, self.current_holder_commit_info))),
        sums_fit(received_of(view_of(new_counterparty_tx, self.current_counterparty_commit_info))),
    ensures
        // outgoing value in flight per hash on this channel: the LARGER of what the (proposed or current) holder
        // commitment offers and what the (proposed or current) counterparty commitment receives
        forall|k: PaymentHash| #[trigger] r@.contains_key(k) ==> r@[k] == max_nat(
            sum_for(offered_of(view_of(new_holder_tx, self.current_holder_commit_info)), k),
            sum_for(received_of(view_of(new_counterparty_tx, self.current_counterparty_commit_info)), k)),   //[C06.payments-summary.max-of-views]
        // every hash of the proposed and of the current commitments is reported (with 0 once it is gone)
        forall|k: PaymentHash| #[trigger] r@.contains_key(k) <==> (
            has_hash(offered_of(view_of(new_holder_tx, self.current_holder_commit_info)), k)
            || has_hash(received_of(view_of(new_counterparty_tx, self.current_counterparty_commit_info)), k)
            || has_hash(offered_of(self.current_holder_commit_info), k)
            || has_hash(received_of(self.current_counterparty_commit_info), k)),                             //[C06.payments-summary.domain]
//@sub /for \(k, v\) in counterparty_summary \{/ => let vx_es = counterparty_summary.vx_into_entries(); let ghost mut done = Set::<PaymentHash>::empty(); for vx_kv in it: vx_es.iter() { let (k, v) = *vx_kv;
//@loop 1
        invariant
            entries_of(vx_es@, cs),
            forall|j: int| 0 <= j < it.index@ ==> done.contains(#[trigger] vx_es@[j].0),
            forall|j: int| it.index@ <= j < vx_es@.len() ==> !done.contains(#[trigger] vx_es@[j].0),
            forall|k: PaymentHash| done.contains(k) ==> cs.contains_key(k),
            forall|k: PaymentHash| #[trigger] summary@.contains_key(k) <==> hs.contains_key(k) || done.contains(k),
            forall|k: PaymentHash| #[trigger] summary@.contains_key(k) ==> summary@[k] == max_nat(
                (if hs.contains_key(k) { hs[k] as nat } else { 0 }), (if done.contains(k) { cs[k] as nat } else { 0 })),
//@proof before /let mut summary = holder_summary;/
        let ghost hs = holder_summary@;
        let ghost cs = counterparty_summary@;
        let ghost ho = offered_of(view_of(new_holder_tx, self.current_holder_commit_info));
        let ghost cr = received_of(view_of(new_counterparty_tx, self.current_counterparty_commit_info));
        proof {
            assert(is_summary(hs, ho));
            assert(is_summary(cs, cr));
        }
//@proof before /let vx_k = k;/
        proof {
            assert(*vx_kv == vx_es@[it.index@ as int]);
            assert(cs.contains_key(k) && cs[k] == v);
            done = done.insert(k);
        }
//@proof before /if let Some\(holder_tx\) = self\.current_holder_commit_info\.as_ref\(\)/
        let ghost m1 = summary@;
        proof {
            assert forall|k: PaymentHash| cs.contains_key(k) implies done.contains(k) by {
                let j = choose|j: int| 0 <= j < vx_es@.len() && (#[trigger] vx_es@[j]).0 == k;
                assert(done.contains(vx_es@[j].0));
            }
            assert forall|k: PaymentHash| (#[trigger] m1.contains_key(k) <==> has_hash(ho, k) || has_hash(cr, k)) by { }
            assert forall|k: PaymentHash| #[trigger] m1.contains_key(k) implies m1[k] == max_nat(sum_for(ho, k), sum_for(cr, k)) by {
                lemma_no_hash_no_sum(ho, k);
                lemma_no_hash_no_sum(cr, k);
            }
        }
//@loop 2 iter=it2
        invariant
            it2.index@ <= holder_tx.offered_htlcs@.len(),
            forall|k: PaymentHash| #[trigger] summary@.contains_key(k) <==> m1.contains_key(k) || has_hash(holder_tx.offered_htlcs@.take(it2.index@ as int), k),
            forall|k: PaymentHash| #[trigger] m1.contains_key(k) ==> summary@[k] == m1[k],
            forall|k: PaymentHash| #[trigger] summary@.contains_key(k) && !m1.contains_key(k) ==> summary@[k] == 0,
//@proof before /let vx_k = h\.payment_hash;/ #1
        proof {
            let i = it2.index@ as int;
            assert(*h == holder_tx.offered_htlcs@[i]);
            assert forall|k: PaymentHash| #[trigger] has_hash(holder_tx.offered_htlcs@.take(i + 1), k)
                    == (holder_tx.offered_htlcs@[i].payment_hash == k || has_hash(holder_tx.offered_htlcs@.take(i), k)) by {
                lemma_take_step(holder_tx.offered_htlcs@, i, k);
            }
        }
//@proof before /let vx_k = h\.payment_hash;/ #2
        proof {
            let i = it3.index@ as int;
            assert(*h == counterparty_tx.received_htlcs@[i]);
            assert forall|k: PaymentHash| #[trigger] has_hash(counterparty_tx.received_htlcs@.take(i + 1), k)
                    == (counterparty_tx.received_htlcs@[i].payment_hash == k || has_hash(counterparty_tx.received_htlcs@.take(i), k)) by {
                lemma_take_step(counterparty_tx.received_htlcs@, i, k);
            }
        }
//@proof blockend /for h in holder_tx\.offered_htlcs\.iter\(\)/
        proof { assert(holder_tx.offered_htlcs@.take(holder_tx.offered_htlcs@.len() as int) == holder_tx.offered_htlcs@); }
//@proof blockend /for h in counterparty_tx\.received_htlcs\.iter\(\)/
        proof { assert(counterparty_tx.received_htlcs@.take(counterparty_tx.received_htlcs@.len() as int) == counterparty_tx.received_htlcs@); }
//@proof before /^\s*summary\s*$/
        proof {
            assert forall|k: PaymentHash| #[trigger] summary@.contains_key(k) implies
                summary@[k] == max_nat(sum_for(ho, k), sum_for(cr, k)) by {
                lemma_no_hash_no_sum(ho, k);
                lemma_no_hash_no_sum(cr, k);
                if m1.contains_key(k) {
                    assert(m2.contains_key(k) && m2[k] == m1[k]);
                    assert(summary@[k] == m2[k]);
                } else if m2.contains_key(k) {
                    assert(m2[k] == 0);
                    assert(summary@[k] == m2[k]);
                } else {
                    assert(summary@[k] == 0);
                }
            }
        }
//@proof before /if let Some\(counterparty_tx\) = self\.current_counterparty_commit_info\.as_ref\(\)/
        let ghost m2 = summary@;
//@loop 3 iter=it3
        invariant
            it3.index@ <= counterparty_tx.received_htlcs@.len(),
            forall|k: PaymentHash| #[trigger] summary@.contains_key(k) <==> m2.contains_key(k) || has_hash(counterparty_tx.received_htlcs@.take(it3.index@ as int), k),
            forall|k: PaymentHash| #[trigger] m2.contains_key(k) ==> summary@[k] == m2[k],
            forall|k: PaymentHash| #[trigger] summary@.contains_key(k) && !m2.contains_key(k) ==> summary@[k] == 0,
//@end

//@fn vls-core/src/policy/validator.rs :: impl EnforcementState :: incoming_payments_summary props=C06 optclosures
    requires
        sums_fit(received_of(view_of(new_holder_tx, self.current_holder_commit_info))),
        sums_fit(offered_of(view_of(new_counterparty_tx, self.current_counterparty_commit_info))),
    ensures
        // incoming value in flight per hash on this channel: the SMALLER of what the (proposed or current) holder
        // commitment receives and what the (proposed or current) counterparty commitment offers
        forall|k: PaymentHash| #[trigger] r@.contains_key(k) ==> r@[k] == min_nat(
            sum_for(received_of(view_of(new_holder_tx, self.current_holder_commit_info)), k),
            sum_for(offered_of(view_of(new_counterparty_tx, self.current_counterparty_commit_info)), k)),   //[C06.incoming-summary.min-of-views]
        forall|k: PaymentHash| #[trigger] r@.contains_key(k) <==> (
            (has_hash(received_of(view_of(new_holder_tx, self.current_holder_commit_info)), k)
             && has_hash(offered_of(view_of(new_counterparty_tx, self.current_counterparty_commit_info)), k))
            || has_hash(received_of(self.current_holder_commit_info), k)
            || has_hash(offered_of(self.current_counterparty_commit_info), k)),                             //[C06.incoming-summary.domain]
//@sub /summary\.retain\(\|k, _\| counterparty_summary\.contains_key\(k\)\);/ => summary.vx_retain_in(&counterparty_summary);
//@sub /for \(k, v\) in counterparty_summary \{/ => let vx_es = counterparty_summary.vx_into_entries(); let ghost mut done = Set::<PaymentHash>::empty(); for vx_kv in it: vx_es.iter() { let (k, v) = *vx_kv;
//@loop 1
        invariant
            entries_of(vx_es@, cs),
            forall|j: int| 0 <= j < it.index@ ==> done.contains(#[trigger] vx_es@[j].0),
            forall|j: int| it.index@ <= j < vx_es@.len() ==> !done.contains(#[trigger] vx_es@[j].0),
            forall|k: PaymentHash| done.contains(k) ==> cs.contains_key(k),
            forall|k: PaymentHash| #[trigger] summary@.contains_key(k) <==> hs.contains_key(k) && cs.contains_key(k),
            forall|k: PaymentHash| #[trigger] summary@.contains_key(k) ==> summary@[k] ==
                (if done.contains(k) { min_nat(hs[k] as nat, cs[k] as nat) } else { hs[k] as nat }),
//@proof before /let mut summary = holder_summary;/
        let ghost hs = holder_summary@;
        let ghost cs = counterparty_summary@;
        let ghost ho = received_of(view_of(new_holder_tx, self.current_holder_commit_info));
        let ghost cr = offered_of(view_of(new_counterparty_tx, self.current_counterparty_commit_info));
        proof {
            assert(is_summary(hs, ho));
            assert(is_summary(cs, cr));
        }
//@proof before /let vx_k = k;/
        proof {
            assert(*vx_kv == vx_es@[it.index@ as int]);
            assert(cs.contains_key(k) && cs[k] == v);
            done = done.insert(k);
        }
//@proof before /if let Some\(holder_tx\) = self\.current_holder_commit_info\.as_ref\(\)/
        let ghost m1 = summary@;
        proof {
            assert forall|k: PaymentHash| cs.contains_key(k) implies done.contains(k) by {
                let j = choose|j: int| 0 <= j < vx_es@.len() && (#[trigger] vx_es@[j]).0 == k;
                assert(done.contains(vx_es@[j].0));
            }
            assert forall|k: PaymentHash| (#[trigger] m1.contains_key(k) <==> has_hash(ho, k) && has_hash(cr, k)) by { }
            assert forall|k: PaymentHash| #[trigger] m1.contains_key(k) implies m1[k] == min_nat(sum_for(ho, k), sum_for(cr, k)) by {
                lemma_no_hash_no_sum(ho, k);
                lemma_no_hash_no_sum(cr, k);
            }
        }
//@loop 2 iter=it2
        invariant
            it2.index@ <= holder_tx.received_htlcs@.len(),
            forall|k: PaymentHash| #[trigger] summary@.contains_key(k) <==> m1.contains_key(k) || has_hash(holder_tx.received_htlcs@.take(it2.index@ as int), k),
            forall|k: PaymentHash| #[trigger] m1.contains_key(k) ==> summary@[k] == m1[k],
            forall|k: PaymentHash| #[trigger] summary@.contains_key(k) && !m1.contains_key(k) ==> summary@[k] == 0,
//@proof before /let vx_k = h\.payment_hash;/ #1
        proof {
            let i = it2.index@ as int;
            assert(*h == holder_tx.received_htlcs@[i]);
            assert forall|k: PaymentHash| #[trigger] has_hash(holder_tx.received_htlcs@.take(i + 1), k)
                    == (holder_tx.received_htlcs@[i].payment_hash == k || has_hash(holder_tx.received_htlcs@.take(i), k)) by {
                lemma_take_step(holder_tx.received_htlcs@, i, k);
            }
        }
//@proof before /let vx_k = h\.payment_hash;/ #2
        proof {
            let i = it3.index@ as int;
            assert(*h == counterparty_tx.offered_htlcs@[i]);
            assert forall|k: PaymentHash| #[trigger] has_hash(counterparty_tx.offered_htlcs@.take(i + 1), k)
                    == (counterparty_tx.offered_htlcs@[i].payment_hash == k || has_hash(counterparty_tx.offered_htlcs@.take(i), k)) by {
                lemma_take_step(counterparty_tx.offered_htlcs@, i, k);
            }
        }
//@proof blockend /for h in holder_tx\.received_htlcs\.iter\(\)/
        proof { assert(holder_tx.received_htlcs@.take(holder_tx.received_htlcs@.len() as int) == holder_tx.received_htlcs@); }
//@proof blockend /for h in counterparty_tx\.offered_htlcs\.iter\(\)/
        proof { assert(counterparty_tx.offered_htlcs@.take(counterparty_tx.offered_htlcs@.len() as int) == counterparty_tx.offered_htlcs@); }
//@proof before /^\s*summary\s*$/
        proof {
            assert forall|k: PaymentHash| #[trigger] summary@.contains_key(k) implies
                summary@[k] == min_nat(sum_for(ho, k), sum_for(cr, k)) by {
                lemma_no_hash_no_sum(ho, k);
                lemma_no_hash_no_sum(cr, k);
                if m1.contains_key(k) {
                    assert(m2.contains_key(k) && m2[k] == m1[k]);
                    assert(summary@[k] == m2[k]);
                } else if m2.contains_key(k) {
                    assert(m2[k] == 0);
                    assert(summary@[k] == m2[k]);
                } else {
                    assert(summary@[k] == 0);
                }
            }
        }
//@proof before /if let Some\(counterparty_tx\) = self\.current_counterparty_commit_info\.as_ref\(\)/
        let ghost m2 = summary@;
//@loop 3 iter=it3
        invariant
            it3.index@ <= counterparty_tx.offered_htlcs@.len(),
            forall|k: PaymentHash| #[trigger] summary@.contains_key(k) <==> m2.contains_key(k) || has_hash(counterparty_tx.offered_htlcs@.take(it3.index@ as int), k),
            forall|k: PaymentHash| #[trigger] m2.contains_key(k) ==> summary@[k] == m2[k],
            forall|k: PaymentHash| #[trigger] summary@.contains_key(k) && !m2.contains_key(k) ==> summary@[k] == 0,
//@end

} // impl EnforcementState

} // verus!
fn main() {}
