//@unit node_restore
//@props C12 C11 C15
// Contracts on the restart path of the node state (vls-core/src/node.rs): NodeState::{restore,
// with_log_prefix} and Node::new_full keep what was counted / recorded before the restart.
use vstd::prelude::*;
use vstd::std_specs::cmp::OrdSpec;
//@include prelude/core.rs
//@include prelude/deps.rs
//@include prelude/btc.rs
//@map /Map<PaymentHash, PaymentState>/ => VxInvoiceMap
//@map /Map<PaymentHash, RoutedPayment>/ => VxPaymentMap
//@map /OrderedSet<Allowable>/ => VxAllowSet
//@map /\bString::new\(\)/ => VxStr::new()
//@map /\bString\b/ => VxStr
//@map /Secp256k1<secp256k1::All>/ => VxSecp
//@map /Secp256k1::new\(\)/ => VxSecp::new()
//@map /Mutex<OrderedMap<ChannelId, Arc<Mutex<ChannelSlot>>>>/ => VxMutex<VxChannelMap>
//@map /OrderedMap::new\(\)/ => VxChannelMap::new()
//@map /Mutex<Arc<dyn ValidatorFactory>>/ => VxMutex<VxValidatorFactory>
//@map /Arc<dyn ValidatorFactory>/ => VxValidatorFactory
//@map /Arc<dyn StartingTimeFactory>/ => VxStartingTimeFactory
//@map /Arc<dyn Persist>/ => VxPersist
//@map /Arc<dyn Clock>/ => VxClock
//@map /Mutex<ChainTracker<ChainMonitor>>/ => VxMutex<VxTracker>
//@map /ChainTracker<ChainMonitor>/ => VxTracker
//@map /Mutex<NodeState>/ => VxMutex<NodeState>
//@map /Mutex::new\(/ => VxMutex::new(
//@map /Vec<Allowable>/ => Vec<VxAllowable>
//@map /&Box<dyn Policy>/ => &VxPolicy
//@map /Vec<\(Vec<u8>, PaymentState\)>/ => Vec<VxInvoiceEntry>
verus! {

// ---- opaque carriers (R5, R6, R11) ----
#[verifier::external_body] pub struct VxInvoiceMap { _p: u8 }
#[verifier::external_body] pub struct VxPaymentMap { _p: u8 }
#[verifier::external_body] pub struct VxAllowSet { _p: u8 }
#[verifier::external_body] pub struct VxAllowable { _p: u8 }
#[verifier::external_body] pub struct VxInvoiceEntry { _p: u8 }
#[verifier::external_body] pub struct VxStr { _p: u8 }
#[verifier::external_body] pub struct VxSecp { _p: u8 }
#[verifier::external_body] pub struct VxChannelMap { _p: u8 }
#[verifier::external_body] pub struct VxValidatorFactory { _p: u8 }
#[verifier::external_body] pub struct VxStartingTimeFactory { _p: u8 }
#[verifier::external_body] pub struct VxPersist { _p: u8 }
#[verifier::external_body] pub struct VxClock { _p: u8 }
#[verifier::external_body] pub struct VxTracker { _p: u8 }
#[verifier::external_body] pub struct VxPolicy { _p: u8 }
#[verifier::external_body] pub struct MyKeysManager { _p: u8 }
#[verifier::external_body] pub struct KeyDerivationStyle { _p: u8 }
#[verifier::external_body] pub struct Network { _p: u8 }
impl Clone for Network { #[verifier::external_body] fn clone(&self) -> (r: Self) ensures r == *self { unimplemented!() } }
impl Copy for Network {}
impl VxStr {
    #[verifier::external_body] pub fn new() -> VxStr { unimplemented!() }
    #[verifier::external_body] pub fn to_string(&self) -> VxStr { unimplemented!() }
}
impl VxSecp { #[verifier::external_body] pub fn new() -> VxSecp { unimplemented!() } }
impl VxChannelMap {
    pub uninterp spec fn is_empty_map(&self) -> bool;
    #[verifier::external_body] pub fn new() -> (r: VxChannelMap) ensures r.is_empty_map() { unimplemented!() }
}
// std::sync::Mutex (R11): `Mutex::new(v)` is assumed to hold v
#[verifier::external_body]
#[verifier::reject_recursive_types(T)]
pub struct VxMutex<T> { _p: core::marker::PhantomData<T> }
impl<T> VxMutex<T> {
    pub uninterp spec fn view(&self) -> T;
    #[verifier::external_body] pub fn new(v: T) -> (r: Self) ensures r@ == v { unimplemented!() }
}
pub uninterp spec fn factory_policy(f: VxValidatorFactory, n: Network) -> VxPolicy;
impl VxValidatorFactory {
    #[verifier::external_body] pub fn policy(&self, n: Network) -> (r: VxPolicy) ensures r == factory_policy(*self, n) { unimplemented!() }
}
pub uninterp spec fn policy_global_vc(p: VxPolicy) -> VelocityControlSpec;
pub uninterp spec fn policy_fee_vc(p: VxPolicy) -> VelocityControlSpec;
impl VxPolicy {
    #[verifier::external_body] pub fn global_velocity_control(&self) -> (r: VelocityControlSpec) ensures r == policy_global_vc(*self) { unimplemented!() }
    #[verifier::external_body] pub fn fee_velocity_control(&self) -> (r: VelocityControlSpec) ensures r == policy_fee_vc(*self) { unimplemented!() }
}
#[verifier::external_body]
pub fn vx_log_prefix(node_id: &PublicKey) -> VxStr { unimplemented!() }
pub uninterp spec fn collected_invoices(v: Seq<VxInvoiceEntry>) -> VxInvoiceMap;
pub uninterp spec fn collected_payments(v: Seq<[u8; 32]>) -> VxPaymentMap;
pub uninterp spec fn collected_allowlist(v: Seq<VxAllowable>) -> VxAllowSet;
#[verifier::external_body]
pub fn vx_collect_invoices(v: Vec<VxInvoiceEntry>) -> (r: VxInvoiceMap) ensures r == collected_invoices(v@) { unimplemented!() }
#[verifier::external_body]
pub fn vx_collect_payments(v: Vec<[u8; 32]>) -> (r: VxPaymentMap) ensures r == collected_payments(v@) { unimplemented!() }
#[verifier::external_body]
pub fn vx_collect_allowlist(v: Vec<VxAllowable>) -> (r: VxAllowSet) ensures r == collected_allowlist(v@) { unimplemented!() }

//@type vls-core/src/util/velocity.rs :: VelocityControl derive=Clone
//@type vls-core/src/util/velocity.rs :: VelocityControlIntervalType derive=Clone,Copy
//@type vls-core/src/util/velocity.rs :: VelocityControlSpec derive=Clone,Copy
//@type vls-core/src/node.rs :: NodeState
//@type vls-core/src/node.rs :: NodeConfig
//@type vls-core/src/node.rs :: NodeServices
//@type vls-core/src/node.rs :: Node

//@include frag/velocity_spec.rs

// what a restart must keep of a velocity control: everything, unless the policy spec changed
pub open spec fn vc_after_restart(vc: VelocityControl, spec: VelocityControlSpec, r: VelocityControl) -> bool {
    if spec_matches_spec(vc, spec) { r == vc }
    else { spec_matches_spec(r, spec) && r.start_sec == 0 && r.buckets@ == zeros(spec_triple(spec).2 as nat) }
}

impl VelocityControl {
//@fn vls-core/src/util/velocity.rs :: impl VelocityControl :: update_spec mode=trusted
//@include frag/c/vc_update_spec.rs
//@end
// the save / load API (contracts proved in unit velocity), declared so that a restart path written with it is decided
//@fn vls-core/src/util/velocity.rs :: impl VelocityControl :: get_state mode=trusted
//@include frag/c/vc_get_state.rs
//@end
//@fn vls-core/src/util/velocity.rs :: impl VelocityControl :: load_from_state mode=trusted
//@include frag/c/vc_load_from_state.rs
//@end
//@fn vls-core/src/util/velocity.rs :: impl VelocityControl :: with_state mode=trusted
//@include frag/c/vc_with_state.rs
//@end
//@fn vls-core/src/util/velocity.rs :: impl VelocityControl :: new mode=trusted
    ensures
        vc_wf(r), r.start_sec == 0, spec_matches_spec(r, spec),
        r.buckets@ == zeros(spec_triple(spec).2 as nat),
//@end
}

impl NodeState {

//@fn vls-core/src/node.rs :: impl NodeState :: restore props=C12,C11,C15
    ensures
        r.velocity_control == velocity_control, r.fee_velocity_control == fee_velocity_control,        //[C12.restore.state-keeps-controls]
        r.dbid_high_water_mark == dbid_high_water_mark,                                                //[C15.restore.hwm]
        r.excess_amount == excess_amount,
        r.invoices == collected_invoices(invoices_v@), r.issued_invoices == collected_invoices(issued_invoices_v@),
        r.payments == collected_payments(preimages@), r.allowlist == collected_allowlist(allowlist@), //[C11.restore.fields]
//@sub /let invoices = invoices_v\s*\.into_iter\(\)\s*\.map\(\|\(k, v\)\| \(PaymentHash\(k\.try_into\(\)\.vx_expect\(\)\), v\.into\(\)\)\)\s*\.collect\(\);/ => let invoices = vx_collect_invoices(invoices_v);
//@sub /let issued_invoices = issued_invoices_v\s*\.into_iter\(\)\s*\.map\(\|\(k, v\)\| \(PaymentHash\(k\.try_into\(\)\.vx_expect\(\)\), v\.into\(\)\)\)\s*\.collect\(\);/ => let issued_invoices = vx_collect_invoices(issued_invoices_v);
//@sub /(?s)let payments = preimages\s*\.into_iter\(\)\s*\.map\(\|preimage\| \{.*?\}\)\s*\.collect\(\);/ => let payments = vx_collect_payments(preimages);
//@sub /allowlist(:| =) allowlist\.into_iter\(\)\.collect\(\)/ => allowlist\1 vx_collect_allowlist(allowlist)
//@end

//@fn vls-core/src/node.rs :: impl NodeState :: with_log_prefix props=C12,C11,C15
    ensures
        r.velocity_control == velocity_control, r.fee_velocity_control == fee_velocity_control,        //[C12.with-log-prefix.installs-given-controls]
        r.dbid_high_water_mark == self.dbid_high_water_mark,                                           //[C15.with-log-prefix.hwm]
        r.invoices == self.invoices, r.issued_invoices == self.issued_invoices, r.payments == self.payments,
        r.excess_amount == self.excess_amount, r.allowlist == self.allowlist,                          //[C11.with-log-prefix.fields]
//@end

} // impl NodeState

impl Node {

// fresh controls for a brand-new node (Node::new); a restart must not use them for restored state
//@fn vls-core/src/node.rs :: impl Node :: make_velocity_control props=C12
    ensures spec_matches_spec(r, policy_global_vc(*policy)), r.start_sec == 0, r.buckets@ == zeros(spec_triple(policy_global_vc(*policy)).2 as nat),
//@end
//@fn vls-core/src/node.rs :: impl Node :: make_fee_velocity_control props=C12
    ensures spec_matches_spec(r, policy_fee_vc(*policy)), r.start_sec == 0, r.buckets@ == zeros(spec_triple(policy_fee_vc(*policy)).2 as nat),
//@end

//@fn vls-core/src/node.rs :: impl Node :: new_full props=C12,C11,C15
    requires vc_wf(state.velocity_control), vc_wf(state.fee_velocity_control),
    ensures
        // C12: restarting does not reset the amount already counted
        vc_after_restart(state.velocity_control,
            policy_global_vc(factory_policy(services.validator_factory, node_config.network)), r.state@.velocity_control),      //[C12.restore.keeps]
        vc_after_restart(state.fee_velocity_control,
            policy_fee_vc(factory_policy(services.validator_factory, node_config.network)), r.state@.fee_velocity_control),   //[C12.restore.keeps-fee]
        r.state@.dbid_high_water_mark == state.dbid_high_water_mark,                                   //[C15.new-full.hwm]
        r.state@.invoices == state.invoices, r.state@.issued_invoices == state.issued_invoices,
        r.state@.payments == state.payments, r.state@.allowlist == state.allowlist,
        r.state@.excess_amount == state.excess_amount,                                                 //[C11.new-full.state-fields]
        r.tracker@ == tracker, r.channels@.is_empty_map(),
//@sub /let log_prefix = &node_id\.to_string\(\)\[0\.\.4\];/ => let log_prefix = &vx_log_prefix(&node_id);
//@end

} // impl Node

} // verus!
fn main() {}
