//@unit channel_build
//@props C04 C01
// Contracts on the functions of Channel (vls-core/src/channel.rs) that hand the negotiated channel parameters and the
// validated content to LDK's transaction builder.  The other Channel units name these functions' results by
// uninterpreted functions (`cp_ctx_spec`, `holder_ctx_spec`, `holder_tx_keys_spec`); this unit pins WHAT they are: which
// side is the broadcaster, whose balance is `to_local`, whose funding key comes first, which basepoints the keys of the
// transaction are derived from (BOLT-3 roles), and that the channel parameters given to LDK are the negotiated ones
// (contest delays, funding outpoint, features, basepoints of both sides).  LDK itself
// (CommitmentTransaction::new_with_auxiliary_htlc_data, TxCreationKeys::derive_new) stays an uninterpreted function of
// its arguments.
use vstd::prelude::*;
use vstd::std_specs::cmp::OrdSpec;
//@include prelude/core.rs
//@include prelude/deps.rs
//@include prelude/btc.rs
//@include frag/enforcement_types.rs
//@include prelude/channel_deps.rs
//@include prelude/ldk_tx.rs
//@map /Weak<Node>/ => VxNodeRef
//@map /Secp256k1<All>/ => VxSecp
//@map /\bCounterpartyChannelTransactionParameters\b/ => VxCpChanTxParams
//@map /\bChannelTransactionParameters\b/ => VxChanTxParams
//@map /chain::transaction::OutPoint/ => LdkOutPoint
verus! {

//@@TAGS

//@include frag/enforcement_spec.rs
//@include frag/channel_types.rs

// ---- LDK types this unit looks into (lightning crate: pub-field structs) ----
pub struct LdkOutPoint { pub txid: Txid, pub index: u16 }
pub struct VxCpChanTxParams { pub pubkeys: ChannelPublicKeys, pub selected_contest_delay: u16 }
pub struct VxChanTxParams {
    pub holder_pubkeys: ChannelPublicKeys,
    pub holder_selected_contest_delay: u16,
    pub is_outbound_from_holder: bool,
    pub counterparty_parameters: Option<VxCpChanTxParams>,
    pub funding_outpoint: Option<LdkOutPoint>,
    pub channel_type_features: ChannelTypeFeatures,
}
#[verifier::external_body] pub struct DirectedParams { _p: u8 }      // DirectedChannelTransactionParameters<'_>
pub uninterp spec fn dir_holder(p: VxChanTxParams) -> DirectedParams;
pub uninterp spec fn dir_counterparty(p: VxChanTxParams) -> DirectedParams;
impl VxChanTxParams {
    #[verifier::external_body]
    pub fn as_holder_broadcastable(&self) -> (r: DirectedParams) ensures r == dir_holder(*self) { unimplemented!() }
    #[verifier::external_body]
    pub fn as_counterparty_broadcastable(&self) -> (r: DirectedParams) ensures r == dir_counterparty(*self) { unimplemented!() }
}

// LDK (TCB): uninterpreted functions of exactly their arguments, in LDK's parameter order
// TxCreationKeys::derive_new(secp, per_commitment_point, broadcaster_delayed_payment_base, broadcaster_htlc_base,
//                            countersignatory_revocation_base, countersignatory_htlc_base)
pub uninterp spec fn ldk_derive_keys(point: PublicKey, b_delayed: VxKeyWrap, b_htlc: VxKeyWrap, c_revocation: VxKeyWrap, c_htlc: VxKeyWrap) -> TxCreationKeys;
// CommitmentTransaction::new_with_auxiliary_htlc_data(commitment_number, to_broadcaster_value_sat, to_countersignatory_value_sat,
//     broadcaster_funding_key, countersignatory_funding_key, keys, feerate_per_kw, htlcs_with_aux, channel_parameters)
pub uninterp spec fn ldk_ctx_new(n: u64, to_broadcaster: u64, to_countersignatory: u64, b_funding: PublicKey, c_funding: PublicKey,
    keys: TxCreationKeys, feerate: u32, htlcs: Seq<HTLCOutputInCommitment>, params: DirectedParams) -> CommitmentTransaction;
pub uninterp spec fn ldk_with_nz_anchors(c: CommitmentTransaction) -> CommitmentTransaction;
pub open spec fn firsts(s: Seq<(HTLCOutputInCommitment, ())>) -> Seq<HTLCOutputInCommitment> { s.map(|i: int, p: (HTLCOutputInCommitment, ())| p.0) }
impl TxCreationKeys {
    #[verifier::external_body]
    pub fn derive_new(secp: &VxSecp, point: &PublicKey, b_delayed: &VxKeyWrap, b_htlc: &VxKeyWrap, c_revocation: &VxKeyWrap, c_htlc: &VxKeyWrap) -> (r: TxCreationKeys)
        ensures r == ldk_derive_keys(*point, *b_delayed, *b_htlc, *c_revocation, *c_htlc)
    { unimplemented!() }
}
impl CommitmentTransaction {
    #[verifier::external_body]
    pub fn new_with_auxiliary_htlc_data(n: u64, to_broadcaster: u64, to_countersignatory: u64, b_funding: PublicKey, c_funding: PublicKey,
        keys: TxCreationKeys, feerate: u32, htlcs_with_aux: &mut Vec<(HTLCOutputInCommitment, ())>, params: &DirectedParams) -> (r: CommitmentTransaction)
        ensures r == ldk_ctx_new(n, to_broadcaster, to_countersignatory, b_funding, c_funding, keys, feerate, firsts(old(htlcs_with_aux)@), *params)
    { unimplemented!() }
    #[verifier::external_body]
    pub fn with_non_zero_fee_anchors(self) -> (r: CommitmentTransaction) ensures r == ldk_with_nz_anchors(self) { unimplemented!() }
}
// `htlcs.iter().map(|h| (h.clone(), ())).collect()` / `htlcs.into_iter().map(|h| (h, ())).collect()`: every HTLC paired with ()
#[verifier::external_body]
pub fn vx_with_unit_aux(h: &Vec<HTLCOutputInCommitment>) -> (r: Vec<(HTLCOutputInCommitment, ())>) ensures firsts(r@) == h@ { unimplemented!() }
#[verifier::external_body]
pub fn vx_with_unit_aux_owned(h: Vec<HTLCOutputInCommitment>) -> (r: Vec<(HTLCOutputInCommitment, ())>) ensures firsts(r@) == h@ { unimplemented!() }

pub uninterp spec fn setup_features(setup: ChannelSetup) -> ChannelTypeFeatures;
pub open spec fn setup_is_anchors(s: ChannelSetup) -> bool {
    s.commitment_type == CommitmentType::Anchors || s.commitment_type == CommitmentType::AnchorsZeroFeeHtlc
}
impl ChannelSetup {
//@fn vls-core/src/channel.rs :: impl ChannelSetup :: features mode=trusted
    ensures r == setup_features(*self),
//@end
//@fn vls-core/src/channel.rs :: impl ChannelSetup :: is_anchors props=C04
    ensures r == setup_is_anchors(*self),
//@end
//@fn vls-core/src/channel.rs :: impl ChannelSetup :: is_zero_fee_htlc props=C04
    ensures r == (self.commitment_type == CommitmentType::AnchorsZeroFeeHtlc),
//@end
}

// ------------------------------------------------------------------ spec side (BOLT-3 roles)
// the channel parameters LDK is given: the holder's basepoints, both NEGOTIATED contest delays, who funded, the
// counterparty's basepoints, the funding outpoint and the channel type
pub open spec fn chan_params_spec(c: Channel) -> VxChanTxParams {
    VxChanTxParams {
        holder_pubkeys: ldk_pubkeys(c.keys),
        holder_selected_contest_delay: c.setup.holder_selected_contest_delay,
        is_outbound_from_holder: c.setup.is_outbound,
        counterparty_parameters: Some(VxCpChanTxParams { pubkeys: c.setup.counterparty_points, selected_contest_delay: c.setup.counterparty_selected_contest_delay }),
        funding_outpoint: Some(LdkOutPoint { txid: c.setup.funding_outpoint.txid, index: c.setup.funding_outpoint.vout as u16 }),
        channel_type_features: setup_features(c.setup),
    }
}
// the counterparty's basepoints as the signer holds them (installed at setup from the channel setup)
pub open spec fn cp_points(c: Channel) -> ChannelPublicKeys { ldk_counterparty_pubkeys(c.keys)->Some_0 }

impl Channel {

//@fn vls-core/src/channel.rs :: impl Channel :: counterparty_pubkeys mode=trusted
    ensures ldk_counterparty_pubkeys(self.keys).is_some(), *r == ldk_counterparty_pubkeys(self.keys)->Some_0,
//@end
//@fn vls-core/src/channel.rs :: impl ChannelBase for Channel :: get_channel_basepoints props=C04
    ensures r == ldk_pubkeys(self.keys),
//@end

//@fn vls-core/src/channel.rs :: impl Channel :: make_tx_keys props=C04,C01
    ensures r == ldk_derive_keys(*per_commitment_point, a_points.delayed_payment_basepoint, a_points.htlc_basepoint,
        b_points.revocation_basepoint, b_points.htlc_basepoint),
//@end

// keys of a COUNTERPARTY commitment: the counterparty broadcasts it (its delayed and HTLC basepoints), the holder can revoke
//@fn vls-core/src/channel.rs :: impl Channel :: make_counterparty_tx_keys props=C04
    ensures r == ldk_derive_keys(*per_commitment_point, cp_points(*self).delayed_payment_basepoint, cp_points(*self).htlc_basepoint,
        ldk_pubkeys(self.keys).revocation_basepoint, ldk_pubkeys(self.keys).htlc_basepoint),               //[C04.build.cp-keys-roles]
//@end

// keys of a HOLDER commitment: the holder broadcasts it, the counterparty can revoke
//@fn vls-core/src/channel.rs :: impl Channel :: make_holder_tx_keys props=C01
    ensures r == ldk_derive_keys(*per_commitment_point, ldk_pubkeys(self.keys).delayed_payment_basepoint, ldk_pubkeys(self.keys).htlc_basepoint,
        cp_points(*self).revocation_basepoint, cp_points(*self).htlc_basepoint),                           //[C01.build.holder-keys-roles]
//@end

//@fn vls-core/src/channel.rs :: impl Channel :: make_channel_parameters props=C04,C01
    ensures r == chan_params_spec(*self),                                                                  //[C04.build.negotiated-parameters]
//@end

// a COUNTERPARTY commitment: number counted backwards, `to_broadcaster` is the COUNTERPARTY's balance, the counterparty's
// funding key is the broadcaster's, the parameters are directed "counterparty broadcastable"
//@fn vls-core/src/channel.rs :: impl Channel :: make_counterparty_commitment_tx_with_keys props=C04
    requires commitment_number <= INITIAL_COMMITMENT_NUMBER,
    ensures r == ldk_ctx_new((INITIAL_COMMITMENT_NUMBER - commitment_number) as u64, to_counterparty_value_sat, to_holder_value_sat,
        cp_points(*self).funding_pubkey, ldk_pubkeys(self.keys).funding_pubkey, keys, feerate_per_kw, htlcs@,
        dir_counterparty(chan_params_spec(*self))),                                                        //[C04.build.cp-commitment-roles]
//@sub /htlcs\.iter\(\)\.map\(\|h\| \(h\.clone\(\), \(\)\)\)\.collect\(\)/ => vx_with_unit_aux(&htlcs)
//@end

//@fn vls-core/src/channel.rs :: impl Channel :: make_counterparty_commitment_tx props=C04
    requires commitment_number <= INITIAL_COMMITMENT_NUMBER,
    ensures r == ldk_ctx_new((INITIAL_COMMITMENT_NUMBER - commitment_number) as u64, to_counterparty_value_sat, to_holder_value_sat,
        cp_points(*self).funding_pubkey, ldk_pubkeys(self.keys).funding_pubkey,
        ldk_derive_keys(*remote_per_commitment_point, cp_points(*self).delayed_payment_basepoint, cp_points(*self).htlc_basepoint,
            ldk_pubkeys(self.keys).revocation_basepoint, ldk_pubkeys(self.keys).htlc_basepoint),
        feerate_per_kw, htlcs@, dir_counterparty(chan_params_spec(*self))),                                //[C04.build.cp-commitment-from-point]
//@end

// a HOLDER commitment: `to_broadcaster` is the HOLDER's balance, the holder's funding key is the broadcaster's
//@fn vls-core/src/channel.rs :: impl Channel :: make_holder_commitment_tx props=C01
    requires commitment_number <= INITIAL_COMMITMENT_NUMBER,
    ensures r == ({
        let c = ldk_ctx_new((INITIAL_COMMITMENT_NUMBER - commitment_number) as u64, to_holder_value_sat, to_counterparty_value_sat,
            ldk_pubkeys(self.keys).funding_pubkey, cp_points(*self).funding_pubkey, *keys, feerate_per_kw, htlcs@,
            dir_holder(chan_params_spec(*self)));
        if setup_is_anchors(self.setup) { ldk_with_nz_anchors(c) } else { c }
    }),                                                                                                    //[C01.build.holder-commitment-roles]
//@sub /htlcs\.into_iter\(\)\.map\(\|h\| \(h, \(\)\)\)\.collect\(\)/ => vx_with_unit_aux_owned(htlcs)
//@end

} // impl Channel

} // verus!
fn main() {}
