//@unit persist_tracker
//@props C11
// Contracts on the store side of the chain tracker (vls-persist/src/model.rs): what is written for a tracker
// (From<&ChainTracker<ChainMonitor>> for ChainTrackerEntry) and what a restart makes of it (ChainTrackerEntry::into_tracker):
// tip, height, network, the remembered headers and every listener's monitor state and watch slot go out and come back in
// the same slots.  ChainTracker::restore is assumed under its real signature of this run (its body is verified in unit
// tracker: [C11.tracker.restore-verbatim]); consensus (de)serialisation of headers is assumed a round trip.
use vstd::prelude::*;
use vstd::std_specs::cmp::OrdSpec;
//@include prelude/core.rs
//@map /Arc<dyn ValidatorFactory>/ => VxValidatorFactory
//@map /&ChainTracker<ChainMonitor>/ => &VxTrackerT
//@map /ChainTracker<ChainMonitor>/ => VxTrackerT
//@map /VecDeque<Headers>/ => VxHeaderDeque
//@map /OrderedMap<L::Key, \(L, ListenSlot\)>/ => VxListenerMap
//@map /Vec<\(OutPoint, \(ChainMonitorState, ListenSlot\)\)>/ => Vec<VxListenerRecord>
//@map /Vec<ChainTrackerListenerEntry>/ => Vec<VxListenerRecord>
verus! {

//@@TAGS

#[verifier::external_body] pub struct VxValidatorFactory { _p: u8 }
#[verifier::external_body] pub struct PublicKey { _p: u8 }
#[verifier::external_body] pub struct Network { _p: u8 }
#[verifier::external_body] pub struct Headers { _p: u8 }              // (BlockHeader, FilterHeader)
#[verifier::external_body] pub struct VxHeaderDeque { _p: u8 }        // VecDeque<Headers>
#[verifier::external_body] pub struct VxListenerMap { _p: u8 }        // OrderedMap<OutPoint, (ChainMonitor, ListenSlot)>
#[verifier::external_body] pub struct VxListenerRecord { _p: u8 }     // (OutPoint, (ChainMonitorState, ListenSlot)) resp. ChainTrackerListenerEntry: same triple
impl Clone for PublicKey { #[verifier::external_body] fn clone(&self) -> (r: Self) ensures r == *self { unimplemented!() } }
impl Clone for Network { #[verifier::external_body] fn clone(&self) -> (r: Self) ensures r == *self { unimplemented!() } }
impl Copy for Network {}

//@type vls-persist/src/model.rs :: ChainTrackerEntry

// the tracker as far as the two conversions look into it
pub struct VxTrackerT { pub tip: Headers, pub headers: VxHeaderDeque, pub listeners: VxListenerMap, pub network: Network, pub height: u32,
    pub trusted_oracle_pubkeys: Vec<PublicKey>, pub allow_deep_reorgs: bool }
impl VxTrackerT {
    #[verifier::external_body] pub fn height(&self) -> (r: u32) ensures r == self.height { unimplemented!() }
}
impl VxListenerMap {
    pub uninterp spec fn is_empty_map(&self) -> bool;
    #[verifier::external_body] pub fn new() -> (r: VxListenerMap) ensures r.is_empty_map() { unimplemented!() }
}

// consensus serialisation (rust-bitcoin / serde_bolt; TCB) and the element-wise collections
pub uninterp spec fn ser_headers(h: Headers) -> Seq<u8>;
pub uninterp spec fn de_tip(b: Seq<u8>) -> Headers;                     // deserialize::<Headers>, falling back to a bare block header with an all-zero filter header
pub uninterp spec fn ser_all(d: VxHeaderDeque) -> Seq<Vec<u8>>;
pub uninterp spec fn de_all(s: Seq<Vec<u8>>) -> VxHeaderDeque;
pub uninterp spec fn listener_records(m: VxListenerMap) -> Seq<VxListenerRecord>;   // (key, (listener state, slot)) for every listener
#[verifier::external_body]
pub fn vx_ser_headers(h: &Headers) -> (r: Vec<u8>) ensures r@ == ser_headers(*h) { unimplemented!() }
#[verifier::external_body]
pub fn vx_ser_all(d: &VxHeaderDeque) -> (r: Vec<Vec<u8>>) ensures r@ == ser_all(*d) { unimplemented!() }
#[verifier::external_body]
pub fn vx_listener_records(m: &VxListenerMap) -> (r: Vec<VxListenerRecord>) ensures r@ == listener_records(*m) { unimplemented!() }
#[verifier::external_body]
pub fn vx_de_tip(b: &Vec<u8>) -> (r: Headers) ensures r == de_tip(b@) { unimplemented!() }
#[verifier::external_body]
pub fn vx_de_all(s: &Vec<Vec<u8>>) -> (r: VxHeaderDeque) ensures r == de_all(s@) { unimplemented!() }
// `.into_iter().map(|(outpoint, (state, slot))| ChainTrackerListenerEntry(outpoint, (state, slot))).collect()`: the same triples
#[verifier::external_body]
pub fn vx_as_listener_entries(l: Vec<VxListenerRecord>) -> (r: Vec<VxListenerRecord>) ensures r@ == l@ { unimplemented!() }

impl VxTrackerT {
//@fn vls-core/src/chain/tracker.rs :: impl<L: ChainListener> ChainTracker<L> :: restore mode=trusted
    ensures r.tip == tip && r.height == height && r.headers == headers && r.listeners == listeners && r.network == network
        && r.trusted_oracle_pubkeys == trusted_oracle_pubkeys && !r.allow_deep_reorgs,
//@end
}

impl ChainTrackerEntry {

//@fn vls-persist/src/model.rs :: impl From<&ChainTracker<ChainMonitor>> for ChainTrackerEntry :: from props=C11
    ensures
        r.tip@ == ser_headers(t.tip) && r.height == t.height && r.network == t.network
        && r.headers@ == ser_all(t.headers) && r.listeners@ == listener_records(t.listeners),                      //[C11.store.tracker-record-carries-tip-height-headers-listeners]
//@sub /serialize\(&t\.tip\)/ => vx_ser_headers(&t.tip)
//@sub /t\.headers\.iter\(\)\.map\(\|h\| serialize\(h\)\)\.collect\(\)/ => vx_ser_all(&t.headers)
//@sub /(?s)t\s*\.listeners\s*\.iter\(\)\s*\.map\(\|\(k, \(l, s\)\)\| \(k\.clone\(\), \(l\.get_state\(\)\.clone\(\), s\.clone\(\)\)\)\)\s*\.collect\(\)/ => vx_listener_records(&t.listeners)
//@end

//@fn vls-persist/src/model.rs :: impl ChainTrackerEntry :: into_tracker props=C11
    ensures
        // the restarted tracker stands at the stored tip and height with the stored headers; its listeners are handed
        // back, one record per stored listener, for Node::new_from_persistence to re-attach (unit node_restore_channels)
        r.0.tip == de_tip(self.tip@) && r.0.height == self.height && r.0.network == self.network
        && r.0.headers == de_all(self.headers@) && r.1@ == self.listeners@,                                         //[C11.store.tracker-restored-from-its-record]
        r.0.listeners.is_empty_map(),
//@sub /(?s)let tip(?:: Headers)? = match deserialize::<Headers>\(&self\.tip\) \{.*?Ok\(t\) => t,\s*\};/ => let tip: Headers = vx_de_tip(&self.tip);
//@sub /(?s)self\.headers\.iter\(\)\.map\(\|h\| deserialize\(h\)\.vx_expect\(\)\)\.collect\(\)/ => vx_de_all(&self.headers)
//@sub /(?s)let listeners: Vec<_> = self\s*\.listeners\s*\.into_iter\(\)\s*\.map\(\|\(outpoint, \(state, slot\)\)\| ChainTrackerListenerEntry\(outpoint, \(state, slot\)\)\)\s*\.collect\(\);/ => let listeners: Vec<VxListenerRecord> = vx_as_listener_entries(self.listeners);
//@sub /ChainTracker::restore\(/ => VxTrackerT::restore(
//@sub /OrderedMap::new\(\)/ => VxListenerMap::new()
//@end

}

// ---- the persister: the tracker record of a node (key, serde (de)serialisation assumed a round trip, store put / get) ----
#[verifier::external_body] pub struct VxKvvPersister { _p: u8 }
#[verifier::external_body] pub struct Error { _p: u8 }
pub uninterp spec fn ser_tracker_entry(e: ChainTrackerEntry) -> Seq<u8>;
pub uninterp spec fn de_tracker_entry(b: Seq<u8>) -> ChainTrackerEntry;
#[verifier::external_body]
pub fn vx_ser_tracker_entry(e: &ChainTrackerEntry) -> (r: Result<Vec<u8>, Error>) ensures r.is_ok() ==> r->Ok_0@ == ser_tracker_entry(*e) { unimplemented!() }
#[verifier::external_body]
pub fn vx_de_tracker_entry(v: &Vec<u8>) -> (r: Result<ChainTrackerEntry, Error>) ensures r.is_ok() ==> r->Ok_0 == de_tracker_entry(v@) { unimplemented!() }
impl VxKvvPersister {
    pub uninterp spec fn kv_put_tracker(&self, node_id: PublicKey, value: Seq<u8>) -> bool;     // call marker: put(tracker key of this node, value)
    pub uninterp spec fn stored_tracker(&self, node_id: PublicKey) -> Option<(u64, Vec<u8>)>;   // get(tracker key of this node)
    #[verifier::external_body]
    pub fn vx_put_tracker(&self, node_id: &PublicKey, value: Vec<u8>) -> (r: Result<(), Error>) ensures r.is_ok() ==> self.kv_put_tracker(*node_id, value@) { unimplemented!() }
    #[verifier::external_body]
    pub fn vx_get_tracker_record(&self, node_id: &PublicKey) -> (r: Result<Option<(u64, Vec<u8>)>, Error>) ensures r.is_ok() ==> r->Ok_0 == self.stored_tracker(*node_id) { unimplemented!() }

//@fn vls-persist/src/kvv.rs :: impl<S: KVVStore, F: ValueFormat> Persist for KVVPersister<S, F> :: update_tracker props=C11
    ensures
        // the record written under this node's tracker key carries the tracker's tip, height, network, headers and listeners
        r.is_ok() ==> exists|e: ChainTrackerEntry| e.tip@ == ser_headers(tracker.tip) && e.height == tracker.height && e.network == tracker.network
            && e.headers@ == ser_all(tracker.headers) && e.listeners@ == listener_records(tracker.listeners)
            && #[trigger] self.kv_put_tracker(*node_id, ser_tracker_entry(e)),                                    //[C11.store.tracker-record-written-under-node-key]
//@sub /let key = make_key\(NODE_TRACKER_PREFIX, &node_id\.serialize\(\)\);/ => 
//@sub /let model: ChainTrackerEntry = tracker\.into\(\);/ => let model: ChainTrackerEntry = ChainTrackerEntry::from(tracker);
//@sub /F::ser_value\(&model\)\?/ => vx_ser_tracker_entry(&model)?
//@sub /self\.put\(&key, value\)/ => self.vx_put_tracker(node_id, value)
//@end

//@fn vls-persist/src/kvv.rs :: impl<S: KVVStore, F: ValueFormat> Persist for KVVPersister<S, F> :: new_tracker props=C11
    ensures
        r.is_ok() ==> exists|e: ChainTrackerEntry| e.tip@ == ser_headers(tracker.tip) && e.height == tracker.height && e.network == tracker.network
            && e.headers@ == ser_all(tracker.headers) && e.listeners@ == listener_records(tracker.listeners)
            && #[trigger] self.kv_put_tracker(*node_id, ser_tracker_entry(e)),                                    //[C11.store.new-tracker-record-written]
//@end

//@fn vls-persist/src/kvv.rs :: impl<S: KVVStore, F: ValueFormat> Persist for KVVPersister<S, F> :: get_tracker props=C11
    ensures
        // the tracker handed to the restart path is built from the record stored under this node's tracker key
        r.is_ok() ==> self.stored_tracker(node_id).is_some() && ({
            let e = de_tracker_entry(self.stored_tracker(node_id)->Some_0.1@);
            r->Ok_0.0.tip == de_tip(e.tip@) && r->Ok_0.0.height == e.height && r->Ok_0.0.network == e.network
            && r->Ok_0.0.headers == de_all(e.headers@) && r->Ok_0.1@ == e.listeners@ }),                          //[C11.store.tracker-read-back-from-node-key]
//@sub /let key = make_key\(NODE_TRACKER_PREFIX, &node_id\.serialize\(\)\);/ => 
//@sub /self\.get\(&key\)\?/ => self.vx_get_tracker_record(&node_id)?
//@sub /let model: ChainTrackerEntry = F::de_value\(&value\)\?;/ => let model: ChainTrackerEntry = vx_de_tracker_entry(&value)?;
//@end
}

} // verus!
fn main() {}
