//@unit keys
//@props C18
// Contracts on channel key derivation (vls-core/src/signer/derive.rs): the keys id and the native
// channel keys are functions of exactly (seed base, channel id) resp. (keys id).
use vstd::prelude::*;
use vstd::std_specs::cmp::OrdSpec;
//@include prelude/core.rs
//@include prelude/deps.rs
//@include prelude/btc.rs
//@map /Secp256k1<secp256k1::All>/ => VxSecp
//@map /Secp256k1::new\(\)/ => VxSecp::new()
//@map /\bAtomicUsize\b/ => VxAtomic
//@map /\bAtomicU32\b/ => VxAtomic
//@map /derive::key_derive\(/ => vx_key_derive(
//@map /"per-peer seed"\.as_bytes\(\)/ => vx_info_per_peer_seed()
//@macro key_step => @expand
verus! {

#[verifier::external_body] pub struct VxSecp { _p: u8 }
#[verifier::external_body] pub struct Xpriv { _p: u8 }
#[verifier::external_body] pub struct Network { _p: u8 }
impl Clone for Network { #[verifier::external_body] fn clone(&self) -> (r: Self) ensures r == *self { unimplemented!() } }
impl Copy for Network {}

#[verifier::external_body] pub struct ExpandedKey { _p: u8 }
#[verifier::external_body] pub struct Sha256State { _p: u8 }
#[verifier::external_body] pub struct VxAtomic { _p: u8 }
#[verifier::external_body] pub struct Ordering { _p: u8 }
impl Ordering { #[verifier::external_body] pub fn vx_acq_rel() -> Ordering { unimplemented!() } }
impl VxAtomic {
    // AtomicU32 / AtomicUsize::fetch_add: any value (the counter is not part of what the keys may depend on)
    #[verifier::external_body] pub fn fetch_add(&self, v: u32, o: Ordering) -> u32 { unimplemented!() }
}
impl VxSecp { #[verifier::external_body] pub fn new() -> VxSecp { unimplemented!() } }
impl Clone for Xpriv { #[verifier::external_body] fn clone(&self) -> (r: Self) ensures r == *self { unimplemented!() } }

// LDK InMemorySigner: the six secrets it is built from are "the channel's keys" (basepoints, funding key and the
// per-commitment secrets / points are LDK's functions of these six values; lightning crate, TCB)
#[verifier::external_body] pub struct InMemorySigner { _p: u8 }
pub uninterp spec fn ldk_secrets(k: InMemorySigner) -> (SecretKey, SecretKey, SecretKey, SecretKey, SecretKey, Seq<u8>);
impl InMemorySigner {
    // (funding, revocation base, payment, delayed payment base, htlc base, commitment seed, value, keys id, entropy)
    #[verifier::external_body]
    pub fn new(secp: &VxSecp, funding_key: SecretKey, revocation_base_key: SecretKey, payment_key: SecretKey,
        delayed_payment_base_key: SecretKey, htlc_base_key: SecretKey, commitment_seed: [u8; 32], channel_value_satoshis: u64,
        channel_keys_id: [u8; 32], rand_bytes_unique_start: [u8; 32]) -> (r: InMemorySigner)
        ensures ldk_secrets(r) == (funding_key, revocation_base_key, payment_key, delayed_payment_base_key, htlc_base_key, commitment_seed@)
    { unimplemented!() }
}

// HKDF-SHA256 (util/crypto_utils.rs over bitcoin_hashes): deterministic, uninterpreted
pub uninterp spec fn hkdf32(secret: Seq<u8>, info: Seq<u8>, salt: Seq<u8>) -> [u8; 32];
pub uninterp spec fn hkdf192(secret: Seq<u8>, info: Seq<u8>, salt: Seq<u8>) -> [u8; 192];
pub uninterp spec fn info_per_peer_seed() -> Seq<u8>;      // b"per-peer seed"
pub uninterp spec fn info_c_lightning() -> Seq<u8>;        // b"c-lightning"
#[verifier::external_body]
pub fn hkdf_sha256(secret: &[u8], info: &[u8], salt: &[u8]) -> (r: [u8; 32]) ensures r == hkdf32(secret@, info@, salt@) { unimplemented!() }
#[verifier::external_body]
pub fn hkdf_sha256_keys(secret: &[u8], info: &[u8], salt: &[u8]) -> (r: [u8; 192]) ensures r == hkdf192(secret@, info@, salt@) { unimplemented!() }
#[verifier::external_body]
pub fn vx_info_per_peer_seed() -> (r: &'static [u8]) ensures r@ == info_per_peer_seed() { b"per-peer seed" }
#[verifier::external_body]
pub fn vx_info_c_lightning() -> (r: &'static [u8]) ensures r@ == info_c_lightning() { b"c-lightning" }

pub uninterp spec fn sk_of_bytes(b: Seq<u8>) -> SecretKey;
// SecretKey::from_slice(&buf[off..off + 32]).unwrap()  /  buf[off..off + 32].try_into().unwrap()  (range slicing, R5 helper)
#[verifier::external_body]
pub fn vx_sk_from(buf: &[u8; 192], off: usize) -> (r: SecretKey)
    requires off + 32 <= 192,
    ensures r == sk_of_bytes(buf@.subrange(off as int, off + 32))
{ unimplemented!() }
#[verifier::external_body]
pub fn vx_arr32_from(buf: &[u8; 192], off: usize) -> (r: [u8; 32])
    requires off + 32 <= 192,
    ensures r@ == buf@.subrange(off as int, off + 32)
{ unimplemented!() }

impl ChannelId {
    pub uninterp spec fn bytes(&self) -> Seq<u8>;
    #[verifier::external_body]
    pub fn as_slice(&self) -> (r: &[u8]) ensures r@ == self.bytes() { unimplemented!() }
}

//@type vls-core/src/signer/derive.rs :: NativeKeyDerive derive=Clone
//@type vls-core/src/signer/derive.rs :: LdkKeyDerive
//@type vls-core/src/signer/derive.rs :: KeyDerivationStyle derive=Clone,Copy
//@type vls-core/src/signer/my_keys_manager.rs :: MyKeysManager

// ------------------------------------------------------------------ spec side (C18)
// the keys id of a channel depends on the node's channel seed base and the channel id, nothing else
pub open spec fn keys_id_spec(seed_base: [u8; 32], id: ChannelId) -> [u8; 32] {
    hkdf32(seed_base@, info_per_peer_seed(), id.bytes())
}
pub open spec fn ldk_keys_id_spec(seed_base: [u8; 32], id: ChannelId, r: [u8; 32]) -> bool {
    let h = keys_id_spec(seed_base, id);
    r[0] == 0 && r[1] == 0 && r[2] == 0 && r[3] == 0 && r[4] == (h[4] & 0x7f)
    && forall|i: int| 5 <= i < 32 ==> r[i] == h[i]
}
// native (CLN compatible) channel secrets: six 32-byte slices of one HKDF expansion of the keys id
pub open spec fn native_keys_spec(keys_id: [u8; 32]) -> (SecretKey, SecretKey, SecretKey, SecretKey, SecretKey, Seq<u8>) {
    let b = hkdf192(keys_id@, info_c_lightning(), Seq::<u8>::empty())@;
    (sk_of_bytes(b.subrange(0, 32)), sk_of_bytes(b.subrange(32, 64)), sk_of_bytes(b.subrange(64, 96)),
     sk_of_bytes(b.subrange(96, 128)), sk_of_bytes(b.subrange(128, 160)), b.subrange(160, 192))
}

pub trait KeyDerive {
//@fn vls-core/src/signer/derive.rs :: trait KeyDerive :: keys_id props=C18
    ensures r == keys_id_spec(*channel_seed_base, channel_id),                                    //[C18.keys-id.function-of-seed-and-id]
//@end
}

impl NativeKeyDerive {
//@fn vls-core/src/signer/derive.rs :: impl KeyDerive for NativeKeyDerive :: channel_keys props=C18
    ensures
        // funding, revocation, htlc, payment, delayed-payment secrets and the commitment seed depend on keys_id only:
        // not on the seed argument, the base point index (creation order), the master key or any other channel
        (r.0, r.1, r.2, r.3, r.4, r.5@) == native_keys_spec(*keys_id),                             //[C18.native.keys-function-of-keys-id]
//@sub /SecretKey::from_slice\(&keys_buf\[ndx\.\.ndx \+ 32\]\)\.vx_expect\(\)/ => vx_sk_from(&keys_buf, ndx)
//@sub /keys_buf\[ndx\.\.ndx \+ 32\]\.try_into\(\)\.vx_expect\(\)/ => vx_arr32_from(&keys_buf, ndx)
// the HKDF info is the constant b"c-lightning" (bound to a local or written in place): the binding is part of the anchor
//@sub /(?:let hkdf_info = "c-lightning";\s*)?(let keys_buf: \[u8; 192\] = hkdf_sha256_keys\(keys_id, )(?:hkdf_info|"c-lightning")\.as_bytes\(\), &\[\]\);/ => \1vx_info_c_lightning(), &vx_empty());
//@end
}

impl LdkKeyDerive {
//@fn vls-core/src/signer/derive.rs :: impl KeyDerive for LdkKeyDerive :: keys_id props=C18
    ensures ldk_keys_id_spec(*channel_seed_base, channel_id, r),                                  //[C18.ldk.keys-id-function-of-seed-and-id]
//@proof before /^\s*res\s*$/
        proof { }
//@end

//@fn vls-core/src/signer/derive.rs :: impl KeyDerive for LdkKeyDerive :: channel_keys props=C18
    ensures
        // the six secrets are a function of the node seed, the WHOLE keys id and the master key - not of the base point index
        // (creation order) or anything else
        (r.0, r.1, r.2, r.3, r.4, r.5@) == ldk_channel_keys_spec(seed@, *keys_id, *master_key),          //[C18.ldk.keys-function-of-seed-keys-id-and-master-key]
//@sub /byte_utils::slice_to_be64\(&keys_id\[0\.\.8\]\)/ => vx_be64_prefix(keys_id)
//@sub /(\w+)\s*\.derive_priv\(\s*&?secp_ctx,\s*&\[ChildNumber::from_hardened_idx\(([^()]*)\)\.vx_expect\(\)\],?\s*\)\s*\.vx_expect\(\)/ => vx_derive_hardened(&\1, \2)
//@sub /\bSha256::/ => VxSha::
//@sub? /\.input\(keys_id\)/ => .input(keys_id.vx_as_bytes())
//@sub? /\.input\(&channel_seed\)/ => .input(channel_seed.vx_as_bytes())
//@sub /child_privkey\.private_key\.as_ref\(\)/ => child_privkey.vx_private_key_bytes()
//@sub /&\(?b"([A-Za-z ]+)"\)?\[\.\.\]/ => vx_lit("\1")
//@sub /&\((\w+)\)\[\.\.\]/ => \1.vx_as_bytes()
//@sub /core::u32::MAX/ => u32::MAX
//@end
}


// ------------------------------------------------------------------ MyKeysManager (C18)
// derive::key_derive(style, network): Box<dyn KeyDerive> (R6).  The carrier remembers the style; its two methods carry
// the contracts proved above on the implementations it dispatches to (Native: default keys_id + NativeKeyDerive::
// channel_keys; Ldk: LdkKeyDerive::keys_id; LdkKeyDerive::channel_keys and the Lnd style are NOT under contract: for
// Ldk the result is assumed to be a function of (seed, keys id, master key), which is what its signature uses besides
// the ignored `_basepoint_index`; for Lnd nothing is assumed - the property is about the native and LDK styles)

// ---- SHA-256 engine, BIP-32 hardened child derivation, byte views (bitcoin_hashes / bitcoin::bip32 / secp256k1: uninterpreted)
pub uninterp spec fn sha256_spec(b: Seq<u8>) -> Seq<u8>;
pub uninterp spec fn lit_bytes(s: Seq<char>) -> Seq<u8>;                  // the bytes of an ASCII byte-string literal b"..."
pub uninterp spec fn sk_bytes(k: SecretKey) -> Seq<u8>;                   // &key[..]
pub uninterp spec fn xpriv_child(parent: Xpriv, hardened_index: u32) -> Xpriv;
pub uninterp spec fn xpriv_secret_bytes(x: Xpriv) -> Seq<u8>;             // x.private_key.as_ref()
pub uninterp spec fn be64(b: Seq<u8>) -> u64;                             // byte_utils::slice_to_be64
#[verifier::external_body] pub struct VxShaEngine { _p: u8 }
#[verifier::external_body] pub struct VxShaHash { _p: u8 }
pub struct VxSha { pub p: u8 }
impl VxShaEngine {
    pub uninterp spec fn data(&self) -> Seq<u8>;
    #[verifier::external_body] pub fn input(&mut self, b: &[u8]) ensures final(self).data() == old(self).data() + b@ { unimplemented!() }
}
impl VxShaHash {
    pub uninterp spec fn bytes(&self) -> Seq<u8>;
    #[verifier::external_body] pub fn to_byte_array(self) -> (r: [u8; 32]) ensures r@ == self.bytes() { unimplemented!() }
    #[verifier::external_body] pub fn as_ref(&self) -> (r: &[u8]) ensures r@ == self.bytes() { unimplemented!() }
}
impl VxSha {
    #[verifier::external_body] pub fn engine() -> (r: VxShaEngine) ensures r.data() == Seq::<u8>::empty() { unimplemented!() }
    #[verifier::external_body] pub fn from_engine(e: VxShaEngine) -> (r: VxShaHash) ensures r.bytes() == sha256_spec(e.data()) { unimplemented!() }
}
pub struct VxBadSlice { pub p: u8 }
impl SecretKey {
    #[verifier::external_body] pub fn from_slice(b: &[u8]) -> (r: Result<SecretKey, VxBadSlice>) ensures r.is_ok() ==> r->Ok_0 == sk_of_bytes(b@) { unimplemented!() }
}
pub trait VxAsBytes { spec fn bytes_spec(&self) -> Seq<u8>; fn vx_as_bytes(&self) -> (r: &[u8]) ensures r@ == self.bytes_spec(); }
impl VxAsBytes for [u8; 32] {
    open spec fn bytes_spec(&self) -> Seq<u8> { self@ }
    #[verifier::external_body] fn vx_as_bytes(&self) -> (r: &[u8]) { &self[..] }
}
impl VxAsBytes for SecretKey {
    open spec fn bytes_spec(&self) -> Seq<u8> { sk_bytes(*self) }
    #[verifier::external_body] fn vx_as_bytes(&self) -> (r: &[u8]) { unimplemented!() }
}
#[verifier::external_body] pub fn vx_lit(s: &str) -> (r: &'static [u8]) ensures r@ == lit_bytes(s@) { unimplemented!() }
#[verifier::external_body] pub fn vx_be64_prefix(k: &[u8; 32]) -> (r: u64) ensures r == be64(k@.subrange(0, 8)) { unimplemented!() }
// parent.derive_priv(secp, &[ChildNumber::from_hardened_idx(i).unwrap()]).expect(..): the hardened child i (abort when i >= 2^31)
#[verifier::external_body] pub fn vx_derive_hardened(parent: &Xpriv, i: u32) -> (r: Xpriv) ensures r == xpriv_child(*parent, i) { unimplemented!() }
impl Xpriv { #[verifier::external_body] pub fn vx_private_key_bytes(&self) -> (r: &[u8]) ensures r@ == xpriv_secret_bytes(*self) { unimplemented!() } }

// the LDK style: the channel seed hashes the WHOLE keys id, the node seed and the secret of the hardened child
// m/3'/<first eight bytes of the keys id>' of the master key; every secret is a hash of the channel seed, the previous secret and its
// own label
pub open spec fn ldk_channel_seed(seed: Seq<u8>, keys_id: [u8; 32], master: Xpriv) -> Seq<u8> {
    sha256_spec(keys_id@ + seed + xpriv_secret_bytes(xpriv_child(xpriv_child(master, 3), be64(keys_id@.subrange(0, 8)) as u32)))
}
pub open spec fn ldk_key_step(cs: Seq<u8>, prev: Seq<u8>, info: Seq<char>) -> SecretKey { sk_of_bytes(sha256_spec(cs + prev + lit_bytes(info))) }
pub struct VxKeyDerive { pub style: KeyDerivationStyle, pub network: Network }
#[verifier::external_body]
pub fn vx_key_derive(style: KeyDerivationStyle, network: Network) -> (r: VxKeyDerive) ensures r.style == style { unimplemented!() }
// LdkKeyDerive::channel_keys is VERIFIED against this function below (it was an assumed, uninterpreted function before)
pub open spec fn ldk_channel_keys_spec(seed: Seq<u8>, keys_id: [u8; 32], master: Xpriv) -> (SecretKey, SecretKey, SecretKey, SecretKey, SecretKey, Seq<u8>) {
    let cs = ldk_channel_seed(seed, keys_id, master);
    let commitment_seed = sha256_spec(cs + lit_bytes("commitment seed"@));
    let funding = ldk_key_step(cs, commitment_seed, "funding key"@);
    let revocation = ldk_key_step(cs, sk_bytes(funding), "revocation base key"@);
    let payment = ldk_key_step(cs, sk_bytes(revocation), "payment key"@);
    let delayed = ldk_key_step(cs, sk_bytes(payment), "delayed payment base key"@);
    let htlc = ldk_key_step(cs, sk_bytes(delayed), "HTLC base key"@);
    (funding, revocation, htlc, payment, delayed, commitment_seed)
}
pub open spec fn style_keys_id(style: KeyDerivationStyle, seed_base: [u8; 32], id: ChannelId, r: [u8; 32]) -> bool {
    match style {
        KeyDerivationStyle::Ldk => ldk_keys_id_spec(seed_base, id, r),
        _ => r == keys_id_spec(seed_base, id),
    }
}
// (funding, revocation, payment, delayed, htlc, commitment seed) in InMemorySigner::new's argument order
pub open spec fn style_secrets(style: KeyDerivationStyle, seed: Seq<u8>, master: Xpriv, keys_id: [u8; 32])
    -> (SecretKey, SecretKey, SecretKey, SecretKey, SecretKey, Seq<u8>) {
    let k = match style {
        KeyDerivationStyle::Ldk => ldk_channel_keys_spec(seed, keys_id, master),
        _ => native_keys_spec(keys_id),
    };
    (k.0, k.1, k.3, k.4, k.2, k.5)      // channel_keys returns (funding, revocation, htlc, payment, delayed, seed)
}
impl VxKeyDerive {
    #[verifier::external_body]
    pub fn keys_id(&self, channel_id: ChannelId, channel_seed_base: &[u8; 32]) -> (r: [u8; 32])
        ensures style_keys_id(self.style, *channel_seed_base, channel_id, r)
    { unimplemented!() }
    #[verifier::external_body]
    pub fn channel_keys(&self, seed: &[u8], keys_id: &[u8; 32], basepoint_index: u32, master_key: &Xpriv, secp_ctx: &VxSecp)
        -> (r: (SecretKey, SecretKey, SecretKey, SecretKey, SecretKey, [u8; 32]))
        ensures
            self.style is Native ==> (r.0, r.1, r.2, r.3, r.4, r.5@) == native_keys_spec(*keys_id),
            self.style is Ldk ==> (r.0, r.1, r.2, r.3, r.4, r.5@) == ldk_channel_keys_spec(seed@, *keys_id, *master_key),
    { unimplemented!() }
}

impl MyKeysManager {
    #[verifier::external_body]
    fn get_secure_random_bytes(&self) -> [u8; 32] { unimplemented!() }

//@fn vls-core/src/signer/my_keys_manager.rs :: impl MyKeysManager :: get_channel_keys_with_keys_id props=C18
    ensures
        // native and LDK styles: the six secrets depend on (style, node seed, master key, keys id) only - not on the
        // basepoint counter (how many channels were created before), the entropy source, or the channel value
        !(self.key_derivation_style is Lnd) ==>
            ldk_secrets(r) == style_secrets(self.key_derivation_style, self.seed@, self.master_key, keys_id),     //[C18.km.secrets-function-of-seed-and-keys-id]
//@sub /Ordering::AcqRel/ => Ordering::vx_acq_rel()
//@end

//@fn vls-core/src/signer/my_keys_manager.rs :: impl MyKeysManager :: get_channel_keys_with_id props=C18
    ensures
        // ... and the keys id depends on (channel seed base, channel id) only
        !(self.key_derivation_style is Lnd) ==> exists|kid: [u8; 32]|
            style_keys_id(self.key_derivation_style, self.channel_seed_base, channel_id, kid)
            && ldk_secrets(r) == style_secrets(self.key_derivation_style, self.seed@, self.master_key, kid),      //[C18.km.secrets-function-of-seed-and-channel-id]
//@end
}

#[verifier::external_body]
pub fn vx_empty() -> (r: [u8; 0]) ensures r@ == Seq::<u8>::empty() { [] }

// creation, setup and restore all derive from the same (seed base, channel id): equal ids give equal keys
pub proof fn c18_same_id_same_keys(seed_base: [u8; 32], a: ChannelId, b: ChannelId)
    requires a == b,
    ensures native_keys_spec(keys_id_spec(seed_base, a)) == native_keys_spec(keys_id_spec(seed_base, b)),   //[C18.lemma.stable]
{}

} // verus!
fn main() {}
