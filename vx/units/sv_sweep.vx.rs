//@unit sv_sweep
//@props C09
// Contracts on SimpleValidator sweep / second-level HTLC validation (vls-core/src/policy/simple_validator.rs).
use vstd::prelude::*;
use vstd::std_specs::cmp::OrdSpec;
//@include prelude/core.rs
//@include prelude/deps.rs
//@include prelude/btc.rs
//@include frag/enforcement_types.rs
//@include prelude/channel_deps.rs
//@include prelude/ldk_tx.rs
//@include prelude/sv_deps.rs
//@include prelude/wallet.rs
//@map /Weak<Node>/ => VxNodeRef
//@map /Secp256k1<All>/ => VxSecp
//@map /\bPolicyFilter\b/ => VxPolicyFilter
//@map /&dyn Wallet/ => &VxWallet
//@map /SimpleValidator::ANCHOR_SEQS/ => ANCHOR_SEQS
//@map /SimpleValidator::NON_ANCHOR_SEQS/ => NON_ANCHOR_SEQS
//@map /!valid_seqs\.contains\(&seq\)/ => !vx_contains_u32(&valid_seqs, seq)
verus! {

//@@TAGS

//@include frag/enforcement_spec.rs
//@include frag/channel_types.rs
//@include frag/channel_spec.rs
//@include frag/sv_types.rs
//@include frag/sv_spec.rs
//@const vls-core/src/policy/simple_validator.rs :: ANCHOR_SEQS ctx="impl SimpleValidator"
//@const vls-core/src/policy/simple_validator.rs :: NON_ANCHOR_SEQS ctx="impl SimpleValidator"
//@const vls-core/src/policy/simple_validator.rs :: MAX_CHAIN_LAG

#[verifier::external_body]
pub fn vx_contains_u32(v: &Vec<u32>, x: u32) -> (r: bool) ensures r == v@.contains(x) { v.contains(&x) }

impl ChannelSetup {
//@fn vls-core/src/channel.rs :: impl ChannelSetup :: is_anchors mode=trusted
    ensures r == setup_is_anchors(*self),
//@end
//@fn vls-core/src/channel.rs :: impl ChannelSetup :: is_zero_fee_htlc mode=trusted
    ensures r == setup_is_zero_fee_htlc(*self),
//@end
//@fn vls-core/src/channel.rs :: impl ChannelSetup :: features mode=trusted
    ensures r == setup_features(*self),
//@end
}

//@fn vls-core/src/util/transaction_utils.rs :: - :: estimate_feerate_per_kw mode=trusted
    requires weight > 0,
    ensures r == feerate_sat(total_fee as nat, weight as nat),
//@end

//@include frag/sweep_spec.rs
pub open spec fn sv_policy(v: SimpleValidator) -> SimplePolicy { v.policy }

impl SimpleValidator {

//@fn vls-core/src/policy/simple_validator.rs :: impl SimpleValidator :: validate_sweep props=C09
    ensures
        r.is_ok() && vx_strict(T_policy_sweep_destination_allowlisted) ==> sweep_pays_node(*wallet, *tx, *wallet_path),   //[C09.sweep.destinations]
//@loop 1 iter=it
            invariant
                vx_strict(T_policy_sweep_destination_allowlisted) ==>
                    forall|i: int| 0 <= i < it.index@ ==> wallet_ok(*wallet, (#[trigger] tx.output@[i]).script_pubkey, *wallet_path),
//@end

//@fn vls-core/src/policy/simple_validator.rs :: impl Validator for SimpleValidator :: validate_delayed_sweep props=C09
//@include frag/c/sv_validate_delayed_sweep.rs
//@end

//@fn vls-core/src/policy/simple_validator.rs :: impl Validator for SimpleValidator :: validate_counterparty_htlc_sweep props=C09
//@include frag/c/sv_validate_counterparty_htlc_sweep.rs
//@proof before /if !vx_contains_u32\(&valid_seqs, seq\)/
        proof {
            assert(ANCHOR_SEQS@ =~= anchor_seqs());
            assert(NON_ANCHOR_SEQS@ =~= non_anchor_seqs());
        }
//@end

//@fn vls-core/src/policy/simple_validator.rs :: impl Validator for SimpleValidator :: validate_justice_sweep props=C09
//@include frag/c/sv_validate_justice_sweep.rs
//@proof before /if !vx_contains_u32\(&valid_seqs, seq\)/
        proof { assert(NON_ANCHOR_SEQS@ =~= non_anchor_seqs()); }
//@end

//@fn vls-core/src/policy/simple_validator.rs :: impl Validator for SimpleValidator :: decode_and_validate_htlc_tx props=C09
//@include frag/c/sv_decode_and_validate_htlc_tx.rs
//@sub /(?s)let \(revocation_key, contest_delay, delayed_pubkey\) =.*?\.unwrap_or_else\(\|_vx_unused\| \(vec!\[\], 0, vec!\[\]\)\);/ => 
//@end

//@fn vls-core/src/policy/simple_validator.rs :: impl Validator for SimpleValidator :: validate_htlc_tx props=C09
//@include frag/c/sv_validate_htlc_tx.rs
//@end

} // impl

} // verus!
fn main() {}
