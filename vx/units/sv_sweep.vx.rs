//@unit sv_sweep
//@props C09
// Contracts on SimpleValidator sweep / second-level HTLC validation (vls-core/src/policy/simple_validator.rs).
use vstd::prelude::*;
use vstd::std_specs::cmp::OrdSpec;
//@include prelude/core.rs
//@include prelude/deps.rs
//@include prelude/btc.rs
//@include frag/enforcement_types.rs
//@include prelude/channel_deps.rs
//@include prelude/ldk_tx.rs
//@include prelude/sv_deps.rs
//@include prelude/wallet.rs
//@map /Weak<Node>/ => VxNodeRef
//@map /Secp256k1<All>/ => VxSecp
//@map /\bPolicyFilter\b/ => VxPolicyFilter
//@map /&dyn Wallet/ => &VxWallet
//@map /SimpleValidator::ANCHOR_SEQS/ => ANCHOR_SEQS
//@map /SimpleValidator::NON_ANCHOR_SEQS/ => NON_ANCHOR_SEQS
//@map /!valid_seqs\.contains\(&seq\)/ => !vx_contains_u32(&valid_seqs, seq)
verus! {

//@@TAGS

//@include frag/enforcement_spec.rs
//@include frag/channel_types.rs
//@include frag/channel_spec.rs
//@include frag/sv_types.rs
//@include frag/sv_spec.rs
//@const vls-core/src/policy/simple_validator.rs :: ANCHOR_SEQS ctx="impl SimpleValidator"
//@const vls-core/src/policy/simple_validator.rs :: NON_ANCHOR_SEQS ctx="impl SimpleValidator"
//@const vls-core/src/policy/simple_validator.rs :: MAX_CHAIN_LAG

#[verifier::external_body]
pub fn vx_contains_u32(v: &Vec<u32>, x: u32) -> (r: bool) ensures r == v@.contains(x) { v.contains(&x) }

impl ChannelSetup {
//@fn vls-core/src/channel.rs :: impl ChannelSetup :: is_anchors mode=trusted
    ensures r == setup_is_anchors(*self),
//@end
//@fn vls-core/src/channel.rs :: impl ChannelSetup :: is_zero_fee_htlc mode=trusted
    ensures r == setup_is_zero_fee_htlc(*self),
//@end
//@fn vls-core/src/channel.rs :: impl ChannelSetup :: features mode=trusted
    ensures r == setup_features(*self),
//@end
}

//@fn vls-core/src/util/transaction_utils.rs :: - :: estimate_feerate_per_kw mode=trusted
    requires weight > 0,
    ensures r == feerate_sat(total_fee as nat, weight as nat),
//@end

// ------------------------------------------------------------------ spec side (from the property)
// every output of the sweep pays a wallet-derivable or allowlisted script
pub open spec fn sweep_pays_node(w: VxWallet, tx: Transaction, path: DerivationPath) -> bool {
    tx.version == Version::TWO
    && forall|i: int| 0 <= i < tx.output@.len() ==> wallet_ok(w, (#[trigger] tx.output@[i]).script_pubkey, path)
}
pub open spec fn seq_in(seq: u32, allowed: Seq<u32>) -> bool { allowed.contains(seq) }
pub open spec fn non_anchor_seqs() -> Seq<u32> { seq![0x0000_0000u32, 0xffff_fffdu32, 0xffff_ffffu32] }
pub open spec fn anchor_seqs() -> Seq<u32> { seq![0x0000_0001u32] }

impl SimpleValidator {

//@fn vls-core/src/policy/simple_validator.rs :: impl SimpleValidator :: validate_sweep props=C09
    ensures
        r.is_ok() && vx_strict(T_policy_sweep_destination_allowlisted) ==> sweep_pays_node(*wallet, *tx, *wallet_path),   //[C09.sweep.destinations]
//@loop 1 iter=it
            invariant
                vx_strict(T_policy_sweep_destination_allowlisted) ==>
                    forall|i: int| 0 <= i < it.index@ ==> wallet_ok(*wallet, (#[trigger] tx.output@[i]).script_pubkey, *wallet_path),
//@end

//@fn vls-core/src/policy/simple_validator.rs :: impl Validator for SimpleValidator :: validate_delayed_sweep props=C09
    requires height_sane(*cstate), tx.input@.len() > 0,
    ensures
        r.is_ok() && vx_strict(T_policy_sweep_destination_allowlisted) ==> sweep_pays_node(*wallet, *tx, *wallet_path),   //[C09.delayed.destinations]
        r.is_ok() ==> locktime_satisfied_by_height(tx.lock_time, (cstate.current_height + 2) as u32),                   //[C09.delayed.locktime]
        r.is_ok() ==> tx.input@[0].sequence.0 == setup.counterparty_selected_contest_delay as u32,                      //[C09.delayed.sequence]
//@end

//@fn vls-core/src/policy/simple_validator.rs :: impl Validator for SimpleValidator :: validate_counterparty_htlc_sweep props=C09
    requires height_sane(*cstate), tx.input@.len() > 0,
    ensures
        r.is_ok() && vx_strict(T_policy_sweep_destination_allowlisted) ==> sweep_pays_node(*wallet, *tx, *wallet_path),   //[C09.cp-htlc.destinations]
        // locktime no later than the HTLC expiry (received HTLC) resp. the current height + lag (offered HTLC)
        r.is_ok() ==> (match spec_received_htlc_cltv(*redeemscript, setup_is_anchors(*setup)) {
            Some(cltv) => 0 <= cltv && cltv <= u32::MAX && locktime_consensus(tx.lock_time) <= cltv,
            None => spec_is_offered_htlc(*redeemscript, setup_is_anchors(*setup))
                && locktime_satisfied_by_height(tx.lock_time, (cstate.current_height + 2) as u32),
        }),                                                                                                              //[C09.cp-htlc.locktime]
        r.is_ok() ==> seq_in(tx.input@[0].sequence.0, if setup_is_anchors(*setup) { anchor_seqs() } else { non_anchor_seqs() }),   //[C09.cp-htlc.sequence]
//@proof before /if !vx_contains_u32\(&valid_seqs, seq\)/
        proof {
            assert(ANCHOR_SEQS@ =~= anchor_seqs());
            assert(NON_ANCHOR_SEQS@ =~= non_anchor_seqs());
        }
//@end

//@fn vls-core/src/policy/simple_validator.rs :: impl Validator for SimpleValidator :: validate_justice_sweep props=C09
    requires height_sane(*cstate), tx.input@.len() > 0,
    ensures
        r.is_ok() && vx_strict(T_policy_sweep_destination_allowlisted) ==> sweep_pays_node(*wallet, *tx, *wallet_path),   //[C09.justice.destinations]
        r.is_ok() ==> locktime_satisfied_by_height(tx.lock_time, (cstate.current_height + 2) as u32),                   //[C09.justice.locktime]
        r.is_ok() ==> seq_in(tx.input@[0].sequence.0, non_anchor_seqs()),                                               //[C09.justice.sequence]
//@proof before /if !vx_contains_u32\(&valid_seqs, seq\)/
        proof { assert(NON_ANCHOR_SEQS@ =~= non_anchor_seqs()); }
//@end

//@fn vls-core/src/policy/simple_validator.rs :: impl Validator for SimpleValidator :: decode_and_validate_htlc_tx props=C09
    requires tx.input@.len() > 0, tx.output@.len() > 0, htlc_amount_sat * 1000 <= u64::MAX,
    ensures
        // the sighash handed to the signer is that of the BOLT-3 HTLC transaction rebuilt from the negotiated delay and
        // the channel's revocation / delayed keys - and equals the sighash of the supplied transaction
        r.is_ok() ==> ({
            let (rate, htlc, sh, ty) = r->Ok_0;
            let delay = if is_counterparty { setup.holder_selected_contest_delay } else { setup.counterparty_selected_contest_delay };
            &&& ty == (if setup_is_anchors(*setup) { EcdsaSighashType::SinglePlusAnyoneCanPay } else { EcdsaSighashType::All })
            &&& sh@ == sighash_p2wsh(htlc_tx(tx.input@[0].previous_output.txid, rate, delay, htlc, setup_features(*setup),
                    txkeys.broadcaster_delayed_payment_key, txkeys.revocation_key), 0, *redeemscript, htlc_amount_sat, ty)   //[C09.htlc-tx.sighash-of-rebuilt]
            &&& sh@ == sighash_p2wsh(*tx, 0, *redeemscript, htlc_amount_sat, ty)                                           //[C09.htlc-tx.equals-supplied]
            &&& htlc.amount_msat == htlc_amount_sat * 1000 && htlc.transaction_output_index == Some(tx.input@[0].previous_output.vout)
        }),
//@sub /(?s)let \(revocation_key, contest_delay, delayed_pubkey\) =.*?\.unwrap_or_else\(\|_vx_unused\| \(vec!\[\], 0, vec!\[\]\)\);/ => 
//@end

//@fn vls-core/src/policy/simple_validator.rs :: impl Validator for SimpleValidator :: validate_htlc_tx props=C09
    ensures
        r.is_ok() && vx_strict(T_policy_htlc_fee_range) ==> feerate_per_kw <= self.policy.max_feerate_per_kw
            && (setup_is_zero_fee_htlc(*setup) || feerate_per_kw >= self.policy.min_feerate_per_kw),                       //[C09.htlc-tx.fee-range]
        r.is_ok() && vx_strict(T_policy_htlc_locktime) ==> !(htlc.offered && htlc.cltv_expiry == 0),
//@end

} // impl

} // verus!
fn main() {}
