//@unit sv_onchain
//@props C08
// Contracts on SimpleValidator::{validate_onchain_tx, validate_beneficial_value}
// (vls-core/src/policy/simple_validator.rs) and on Node::check_onchain_tx (vls-core/src/node.rs): the validator is asked
// about the channels found by funding outpoint and the accepted fee is counted by the fee velocity control.
use vstd::prelude::*;
use vstd::std_specs::cmp::OrdSpec;
//@include prelude/core.rs
//@include prelude/deps.rs
//@include prelude/btc.rs
//@include frag/enforcement_types.rs
//@include prelude/channel_deps.rs
//@include prelude/ldk_tx.rs
//@include prelude/sv_deps.rs
//@include prelude/wallet.rs
//@map /Weak<Node>/ => VxNodeRef
//@map /Secp256k1<All>/ => VxSecp
//@map /\bPolicyFilter\b/ => VxPolicyFilter
//@map /&dyn Wallet/ => &VxWallet
//@map /Vec<Option<Arc<Mutex<ChannelSlot>>>>/ => Vec<Option<VxSlot>>
//@map /&\*slot\.lock\(\)\.vx_expect\(\)/ => slot.vx_read()
//@map /Arc<dyn Validator>/ => VxValidator
//@map /channels\.iter\(\)\.any\(\|c\| c\.is_some\(\)\)/ => vx_any_some(&channels)
//@macro defer => {}
//@macro add_beneficial_output => $1.checked_add($2).ok_or_else(|| policy_error(T_policy_onchain_fee_range, vx_msg()))
verus! {

//@@TAGS

//@include frag/enforcement_spec.rs
//@include frag/channel_types.rs
//@include frag/channel_spec.rs
//@include frag/sv_types.rs
//@include frag/sv_spec.rs
//@type vls-core/src/channel.rs :: ChannelSlot
//@const vls-core/src/policy/mod.rs :: MAX_ONCHAIN_TX_SIZE expect="32 * 1024" as="32768usize"
//@const vls-core/src/policy/simple_validator.rs :: DEFAULT_DEV_FLAGS

// Arc<Mutex<ChannelSlot>> (R11): read-only access to the slot content
#[verifier::external_body]
pub struct VxSlot { _p: u8 }
impl VxSlot {
    pub uninterp spec fn view(&self) -> ChannelSlot;
    #[verifier::external_body]
    pub fn vx_read(&self) -> (r: &ChannelSlot) ensures *r == self@ { unimplemented!() }
}
pub open spec fn any_some(s: Seq<Option<VxSlot>>) -> bool { exists|i: int| 0 <= i < s.len() && (#[trigger] s[i]).is_some() }
#[verifier::external_body]
pub fn vx_any_some(v: &Vec<Option<VxSlot>>) -> (r: bool) ensures r == any_some(v@) { unimplemented!() }
#[verifier::external_body]
pub fn unknown_destinations_error(unknowns: Vec<usize>) -> (r: ValidationError) ensures ve_unknown_dest(r) { unimplemented!() }

impl Channel {
//@fn vls-core/src/channel.rs :: impl Channel :: counterparty_pubkeys mode=trusted
    ensures ldk_counterparty_pubkeys(self.keys).is_some(), *r == ldk_counterparty_pubkeys(self.keys)->Some_0,
//@end
}

// ------------------------------------------------------------------ spec side (from the property)
pub open spec fn all_true_flags(s: Seq<bool>) -> bool { forall|i: int| 0 <= i < s.len() ==> s[i] }
pub open spec fn sum_u64(s: Seq<u64>) -> nat
    decreases s.len()
{
    if s.len() == 0 { 0 } else { sum_u64(s.drop_last()) + s.last() as nat }
}
// a channel funding output is accepted only with the exact value and script, for an outbound channel without
// push whose initial holder commitment was already counter-signed
pub open spec fn funds_channel_ok(w: VxWallet, out: TxOut, chan: Channel) -> bool {
    amount_sat(out.value) == chan.setup.channel_value_sat
    && out.script_pubkey == p2wsh_script(funding_redeemscript(ldk_pubkeys(chan.keys).funding_pubkey,
            ldk_counterparty_pubkeys(chan.keys)->Some_0.funding_pubkey), wallet_network(w))
    && chan.enforcement_state.next_holder_commit_num == 1
    && chan.setup.is_outbound
    && chan.setup.push_value_msat / 1000 == 0
}
// value of output i that counts as returned to the node; None: unknown destination
pub open spec fn beneficial_value(w: VxWallet, out: TxOut, opath: DerivationPath, slot: Option<VxSlot>) -> Option<nat> {
    if path_len(opath) > 0 {
        if wallet_ok(w, out.script_pubkey, opath) { Some(amount_sat(out.value) as nat) } else { None }
    } else if wallet_allowlisted(w, out.script_pubkey, master_path()) {
        Some(amount_sat(out.value) as nat)
    } else if slot.is_some() {
        match slot->Some_0@ {
            ChannelSlot::Ready(chan) => if funds_channel_ok(w, out, chan) { Some(chan.setup.channel_value_sat as nat) } else { None },
            _ => None,
        }
    } else { None }
}
// an output is either a known destination or a PLAIN unknown one (no wallet path, not allowlisted, no channel): an output
// that claims to fund a channel and fails the funding rules is never reported as merely "unknown"
pub open spec fn known_or_plain_unknown(w: VxWallet, out: TxOut, opath: DerivationPath, slot: Option<VxSlot>) -> bool {
    beneficial_value(w, out, opath, slot).is_some()
    || (path_len(opath) == 0 && !wallet_allowlisted(w, out.script_pubkey, master_path()) && slot.is_none())
}
pub open spec fn outputs_ok_upto(w: VxWallet, tx: Transaction, opaths: Seq<DerivationPath>, channels: Seq<Option<VxSlot>>, n: int) -> bool {
    forall|i: int| 0 <= i < n ==> beneficial_value(w, #[trigger] tx.output@[i], opaths[i], channels[i]).is_some()
}
pub open spec fn beneficial_sum_upto(w: VxWallet, tx: Transaction, opaths: Seq<DerivationPath>, channels: Seq<Option<VxSlot>>, n: int) -> nat
    decreases n
{
    if n <= 0 { 0 } else {
        beneficial_sum_upto(w, tx, opaths, channels, n - 1)
        + (match beneficial_value(w, tx.output@[n - 1], opaths[n - 1], channels[n - 1]) { Some(v) => v, None => 0 })
    }
}
pub open spec fn c08_strict() -> bool {
    vx_strict(T_policy_onchain_no_unknown_outputs) && vx_strict(T_policy_onchain_output_match_commitment)
    && vx_strict(T_policy_onchain_output_scriptpubkey) && vx_strict(T_policy_onchain_initial_commitment_countersigned)
    && vx_strict(T_policy_onchain_no_fund_inbound) && vx_strict(T_policy_onchain_no_channel_push)
    && vx_strict(T_policy_onchain_fee_range) && vx_strict(T_policy_onchain_funding_non_malleable)
    && vx_strict(T_policy_onchain_format_standard) && vx_strict(T_policy_onchain_max_size)
}

//@fn vls-core/src/util/transaction_utils.rs :: - :: estimate_feerate_per_kw mode=trusted
    requires weight > 0,
    ensures r == feerate_sat(total_fee as nat, weight as nat),
//@end

//@fn vls-core/src/util/transaction_utils.rs :: - :: is_tx_non_malleable props=C08 optiters
    // a flag vector of another length than the inputs aborts (assert_eq)
    ensures r == all_true_flags(segwit_flags@), tx.input@.len() == segwit_flags@.len(),           //[C08.non-malleable.all-inputs-segwit]
//@end

impl SimpleValidator {
    // the policy as named in contracts shared with units that only see `Arc<dyn Validator>`
    pub open spec fn vp_policy(&self) -> SimplePolicy { self.policy }

//@fn vls-core/src/policy/simple_validator.rs :: impl SimpleValidator :: validate_beneficial_value props=C08
    requires weight > 0,
    ensures
        r.is_ok() ==> sum_our_outputs <= sum_our_inputs && r->Ok_0 == sum_our_inputs - sum_our_outputs,   //[C08.beneficial.value]
        // the value not returned to the node is within the maximum fee rate
        r.is_ok() && vx_strict(T_policy_onchain_fee_range) && !dev_disabled(self.policy) ==>
            feerate_sat((sum_our_inputs - sum_our_outputs) as nat, weight as nat) <= self.policy.max_feerate_per_kw,   //[C08.fee.range]
        r.is_err() ==> !ve_unknown_dest(r->Err_0),
//@end

//@fn vls-core/src/policy/simple_validator.rs :: impl Validator for SimpleValidator :: validate_onchain_tx props=C08
//@include frag/c/sv_validate_onchain_tx.rs
//@loop 1 iter=it
            invariant
                it.snapshot.end == tx.output@.len(),
                opaths@.len() == tx.output@.len(), channels@.len() == tx.output@.len(),
                c08_strict() && unknowns@.len() == 0 ==> outputs_ok_upto(*wallet, *tx, opaths@, channels@, outndx as int),
                c08_strict() ==> forall|j: int| 0 <= j < outndx ==> known_or_plain_unknown(*wallet, #[trigger] tx.output@[j], opaths@[j], channels@[j]),
                c08_strict() ==> (any_some(channels@) ==> all_true_flags(segwit_flags@)) && tx.version == Version::TWO && tx_base_size(*tx) <= MAX_ONCHAIN_TX_SIZE,
                c08_strict() && unknowns@.len() == 0 ==> beneficial_sum as nat == beneficial_sum_upto(*wallet, *tx, opaths@, channels@, outndx as int),
//@loop 2 iter=it2
            invariant
                sum_inputs as nat == sum_u64(values_sat@.take(it2.index@ as int)),
//@proof before /sum_inputs = sum_inputs\.checked_add/
            proof {
                let k = it2.index@ as int;
                assert(values_sat@.take(k + 1).drop_last() =~= values_sat@.take(k));
                assert(values_sat@.take(k + 1).last() == *val);
            }
//@proof before /let non_beneficial = self/
        proof { assert(values_sat@.take(values_sat@.len() as int) =~= values_sat@); }
//@end

} // impl

// ------------------------------------------------------------------ Node::check_onchain_tx (C08 at the node)
//@type vls-core/src/util/velocity.rs :: VelocityControl
//@include frag/velocity_spec.rs
impl VelocityControl {
//@fn vls-core/src/util/velocity.rs :: impl VelocityControl :: insert mode=trusted
//@include frag/c/vc_insert.rs
//@end
}
impl VxValidator {
    pub uninterp spec fn vp_policy(&self) -> SimplePolicy;
//@fn vls-core/src/policy/simple_validator.rs :: impl Validator for SimpleValidator :: validate_onchain_tx mode=trusted
//@include frag/c/sv_validate_onchain_tx.rs
//@end
}
// the part of Node this function touches (sequential mutex model, R11): the node as a wallet, its channel map (read
// only here) and the fee velocity control inside NodeState
pub struct VxNodeOn { pub wallet: VxWallet, pub channels: VxChannelsRO, pub fee_velocity_control: VelocityControl, pub rest: VxNodeRest }
#[verifier::external_body] pub struct VxNodeRest { _p: u8 }
// core::time::Duration
#[verifier::external_body] pub struct VxDuration { _p: u8 }
impl VxDuration {
    pub uninterp spec fn secs(&self) -> u64;
    pub uninterp spec fn subsec_millis(&self) -> u32;
    #[verifier::external_body] pub fn as_secs(&self) -> (r: u64) ensures r == self.secs() { unimplemented!() }
    #[verifier::external_body] pub fn as_millis(&self) -> (r: u128) ensures r == self.secs() as u128 * 1000 + self.subsec_millis() as u128, self.subsec_millis() < 1000 { unimplemented!() }
}
#[verifier::external_body] pub struct VxChannelsRO { _p: u8 }
#[verifier::external_body] pub struct SecretKeyStack { _p: u8 }
// the ready channel (if any) whose funding outpoint is `o`, as find_channel_with_funding_outpoint (below) returns it
pub open spec fn first_funding(slots: Seq<VxSlot>, o: OutPoint, k: int) -> Option<VxSlot> decreases slots.len() - k {
    if k < 0 || k >= slots.len() { None } else if slot_funds(slots[k], o) { Some(slots[k]) } else { first_funding(slots, o, k + 1) }
}
pub open spec fn funded_channel(c: VxChannelsRO, o: OutPoint) -> Option<VxSlot> { first_funding(c.slots(), o, 0) }
impl VxChannelsRO {
    // the slots of the map in iteration order (`channels_lock.iter()`, keys dropped)
    pub uninterp spec fn slots(&self) -> Seq<VxSlot>;
    #[verifier::external_body]
    pub fn vx_slots(&self) -> (r: Vec<VxSlot>) ensures r@ == self.slots() { unimplemented!() }
}
impl Clone for VxSlot { #[verifier::external_body] fn clone(&self) -> (r: Self) ensures r == *self { unimplemented!() } }
pub open spec fn slot_funds(s: VxSlot, o: OutPoint) -> bool { s@ is Ready && s@->Ready_0.setup.funding_outpoint == o }

//@fn vls-core/src/node.rs :: - :: find_channel_with_funding_outpoint props=C08
    ensures
        // found: a READY channel of the map with exactly this funding outpoint (the first one); stubs are ignored
        r.is_some() ==> exists|i: int| 0 <= i < channels_lock.slots().len() && r->Some_0 == #[trigger] channels_lock.slots()[i]
            && slot_funds(channels_lock.slots()[i], *outpoint),                                          //[C08.lookup.found-is-ready-and-funded-here]
        r.is_none() ==> forall|i: int| 0 <= i < channels_lock.slots().len() ==> !slot_funds(#[trigger] channels_lock.slots()[i], *outpoint),   //[C08.lookup.none-means-none]
        // exactly: the FIRST ready slot (in the map's iteration order) funded by this outpoint
        r == funded_channel(*channels_lock, *outpoint),                                                   //[C08.lookup.first-ready-slot-funded-here]
//@sigsub /&MutexGuard<OrderedMap<ChannelId, Arc<Mutex<ChannelSlot>>>>/ => &VxChannelsRO
//@sigsub /Option<Arc<Mutex<ChannelSlot>>>/ => Option<VxSlot>
//@sub /for \(_, slot_arc\) in channels_lock\.iter\(\) \{/ => let vx_sl = channels_lock.vx_slots(); for slot_arc in it: vx_sl.iter() {
//@sub /let slot = slot_arc\.lock\(\)\.vx_expect\(\);/ => let slot = slot_arc.vx_read();
//@sub /match &\*slot \{/ => match slot {
//@sub /Arc::clone\(slot_arc\)/ => slot_arc.clone()
//@loop 1
        invariant
            vx_sl@ == channels_lock.slots(),
            forall|i: int| 0 <= i < it.index@ ==> !slot_funds(#[trigger] channels_lock.slots()[i], *outpoint),
            first_funding(channels_lock.slots(), *outpoint, 0) == first_funding(channels_lock.slots(), *outpoint, it.index@ as int),
//@end

pub uninterp spec fn txid_of(tx: Transaction) -> Txid;
pub open spec fn funded_slots(c: VxChannelsRO, tx: Transaction) -> Seq<Option<VxSlot>> {
    Seq::new(tx.output@.len(), |k: int| funded_channel(c, OutPoint { txid: txid_of(tx), vout: k as u32 }))
}
pub open spec fn values_of(p: Seq<TxOut>) -> Seq<u64> { Seq::new(p.len(), |k: int| amount_sat(p[k].value)) }
// `(0..tx.output.len()).map(CLOSURE).collect()`: the closure applied to every output index, in order (std semantics); CLOSURE is
// lifted verbatim below (check_onchain_tx closure=1, rewrite R26) and proved equal to spec_funded_slot
pub open spec fn spec_funded_slot(c: VxChannelsRO, txid: Txid, ndx: int) -> Option<VxSlot> { funded_channel(c, OutPoint { txid, vout: ndx as u32 }) }
#[verifier::external_body]
pub fn vx_funded_slots(c: &VxChannelsRO, txid: Txid, tx: &Transaction) -> (r: Vec<Option<VxSlot>>)
    requires txid == txid_of(*tx),
    ensures r@ == Seq::new(tx.output@.len(), |k: int| spec_funded_slot(*c, txid, k))
{ unimplemented!() }
// `prev_outs.iter().map(CLOSURE).collect::<Vec<_>>()`: the closure applied to every element (std semantics); CLOSURE is lifted
// verbatim below (exprclosure=1) and proved equal to spec_prev_value
pub open spec fn spec_prev_value(o: TxOut) -> u64 { amount_sat(o.value) }
#[verifier::external_body]
pub fn vx_values_sat(p: &[TxOut]) -> (r: Vec<u64>) ensures r@ == Seq::new(p@.len(), |k: int| spec_prev_value(p@[k])) { unimplemented!() }
// ---- the weight lower bound of check_onchain_tx (the `for (idx, uck) in uniclosekeys.iter().enumerate()` loop, now on the
// real body): tx.weight() plus, for every input whose previous output has a script type the node signs for, the size of the
// witness the node will add (77 weight units + the unilateral-close witness stack, or a 33-byte key); an input with an
// unrecognised script - one the node does NOT sign - adds nothing.  An over-estimate would make a fee above the maximum rate
// look acceptable, so the contract pins the value exactly.
pub uninterp spec fn tx_weight(tx: Transaction) -> nat;
#[verifier::external_body]
pub fn vx_tx_weight(tx: &Transaction) -> (r: usize) ensures r == tx_weight(*tx), 0 < r < 0x1_0000_0000 { unimplemented!() }   // tx.weight().to_wu() as usize (a transaction has positive weight below 4 * 2^24 ... 2^32)
//@type vls-core/src/node.rs :: SpendType derive=Clone,Copy,PartialEq
pub uninterp spec fn spend_type_of(s: ScriptBuf) -> SpendType;
impl SpendType {
    #[verifier::external_body]
    pub fn from_script_pubkey(script: &ScriptBuf) -> (r: SpendType) ensures r == spend_type_of(*script) { unimplemented!() }
}
// `stack.iter().map(|v| 1 + v.len()).sum()`: one length byte per element plus the element
pub open spec fn stack_wit_len(stack: Seq<Vec<u8>>) -> nat { sum_wit_elems(stack) }
pub open spec fn wit_len_of(uck: Option<(SecretKey, Vec<Vec<u8>>)>) -> nat {
    match uck { Some(ks) => stack_wit_len(ks.1@), None => 33 }
}
// `stack.iter().map(CLOSURE).sum()` (iterator sum: std semantics): the sum of the closure's values; CLOSURE is lifted verbatim
// below (exprclosure=2) and proved equal to spec_wit_elem
pub open spec fn spec_wit_elem(v: Vec<u8>) -> nat { 1 + v@.len() }
pub open spec fn sum_wit_elems(stack: Seq<Vec<u8>>) -> nat decreases stack.len() {
    if stack.len() == 0 { 0 } else { sum_wit_elems(stack.drop_last()) + spec_wit_elem(stack.last()) }
}
#[verifier::external_body]
pub fn vx_stack_wit_len(stack: &Vec<Vec<u8>>) -> (r: usize) ensures r == sum_wit_elems(stack@), r < 0x1_0000_0000 { unimplemented!() }
pub open spec fn weight_lb(tx: Transaction, ucks: Seq<Option<(SecretKey, Vec<Vec<u8>>)>>, prev: Seq<TxOut>, k: int) -> nat decreases k {
    if k <= 0 { tx_weight(tx) }
    else { weight_lb(tx, ucks, prev, k - 1) + (if spend_type_of(prev[k - 1].script_pubkey) is Invalid { 0nat } else { 77 + wit_len_of(ucks[k - 1]) }) }
}
impl Transaction {
    #[verifier::external_body]
    pub fn compute_txid(&self) -> (r: Txid) ensures r == txid_of(*self) { unimplemented!() }
}
impl VxNodeOn {
    // Node::validator(): the factory's validator for this node (same policy on every call)
    pub uninterp spec fn validator_spec(&self) -> VxValidator;
    #[verifier::external_body]
    pub fn validator(&self) -> (r: VxValidator) ensures r == self.validator_spec() { unimplemented!() }
    // self.clock.now(): the time since the epoch; the clock does not run backwards (the property's non-decreasing
    // timestamps), i.e. its seconds are not before the start of the velocity control's newest bucket
    pub uninterp spec fn clock_secs(&self) -> u64;
    #[verifier::external_body]
    pub fn vx_clock_now(&self) -> (r: VxDuration)
        ensures r.secs() == self.clock_secs(), self.clock_secs() >= self.fee_velocity_control.start_sec
    { unimplemented!() }

    // what the validator was asked and answered, as one predicate over the request
    pub open spec fn onchain_accepted(self, v: VxValidator, tx: Transaction, segwit_flags: Seq<bool>, prev_outs: Seq<TxOut>,
        opaths: Seq<DerivationPath>, nb: u64, w: usize) -> bool {
        let ch = funded_slots(self.channels, tx);
        &&& outputs_ok_upto(self.wallet, tx, opaths, ch, tx.output@.len() as int)
        &&& nb as nat + beneficial_sum_upto(self.wallet, tx, opaths, ch, tx.output@.len() as int) == sum_u64(values_of(prev_outs))
        &&& (!dev_disabled(v.vp_policy()) ==> feerate_sat(nb as nat, w as nat) <= v.vp_policy().max_feerate_per_kw)
        &&& (any_some(ch) ==> all_true_flags(segwit_flags))
    }

    pub open spec fn node_check_ok(o: VxNodeOn, f: VxNodeOn, tx: Transaction, segwit_flags: Seq<bool>, prev_outs: Seq<TxOut>,
        opaths: Seq<DerivationPath>, nb: u64, w: usize, now: u64) -> bool {
        &&& w > 0 && nb * 1000 <= u64::MAX
        &&& now == o.clock_secs()                      // the velocity window is measured in SECONDS of the node's clock
        &&& o.onchain_accepted(o.validator_spec(), tx, segwit_flags, prev_outs, opaths, nb, w)
        &&& vc_accepts(vc_abs(o.fee_velocity_control), now, (nb * 1000) as u64)
        &&& vc_abs(f.fee_velocity_control) == vc_step(vc_abs(o.fee_velocity_control), now, (nb * 1000) as u64)
    }

//@fn vls-core/src/node.rs :: impl Node :: check_onchain_tx closure=1 as=funded_slot_closure props=C08
//@sig fn funded_slot_closure(channels_lock: &VxChannelsRO, txid: Txid, ndx: usize) -> (r: Option<VxSlot>)
    ensures r == spec_funded_slot(*channels_lock, txid, ndx as int),                        //[C08.node.output-k-is-looked-up-under-outpoint-txid-k]
//@sub /find_channel_with_funding_outpoint\(&channels_lock, &outpoint\)/ => find_channel_with_funding_outpoint(channels_lock, &outpoint)
//@end
//@fn vls-core/src/node.rs :: impl Node :: check_onchain_tx exprclosure=2 as=prev_value_closure props=C08
//@sig fn prev_value_closure(o: &TxOut) -> (r: u64)
    ensures r == spec_prev_value(*o),                                                        //[C08.node.input-values-are-the-previous-outputs-values]
//@end
//@fn vls-core/src/node.rs :: impl Node :: check_onchain_tx exprclosure=1 as=wit_elem_closure props=C08
//@sig fn wit_elem_closure(v: &Vec<u8>) -> (r: usize)
    requires v@.len() < 0x1_0000_0000,
    ensures r == spec_wit_elem(*v),
//@end

//@fn vls-core/src/node.rs :: impl Node :: check_onchain_tx props=C08
//@sigsub /&self/ => &mut self
    requires
        opaths@.len() == tx.output@.len(),                       // indexing panics otherwise (abort)
        vc_wf(old(self).fee_velocity_control),
        sum_u64(values_of(prev_outs@)) <= 0x40_0000_0000_0000,   // input range: below 2^54 sat (the supply is below 2^51)
        uniclosekeys@.len() < 0x1_0000,                          // input range: fewer than 2^16 inputs
    ensures
        final(self).wallet == old(self).wallet, final(self).channels == old(self).channels,
        // the weight the fee rate is judged against is the transaction's weight plus the witnesses of the inputs the node
        // signs - an input with an unrecognised script adds nothing
        r.is_ok() && c08_strict() ==> exists|nb: u64, now: u64|
            #[trigger] Self::node_check_ok(*old(self), *final(self), *tx, segwit_flags@, prev_outs@, opaths@, nb,
                weight_lb(*tx, uniclosekeys@, prev_outs@, uniclosekeys@.len() as int) as usize, now),                    //[C08.node.fee-rate-against-exact-weight-lower-bound]
        // Ok under a non-permissive policy: the validator accepted the transaction against the channels found by funding
        // outpoint, and the value leaving the node was counted by (and fits) the fee velocity control
        r.is_ok() && c08_strict() ==> exists|nb: u64, w: usize, now: u64|
            #[trigger] Self::node_check_ok(*old(self), *final(self), *tx, segwit_flags@, prev_outs@, opaths@, nb, w, now),   //[C08.node.accepted-and-fee-counted]
//@proof before /^\s*Ok\(\(\)\)\s*$/
        proof {
            if c08_strict() {
                assert(Self::node_check_ok(*old(self), *self, *tx, segwit_flags@, prev_outs@, opaths@, non_beneficial_sat, weight_lower_bound, now));
                assert(weight_lower_bound == weight_lb(*tx, uniclosekeys@, prev_outs@, uniclosekeys@.len() as int) as usize);
            }
        }
//@proof before /let validator = self\.validator\(\);/ #1
        proof { assert(channels@ =~= funded_slots(self.channels, *tx)); }
//@proof before /let non_beneficial_sat = /
        proof { assert(values_sat@ =~= values_of(prev_outs@)); }
//@sub /(?s)let channels: Vec<Option<VxSlot>> = \(0\.\.tx\.output\.len\(\)\)\s*\.map\(\|ndx\| \{.*?\}\)\s*\.collect\(\);/ => let channels: Vec<Option<VxSlot>> = vx_funded_slots(&channels_lock, txid, tx);
//@sub /let channels_lock = self\.get_channels\(\);/ => let channels_lock = &self.channels;
//@sub /tx\.weight\(\)\.to_wu\(\) as usize/ => vx_tx_weight(tx)
//@sub /for \(idx, uck\) in uniclosekeys\.iter\(\)\.enumerate\(\) \{/ => for idx in 0..uniclosekeys.len() { let uck = vx_index(uniclosekeys, idx);
//@sub /&prev_outs\[idx\]\.script_pubkey/ => &vx_index(prev_outs, idx).script_pubkey
//@sub /stack\s*\.iter\(\)\s*\.map\(\|v\|[^\n;]*?\)\s*\.sum\(\)/ => vx_stack_wit_len(stack)
//@loop 1 iter=itw
            invariant
                itw.snapshot.end == uniclosekeys@.len(), uniclosekeys@.len() < 0x1_0000,
                weight_lower_bound == weight_lb(*tx, uniclosekeys@, prev_outs@, itw.index@ as int),
                weight_lower_bound <= 0x1_0000_0000 + itw.index@ * 0x2_0000_0000, weight_lower_bound >= tx_weight(*tx), tx_weight(*tx) > 0,
//@sub /let values_sat = prev_outs\.iter\(\)\.map\(\|o\|[^\n;]*?\)\.collect::<Vec<_>>\(\);/ => let values_sat = vx_values_sat(prev_outs);
//@sub /validator\.validate_onchain_tx\(\s*self,/ => validator.validate_onchain_tx(&self.wallet,
//@sub /drop\(channels_lock\);/ => 
//@sub /let mut state = self\.get_state\(\);/ => 
//@sub /self\.clock\.now\(\)/ => self.vx_clock_now()
//@sub /state\.fee_velocity_control/ => self.fee_velocity_control
//@end
}

pub open spec fn dev_disabled(p: SimplePolicy) -> bool {
    match p.dev_flags { Some(f) => f.disable_beneficial_balance_checks, None => false }
}

} // verus!
fn main() {}
