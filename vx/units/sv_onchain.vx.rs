//@unit sv_onchain
//@props C08
// Contracts on SimpleValidator::{validate_onchain_tx, validate_beneficial_value}
// (vls-core/src/policy/simple_validator.rs).
use vstd::prelude::*;
use vstd::std_specs::cmp::OrdSpec;
//@include prelude/core.rs
//@include prelude/deps.rs
//@include prelude/btc.rs
//@include frag/enforcement_types.rs
//@include prelude/channel_deps.rs
//@include prelude/ldk_tx.rs
//@include prelude/sv_deps.rs
//@include prelude/wallet.rs
//@map /Weak<Node>/ => VxNodeRef
//@map /Secp256k1<All>/ => VxSecp
//@map /\bPolicyFilter\b/ => VxPolicyFilter
//@map /&dyn Wallet/ => &VxWallet
//@map /Vec<Option<Arc<Mutex<ChannelSlot>>>>/ => Vec<Option<VxSlot>>
//@map /&\*slot\.lock\(\)\.vx_expect\(\)/ => slot.vx_read()
//@map /channels\.iter\(\)\.any\(\|c\| c\.is_some\(\)\)/ => vx_any_some(&channels)
//@macro add_beneficial_output => $1.checked_add($2).ok_or_else(|| policy_error(T_policy_onchain_fee_range, vx_msg()))
verus! {

//@@TAGS

//@include frag/enforcement_spec.rs
//@include frag/channel_types.rs
//@include frag/channel_spec.rs
//@include frag/sv_types.rs
//@include frag/sv_spec.rs
//@type vls-core/src/channel.rs :: ChannelSlot
//@const vls-core/src/policy/mod.rs :: MAX_ONCHAIN_TX_SIZE expect="32 * 1024" as="32768usize"
//@const vls-core/src/policy/simple_validator.rs :: DEFAULT_DEV_FLAGS

// Arc<Mutex<ChannelSlot>> (R11): read-only access to the slot content
#[verifier::external_body]
pub struct VxSlot { _p: u8 }
impl VxSlot {
    pub uninterp spec fn view(&self) -> ChannelSlot;
    #[verifier::external_body]
    pub fn vx_read(&self) -> (r: &ChannelSlot) ensures *r == self@ { unimplemented!() }
}
pub open spec fn any_some(s: Seq<Option<VxSlot>>) -> bool { exists|i: int| 0 <= i < s.len() && (#[trigger] s[i]).is_some() }
#[verifier::external_body]
pub fn vx_any_some(v: &Vec<Option<VxSlot>>) -> (r: bool) ensures r == any_some(v@) { unimplemented!() }
#[verifier::external_body]
pub fn unknown_destinations_error(unknowns: Vec<usize>) -> ValidationError { unimplemented!() }

impl Channel {
//@fn vls-core/src/channel.rs :: impl Channel :: counterparty_pubkeys mode=trusted
    ensures ldk_counterparty_pubkeys(self.keys).is_some(), *r == ldk_counterparty_pubkeys(self.keys)->Some_0,
//@end
}

// ------------------------------------------------------------------ spec side (from the property)
pub open spec fn all_true_flags(s: Seq<bool>) -> bool { forall|i: int| 0 <= i < s.len() ==> s[i] }
pub open spec fn sum_u64(s: Seq<u64>) -> nat
    decreases s.len()
{
    if s.len() == 0 { 0 } else { sum_u64(s.drop_last()) + s.last() as nat }
}
// a channel funding output is accepted only with the exact value and script, for an outbound channel without
// push whose initial holder commitment was already counter-signed
pub open spec fn funds_channel_ok(w: VxWallet, out: TxOut, chan: Channel) -> bool {
    amount_sat(out.value) == chan.setup.channel_value_sat
    && out.script_pubkey == p2wsh_script(funding_redeemscript(ldk_pubkeys(chan.keys).funding_pubkey,
            ldk_counterparty_pubkeys(chan.keys)->Some_0.funding_pubkey), wallet_network(w))
    && chan.enforcement_state.next_holder_commit_num == 1
    && chan.setup.is_outbound
    && chan.setup.push_value_msat / 1000 == 0
}
// value of output i that counts as returned to the node; None: unknown destination
pub open spec fn beneficial_value(w: VxWallet, out: TxOut, opath: DerivationPath, slot: Option<VxSlot>) -> Option<nat> {
    if path_len(opath) > 0 {
        if wallet_ok(w, out.script_pubkey, opath) { Some(amount_sat(out.value) as nat) } else { None }
    } else if wallet_allowlisted(w, out.script_pubkey, master_path()) {
        Some(amount_sat(out.value) as nat)
    } else if slot.is_some() {
        match slot->Some_0@ {
            ChannelSlot::Ready(chan) => if funds_channel_ok(w, out, chan) { Some(chan.setup.channel_value_sat as nat) } else { None },
            _ => None,
        }
    } else { None }
}
pub open spec fn outputs_ok_upto(w: VxWallet, tx: Transaction, opaths: Seq<DerivationPath>, channels: Seq<Option<VxSlot>>, n: int) -> bool {
    forall|i: int| 0 <= i < n ==> beneficial_value(w, #[trigger] tx.output@[i], opaths[i], channels[i]).is_some()
}
pub open spec fn beneficial_sum_upto(w: VxWallet, tx: Transaction, opaths: Seq<DerivationPath>, channels: Seq<Option<VxSlot>>, n: int) -> nat
    decreases n
{
    if n <= 0 { 0 } else {
        beneficial_sum_upto(w, tx, opaths, channels, n - 1)
        + (match beneficial_value(w, tx.output@[n - 1], opaths[n - 1], channels[n - 1]) { Some(v) => v, None => 0 })
    }
}
pub open spec fn c08_strict() -> bool {
    vx_strict(T_policy_onchain_no_unknown_outputs) && vx_strict(T_policy_onchain_output_match_commitment)
    && vx_strict(T_policy_onchain_output_scriptpubkey) && vx_strict(T_policy_onchain_initial_commitment_countersigned)
    && vx_strict(T_policy_onchain_no_fund_inbound) && vx_strict(T_policy_onchain_no_channel_push)
    && vx_strict(T_policy_onchain_fee_range) && vx_strict(T_policy_onchain_funding_non_malleable)
    && vx_strict(T_policy_onchain_format_standard) && vx_strict(T_policy_onchain_max_size)
}

//@fn vls-core/src/util/transaction_utils.rs :: - :: estimate_feerate_per_kw mode=trusted
    requires weight > 0,
    ensures r == feerate_sat(total_fee as nat, weight as nat),
//@end

//@fn vls-core/src/util/transaction_utils.rs :: - :: is_tx_non_malleable mode=trusted
    ensures r == all_true_flags(segwit_flags@),
//@end

impl SimpleValidator {
    // the policy as named in contracts shared with units that only see `Arc<dyn Validator>`
    pub open spec fn vp_policy(&self) -> SimplePolicy { self.policy }

//@fn vls-core/src/policy/simple_validator.rs :: impl SimpleValidator :: validate_beneficial_value props=C08
    requires weight > 0,
    ensures
        r.is_ok() ==> sum_our_outputs <= sum_our_inputs && r->Ok_0 == sum_our_inputs - sum_our_outputs,   //[C08.beneficial.value]
        // the value not returned to the node is within the maximum fee rate
        r.is_ok() && vx_strict(T_policy_onchain_fee_range) && !dev_disabled(self.policy) ==>
            feerate_sat((sum_our_inputs - sum_our_outputs) as nat, weight as nat) <= self.policy.max_feerate_per_kw,   //[C08.fee.range]
//@end

//@fn vls-core/src/policy/simple_validator.rs :: impl Validator for SimpleValidator :: validate_onchain_tx props=C08
//@include frag/c/sv_validate_onchain_tx.rs
//@loop 1 iter=it
            invariant
                it.snapshot.end == tx.output@.len(),
                opaths@.len() == tx.output@.len(), channels@.len() == tx.output@.len(),
                c08_strict() && unknowns@.len() == 0 ==> outputs_ok_upto(*wallet, *tx, opaths@, channels@, outndx as int),
                c08_strict() && unknowns@.len() == 0 ==> beneficial_sum as nat == beneficial_sum_upto(*wallet, *tx, opaths@, channels@, outndx as int),
//@loop 2 iter=it2
            invariant
                sum_inputs as nat == sum_u64(values_sat@.take(it2.index@ as int)),
//@proof before /sum_inputs = sum_inputs\.checked_add/
            proof {
                let k = it2.index@ as int;
                assert(values_sat@.take(k + 1).drop_last() =~= values_sat@.take(k));
                assert(values_sat@.take(k + 1).last() == *val);
            }
//@proof before /let non_beneficial = self/
        proof { assert(values_sat@.take(values_sat@.len() as int) =~= values_sat@); }
//@end

} // impl

pub open spec fn dev_disabled(p: SimplePolicy) -> bool {
    match p.dev_flags { Some(f) => f.disable_beneficial_balance_checks, None => false }
}

} // verus!
fn main() {}
