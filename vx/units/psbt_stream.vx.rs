//@unit psbt_stream
//@props C19
// Contract on the hand-written part of the wire codec: StreamedPSBT's decoder (vls-protocol/src/psbt.rs).  The request
// carries a PSBT whose inputs may bring their whole previous transaction; the decoder summarises each of them into the
// per-input "known to be segwit" flag and the previous output the signer will validate amounts against.  The contract
// says that flags and previous outputs are exactly those of the PSBT that was decoded.  (The byte-level PSBT codec is
// rust-bitcoin's and assumed; the derive-generated message codec is NOT covered: see MANIFEST level_note.)
use vstd::prelude::*;
use vstd::std_specs::cmp::OrdSpec;
//@include prelude/core.rs
//@include prelude/deps.rs
//@include prelude/btc.rs
verus! {

//@@TAGS

// ---- rust-bitcoin PSBT types (R5): the fields this decoder touches are transparent, the rest is opaque ----
#[verifier::external_body] pub struct InputRest { _p: u8 }
#[verifier::external_body] pub struct PsbtRest { _p: u8 }
#[verifier::external_body] pub struct Output { _p: u8 }
pub struct Input { pub non_witness_utxo: Option<Transaction>, pub witness_utxo: Option<TxOut>, pub rest: InputRest }
pub struct Psbt { pub unsigned_tx: Transaction, pub inputs: Vec<Input>, pub outputs: Vec<Output>, pub rest: PsbtRest }
pub struct PsbtWrapper { pub inner: Psbt }
#[verifier::external_body] pub struct VxReader { _p: u8 }
pub mod encode { pub enum Error { ParseFailed(&'static str), Io } }
pub enum Error { UnsignedTxHasScriptSigs, UnsignedTxHasScriptWitnesses }

impl Clone for TxOut { #[verifier::external_body] fn clone(&self) -> (r: Self) ensures r == *self { unimplemented!() } }
impl PartialEq for TxOut { #[verifier::external_body] fn eq(&self, other: &Self) -> (r: bool) { unimplemented!() } }
impl vstd::std_specs::cmp::PartialEqSpecImpl for TxOut {
    open spec fn obeys_eq_spec() -> bool { true }
    open spec fn eq_spec(&self, other: &Self) -> bool { *self == *other }
}
pub uninterp spec fn txid_of(tx: Transaction) -> Txid;
pub uninterp spec fn is_witness_program_spec(s: ScriptBuf) -> bool;
pub uninterp spec fn script_is_empty(s: ScriptBuf) -> bool;
pub uninterp spec fn witness_is_empty(w: Witness) -> bool;
impl Transaction {
    #[verifier::external_body]
    pub fn compute_txid(&self) -> (r: Txid) ensures r == txid_of(*self) { unimplemented!() }
}
impl ScriptBuf {
    #[verifier::external_body]
    pub fn is_witness_program(&self) -> (r: bool) ensures r == is_witness_program_spec(*self) { unimplemented!() }
    #[verifier::external_body]
    pub fn is_empty(&self) -> (r: bool) ensures r == script_is_empty(*self) { unimplemented!() }
}
impl Witness {
    #[verifier::external_body]
    pub fn is_empty(&self) -> (r: bool) ensures r == witness_is_empty(*self) { unimplemented!() }
}
// `for (ind, mut input) in global.inputs.into_iter().enumerate()`: the inputs by value, in order
#[verifier::external_body]
pub fn vx_take_input(v: &mut Vec<Input>, i: usize) -> (r: Input)
    requires i < old(v)@.len(),
    ensures r == old(v)@[i as int], final(v)@.len() == old(v)@.len(),
        forall|j: int| 0 <= j < old(v)@.len() && j != i ==> final(v)@[j] == old(v)@[j]
{ unimplemented!() }

//@type vls-protocol/src/psbt.rs :: StreamedPSBT

// ------------------------------------------------------------------ spec side
// PSBT well-formedness guaranteed by rust-bitcoin's deserializer: one input map per transaction input
pub open spec fn psbt_wf(p: Psbt) -> bool { p.inputs@.len() == p.unsigned_tx.input@.len() }
// what the decoder must make of input i of the decoded PSBT g: (flag, resulting input)
pub open spec fn input_summary_ok(g: Psbt, i: int, flag: bool, out: Input) -> bool {
    let inp = g.inputs@[i];
    let prevout = g.unsigned_tx.input@[i].previous_output;
    match inp.non_witness_utxo {
        Some(tx) => {
            // the previous transaction is the one the input spends, the spent output exists, the flag is that output's
            // segwit-ness and the previous output handed to the signer is exactly that output
            &&& txid_of(tx) == prevout.txid && (prevout.vout as int) < tx.output@.len()
            &&& flag == is_witness_program_spec(tx.output@[prevout.vout as int].script_pubkey)
            &&& out.witness_utxo == Some(tx.output@[prevout.vout as int])
            &&& (inp.witness_utxo.is_some() ==> inp.witness_utxo == Some(tx.output@[prevout.vout as int]))
            &&& out.non_witness_utxo.is_none() && out.rest == inp.rest
        },
        None => !flag && out == inp,
    }
}

impl StreamedPSBT {

    // PsbtWrapper::consensus_decode_from_finite_reader + Psbt::deserialize (rust-bitcoin): the PSBT encoded in the bytes
    pub uninterp spec fn decoded(r: VxReader) -> Option<Psbt>;
    #[verifier::external_body]
    pub fn consensus_decode_global(r: &mut VxReader) -> (res: Result<Psbt, encode::Error>)
        ensures res.is_ok() ==> Self::decoded(*old(r)) == Some(res->Ok_0) && psbt_wf(res->Ok_0)
    { unimplemented!() }

//@fn vls-protocol/src/psbt.rs :: impl StreamedPSBT :: unsigned_tx_checks props=C19
    ensures r.is_ok() ==> forall|i: int| 0 <= i < psbt.unsigned_tx.input@.len() ==>
        script_is_empty((#[trigger] psbt.unsigned_tx.input@[i]).script_sig) && witness_is_empty(psbt.unsigned_tx.input@[i].witness),
//@loop 1 iter=it
        invariant forall|i: int| 0 <= i < it.index@ ==>
            script_is_empty((#[trigger] psbt.unsigned_tx.input@[i]).script_sig) && witness_is_empty(psbt.unsigned_tx.input@[i].witness),
//@end

//@fn vls-protocol/src/psbt.rs :: impl Decodable for StreamedPSBT :: consensus_decode_from_finite_reader props=C19 ret=res
//@sigsub /<R: Read \+ \?Sized>/ =>
//@sigsub /r: &mut R/ => r: &mut VxReader
    ensures
        res.is_ok() ==> Self::decoded(*old(r)).is_some() && ({
            let g = Self::decoded(*old(r))->Some_0;
            let s = res->Ok_0;
            // the transaction and the outputs are those of the encoded PSBT ...
            &&& s.psbt.inner.unsigned_tx == g.unsigned_tx && s.psbt.inner.outputs@ == g.outputs@ && s.psbt.inner.rest == g.rest   //[C19.psbt-stream.tx-and-outputs-unchanged]
            // ... there is one flag and one input per transaction input ...
            &&& s.segwit_flags@.len() == g.inputs@.len() && s.psbt.inner.inputs@.len() == g.inputs@.len()
            // ... and each flag / previous output is the one the encoded PSBT determines
            &&& forall|i: int| 0 <= i < g.inputs@.len() ==> #[trigger] input_summary_ok(g, i, s.segwit_flags@[i], s.psbt.inner.inputs@[i])   //[C19.psbt-stream.flags-and-prevouts]
        }),
//@sub /(?s)Self::unsigned_tx_checks\(&global\)\s*\.map_err\(\|\w+\| encode::Error::ParseFailed\("txs checks fails"\)\)\?;/ => if Self::unsigned_tx_checks(&global).is_err() { return Err(encode::Error::ParseFailed("txs checks fails")); }
//@sub /for \(ind, mut input\) in global\.inputs\.into_iter\(\)\.enumerate\(\) \{/ => let mut vx_ins = global.inputs; let ghost vx_g = global; let mut ind: usize = 0; while ind < vx_ins.len() { let mut input = vx_take_input(&mut vx_ins, ind);
//@sub /inputs\.push\(input\);/ => inputs.push(input); ind = ind + 1;
//@loop 1
            invariant
                vx_g == Self::decoded(*old(r))->Some_0, psbt_wf(vx_g), global.unsigned_tx == vx_g.unsigned_tx,
                ind <= vx_ins@.len(), vx_ins@.len() == vx_g.inputs@.len(),
                forall|j: int| ind <= j < vx_ins@.len() ==> vx_ins@[j] == vx_g.inputs@[j],
                inputs@.len() == ind, segwit_flags@.len() == ind,
                forall|j: int| 0 <= j < ind ==> #[trigger] input_summary_ok(vx_g, j, segwit_flags@[j], inputs@[j]),
            decreases vx_ins@.len() - ind,
//@loop 2 iter=it2
            invariant outputs@ == vx_outs@.take(it2.index@ as int),
//@sub /for o in global\.outputs \{/ => let vx_outs = global.outputs; for o in vx_outs {
//@proof before /^\s*outputs\s*$/
        proof { assert(vx_outs@.take(vx_outs@.len() as int) =~= vx_outs@); }
//@end

} // impl StreamedPSBT

} // verus!
fn main() {}
