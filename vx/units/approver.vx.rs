//@unit approver
//@props C08 C06
// Contracts on the approval flows of the protocol signer (vls-protocol-signer/src/approver.rs, default methods of trait
// Approve): they sit between the node's checks and signing / invoice registration.
//   handle_proposed_onchain: a transaction goes on to (unchecked) signing only if Node::check_onchain_tx accepted it, or
//   refused it with the "unknown destinations" kind AND the approver approved exactly the outputs listed in that refusal;
//   every other refusal is final (C08: "every other output being reported as an unknown destination that needs explicit
//   approval").
//   handle_proposed_invoice / handle_proposed_keysend: Ok(true) only if the node already had this payment, or
//   Node::add_invoice / add_keysend (unit node_payments) registered it after the allowlist or the approver said yes
//   (C06: "approved invoice or keysend").
use vstd::prelude::*;
use vstd::std_specs::cmp::OrdSpec;
//@include prelude/core.rs
//@map /\bString\b/ => VxStr
//@map /&Arc<Node>/ => &VxNodeA
//@map /\bNode::payment_state_from_invoice\(/ => VxNodeA::payment_state_from_invoice(
//@map /\bNode::payment_state_from_keysend\(/ => VxNodeA::payment_state_from_keysend(
//@map /Status::failed_precondition\(ve\.to_string\(\)\)/ => vx_failed_precondition(&ve)
verus! {

//@@TAGS

#[verifier::external_body] pub struct VxStr { _p: u8 }
#[verifier::external_body] pub struct Status { _p: u8 }
#[verifier::external_body] pub struct Transaction { _p: u8 }
#[verifier::external_body] pub struct TxOut { _p: u8 }
#[verifier::external_body] pub struct SecretKey { _p: u8 }
#[verifier::external_body] pub struct PublicKey { _p: u8 }
#[verifier::external_body] pub struct DerivationPath { _p: u8 }
#[verifier::external_body] pub struct Invoice { _p: u8 }
#[verifier::external_body] pub struct PaymentState { _p: u8 }
#[verifier::external_body] pub struct VxDuration { _p: u8 }
#[verifier::external_body] pub struct VxClock { _p: u8 }
pub struct PaymentHash(pub [u8; 32]);
impl Clone for PaymentHash { #[verifier::external_body] fn clone(&self) -> (r: Self) ensures r == *self { unimplemented!() } }
impl Copy for PaymentHash {}
impl Clone for PublicKey { #[verifier::external_body] fn clone(&self) -> (r: Self) ensures r == *self { unimplemented!() } }
impl Copy for PublicKey {}

//@type vls-core/src/policy/error.rs :: ValidationErrorKind
//@type vls-core/src/policy/error.rs :: ValidationError drop=bt
#[verifier::external_body]
pub fn vx_failed_precondition(ve: &ValidationError) -> Status { unimplemented!() }

// ---- the node, as far as the flows use it (each function is under contract in its own unit) ----
#[verifier::external_body] pub struct VxNodeA { _p: u8 }
// results of the node's functions, as uninterpreted functions of the node and the request ("call markers" with a value)
pub uninterp spec fn node_onchain_check(n: VxNodeA, tx: Transaction, flags: Seq<bool>, prev_outs: Seq<TxOut>, opaths: Seq<DerivationPath>) -> Result<(), ValidationError>;
pub uninterp spec fn node_has_payment(n: VxNodeA, h: PaymentHash, ih: [u8; 32]) -> bool;
pub uninterp spec fn node_allowlists_payee(n: VxNodeA, p: PublicKey) -> bool;
pub uninterp spec fn node_added_invoice(n: VxNodeA, i: Invoice, r: Result<bool, Status>) -> bool;
pub uninterp spec fn node_added_keysend(n: VxNodeA, payee: PublicKey, h: PaymentHash, amount: u64, r: Result<bool, Status>) -> bool;
pub uninterp spec fn inv_hash(i: Invoice) -> PaymentHash;
pub uninterp spec fn inv_ihash(i: Invoice) -> [u8; 32];
pub uninterp spec fn inv_payee(i: Invoice) -> PublicKey;
pub uninterp spec fn keysend_ihash(payee: PublicKey, h: PaymentHash, amount: u64, now: VxDuration) -> [u8; 32];
impl Invoice {
    #[verifier::external_body] pub fn payee_pub_key(&self) -> (r: PublicKey) ensures r == inv_payee(*self) { unimplemented!() }
    #[verifier::external_body] pub fn amount_milli_satoshis(&self) -> u64 { unimplemented!() }
}
impl VxClock { #[verifier::external_body] pub fn now(&self) -> VxDuration { unimplemented!() } }
impl VxNodeA {
    #[verifier::external_body]
    pub fn check_onchain_tx(&self, tx: &Transaction, segwit_flags: &[bool], prev_outs: &[TxOut], uniclosekeys: &[Option<(SecretKey, Vec<Vec<u8>>)>],
        opaths: &[DerivationPath]) -> (r: Result<(), ValidationError>)
        ensures r == node_onchain_check(*self, *tx, segwit_flags@, prev_outs@, opaths@)
    { unimplemented!() }
    #[verifier::external_body]
    pub fn payment_state_from_invoice(invoice: &Invoice) -> (r: Result<(PaymentHash, PaymentState, [u8; 32]), Status>)
        ensures r.is_ok() ==> r->Ok_0.0 == inv_hash(*invoice) && r->Ok_0.2 == inv_ihash(*invoice)
    { unimplemented!() }
    #[verifier::external_body]
    pub fn payment_state_from_keysend(payee: PublicKey, payment_hash: PaymentHash, amount_msat: u64, now: VxDuration) -> (r: Result<(PaymentState, [u8; 32]), Status>)
        ensures r.is_ok() ==> r->Ok_0.1 == keysend_ihash(payee, payment_hash, amount_msat, now)
    { unimplemented!() }
    #[verifier::external_body]
    pub fn has_payment(&self, h: &PaymentHash, ih: &[u8; 32]) -> (r: Result<bool, Status>)
        ensures r.is_ok() ==> r->Ok_0 == node_has_payment(*self, *h, *ih)
    { unimplemented!() }
    #[verifier::external_body]
    pub fn allowlist_contains_payee(&self, p: PublicKey) -> (r: bool) ensures r == node_allowlists_payee(*self, p) { unimplemented!() }
    #[verifier::external_body]
    pub fn add_invoice(&self, invoice: Invoice) -> (r: Result<bool, Status>) ensures node_added_invoice(*self, invoice, r) { unimplemented!() }
    #[verifier::external_body]
    pub fn add_keysend(&self, payee: PublicKey, h: PaymentHash, amount_msat: u64) -> (r: Result<bool, Status>)
        ensures node_added_keysend(*self, payee, h, amount_msat, r) { unimplemented!() }
    #[verifier::external_body]
    pub fn get_clock(&self) -> VxClock { unimplemented!() }
}

// ---- the approver: what the three questions answer (trait methods without bodies) ----
pub trait Approve: Sized {
    spec fn says_invoice(&self, i: Invoice) -> bool;
    spec fn says_keysend(&self, h: PaymentHash, amount: u64) -> bool;
    spec fn says_onchain(&self, tx: Transaction, prev_outs: Seq<TxOut>, unknown: Seq<usize>) -> bool;
    fn approve_invoice(&self, invoice: &Invoice) -> (r: bool) ensures r == self.says_invoice(*invoice);
    fn approve_keysend(&self, payment_hash: PaymentHash, amount_msat: u64) -> (r: bool) ensures r == self.says_keysend(payment_hash, amount_msat);
    fn approve_onchain(&self, tx: &Transaction, prev_outs: &[TxOut], unknown_indices: &[usize]) -> (r: bool)
        ensures r == self.says_onchain(*tx, prev_outs@, unknown_indices@);

//@fn vls-protocol-signer/src/approver.rs :: trait Approve: SendSync :: handle_proposed_onchain props=C08
    ensures
        // "go ahead" only if the node's check accepted, or refused with the unknown-destinations kind and the approver approved
        // exactly the outputs that refusal lists
        r.is_ok() && r->Ok_0 ==> ({
            let c = node_onchain_check(*node, *tx, segwit_flags@, prev_outs@, opaths@);
            c.is_ok() || (c->Err_0.kind is UnknownDestinations && self.says_onchain(*tx, prev_outs@, c->Err_0.kind->UnknownDestinations_1@))
        }),                                                                                          //[C08.approver.only-unknown-destinations-are-approvable]
        // any other refusal of the node is final
        ({
            let c = node_onchain_check(*node, *tx, segwit_flags@, prev_outs@, opaths@);
            c.is_err() && !(c->Err_0.kind is UnknownDestinations) ==> r.is_err()
        }),                                                                                          //[C08.approver.other-refusals-are-final]
//@end

//@fn vls-protocol-signer/src/approver.rs :: trait Approve: SendSync :: handle_proposed_invoice props=C06
    ensures
        r.is_ok() && r->Ok_0 ==> node_has_payment(*node, inv_hash(invoice), inv_ihash(invoice))
            || ((node_allowlists_payee(*node, inv_payee(invoice)) || self.says_invoice(invoice)) && node_added_invoice(*node, invoice, r)),   //[C06.approver.invoice-approved-before-registered]
//@end

//@fn vls-protocol-signer/src/approver.rs :: trait Approve: SendSync :: handle_proposed_keysend props=C06
    ensures
        r.is_ok() && r->Ok_0 ==> (exists|now: VxDuration| node_has_payment(*node, payment_hash, keysend_ihash(payee, payment_hash, amount_msat, now)))
            || (self.says_keysend(payment_hash, amount_msat) && node_added_keysend(*node, payee, payment_hash, amount_msat, r)),              //[C06.approver.keysend-approved-before-registered]
//@end

} // trait Approve

} // verus!
fn main() {}
