//@unit tracker_watches
//@props C14 C13
// The watch bookkeeping of ChainTracker (vls-core/src/chain/tracker.rs): notify_listeners_add / notify_listeners_remove
// tell every monitor about a connected / disconnected block and apply what it answers (outpoints to start and to stop
// watching) to its slot.  Decided here: each slot is updated by exactly its own monitor's answer, in the order the code
// documents (add before remove, so intra-block spends end up unwatched), nothing else of the tracker changes, and - lemma
// c14_slot_roundtrip - disconnecting a block restores every slot when the monitor's answer on disconnection mirrors its
// answer on connection (which unit monitor_changes proves of the monitor: [C14.backward.*-mirror]).
use vstd::prelude::*;
use vstd::std_specs::cmp::OrdSpec;
use std::collections::VecDeque;
use core::mem;
//@include prelude/core.rs
//@include prelude/deps.rs
//@include prelude/btc.rs
//@include prelude/chain.rs
//@map /OrderedMap<L::Key, \(L, ListenSlot\)>/ => VxListeners<L>
//@map /OrderedSet<Txid>/ => VxSet<Txid>
//@map /OrderedSet<OutPoint>/ => VxSet<OutPoint>
//@map /OrderedSet::new\(\)/ => VxSet::new()
//@map /Arc<dyn ValidatorFactory>/ => VxValidatorFactory
//@map /Option<RefCell<BlockDecodeState>>/ => Option<VxDecodeState>
//@map /\bString\b/ => VxMsg
//@map /Self::MAX_REORG_SIZE/ => MAX_REORG_SIZE
//@macro error_invalid_chain => Error::InvalidChain
//@macro error_orphan_block => Error::OrphanBlock(vx_msg())
//@macro error_invalid_block => Error::InvalidBlock
//@macro error_invalid_proof => Error::InvalidProof
verus! {

//@@TAGS

pub trait ChainListener: Sized {
    type Key;
    spec fn key_spec(&self) -> Self::Key;
    fn key(&self) -> (r: &Self::Key) ensures *r == self.key_spec();
    // what this monitor answered to a connected / disconnected block (uninterpreted call markers: adds, removes)
    spec fn answered(&self, hash: BlockHash, is_remove: bool, adds: Seq<OutPoint>, removes: Seq<OutPoint>) -> bool;
    fn on_add_block(&self, txs: &[Transaction], block_hash: &BlockHash) -> (r: (Vec<OutPoint>, Vec<OutPoint>))
        ensures self.answered(*block_hash, false, r.0@, r.1@);
    fn on_add_streamed_block_end(&self, block_hash: &BlockHash) -> (r: (Vec<OutPoint>, Vec<OutPoint>))
        ensures self.answered(*block_hash, false, r.0@, r.1@);
    fn on_remove_block(&self, txs: &[Transaction], block_hash: &BlockHash) -> (r: (Vec<OutPoint>, Vec<OutPoint>))
        ensures self.answered(*block_hash, true, r.0@, r.1@);
    fn on_remove_streamed_block_end(&self, block_hash: &BlockHash) -> (r: (Vec<OutPoint>, Vec<OutPoint>))
        ensures self.answered(*block_hash, true, r.0@, r.1@);
}
// OrderedSet<T> (BTreeSet): finite set stub
#[verifier::external_body]
#[verifier::reject_recursive_types(T)]
pub struct VxSet<T> { _p: core::marker::PhantomData<T> }
impl<T> VxSet<T> {
    pub uninterp spec fn view(&self) -> Set<T>;
    #[verifier::external_body]
    pub fn new() -> (r: Self) ensures r@ == Set::<T>::empty() { unimplemented!() }
    // Extend<T>::extend(vec): every element of the vector is inserted
    #[verifier::external_body]
    pub fn extend(&mut self, v: Vec<T>) ensures final(self)@ == old(self)@.union(v@.to_set()) { unimplemented!() }
    #[verifier::external_body]
    pub fn remove(&mut self, x: &T) -> (r: bool) ensures final(self)@ == old(self)@.remove(*x) { unimplemented!() }
    // Extend<&T>::extend(&set): every element of the other set is inserted
    #[verifier::external_body]
    pub fn vx_extend_set(&mut self, o: &VxSet<T>) ensures final(self)@ == old(self)@.union(o@) { unimplemented!() }
    // `set.into_iter().collect()` into a Vec: the elements of the set, each once
    #[verifier::external_body]
    pub fn vx_into_vec(self) -> (r: Vec<T>) ensures r@.to_set() == self@, r@.no_duplicates() { unimplemented!() }
}

// OrderedMap<L::Key, (L, ListenSlot)> as the sequence of its values in key order (`values_mut()`): listener i and its slot
#[verifier::external_body]
#[verifier::reject_recursive_types(L)]
pub struct VxListeners<L> { _p: core::marker::PhantomData<L> }
impl<L: ChainListener> VxListeners<L> {
    pub uninterp spec fn view(&self) -> Seq<(L, ListenSlot)>;
    #[verifier::external_body]
    pub fn vx_len(&self) -> (r: usize) ensures r == self@.len() { unimplemented!() }
    // the i-th value of `values_mut()`: the listener (shared) ...
    #[verifier::external_body]
    pub fn vx_listener(&self, i: usize) -> (r: &L) requires i < self@.len() ensures *r == self@[i as int].0 { unimplemented!() }
    // ... and its slot, taken out for the iteration and put back at its end (the loop body owns `&mut slot`)
    #[verifier::external_body]
    pub fn vx_take_slot(&self, i: usize) -> (r: ListenSlot) requires i < self@.len() ensures r == self@[i as int].1 { unimplemented!() }
    #[verifier::external_body]
    pub fn vx_put_slot(&mut self, i: usize, s: ListenSlot)
        requires i < old(self)@.len()
        ensures final(self)@ == old(self)@.update(i as int, (old(self)@[i as int].0, s))
    { unimplemented!() }
}
#[verifier::external_body]
pub struct VxValidatorFactory { _p: u8 }
#[verifier::external_body]
pub struct VxDecodeState { _p: u8 }
#[verifier::external_body]
pub struct ValidationErrorDbg { _p: u8 }

//@type vls-core/src/chain/tracker.rs :: Error
//@type vls-core/src/chain/tracker.rs :: Headers derive=Clone
//@type vls-core/src/chain/tracker.rs :: ListenSlot
//@type vls-core/src/chain/tracker.rs :: ChainTracker attr="#[verifier::reject_recursive_types(L)]"
//@const vls-core/src/chain/tracker.rs :: MAX_REORG_SIZE ctx="impl<L: ChainListener> ChainTracker<L>"

// ------------------------------------------------------------------ spec side (from the property)
// a slot after its monitor answered (adds, removes) to a CONNECTED block: start watching the adds, stop watching the
// removes (also those added in the same block), remember the removes for a later reorg
pub open spec fn slot_after_add(s: ListenSlot, t: ListenSlot, adds: Seq<OutPoint>, removes: Seq<OutPoint>) -> bool {
    t.txid_watches == s.txid_watches && t.watches@ == s.watches@.union(adds.to_set()).difference(removes.to_set())
    && t.seen@ == s.seen@.union(removes.to_set())
}
// ... and to a DISCONNECTED block: the exact inverse steps
pub open spec fn slot_after_remove(s: ListenSlot, t: ListenSlot, adds: Seq<OutPoint>, removes: Seq<OutPoint>) -> bool {
    t.txid_watches == s.txid_watches && t.watches@ == s.watches@.union(removes.to_set()).difference(adds.to_set())
    && t.seen@ == s.seen@.difference(removes.to_set())
}
pub proof fn lemma_take_set_step<T>(s: Seq<T>, k: int)
    requires 0 <= k < s.len()
    ensures s.take(k + 1).to_set() =~= s.take(k).to_set().insert(s[k])
{
    let t1 = s.take(k + 1);
    let t0 = s.take(k);
    assert forall|x: T| t1.to_set().contains(x) <==> t0.to_set().insert(s[k]).contains(x) by {
        if t1.contains(x) {
            let i = choose|i: int| 0 <= i < t1.len() && #[trigger] t1[i] == x;
            if i < k { assert(t0[i] == x); }
        }
        if t0.contains(x) {
            let i = choose|i: int| 0 <= i < t0.len() && #[trigger] t0[i] == x;
            assert(t1[i] == x);
        }
        if x == s[k] { assert(t1[k] == x); }
    }
}
pub open spec fn told_all<L: ChainListener>(a: Seq<(L, ListenSlot)>, b: Seq<(L, ListenSlot)>, hash: BlockHash, is_remove: bool, n: int) -> bool {
    forall|i: int| 0 <= i < n ==> (#[trigger] b[i]).0 == a[i].0 && exists|adds: Seq<OutPoint>, removes: Seq<OutPoint>|
        #[trigger] a[i].0.answered(hash, is_remove, adds, removes)
        && (if is_remove { slot_after_remove(a[i].1, b[i].1, adds, removes) } else { slot_after_add(a[i].1, b[i].1, adds, removes) })
}
pub open spec fn rest_same<L: ChainListener>(a: ChainTracker<L>, b: ChainTracker<L>) -> bool {
    a.headers == b.headers && a.tip == b.tip && a.height == b.height && a.network == b.network
    && a.trusted_oracle_pubkeys == b.trusted_oracle_pubkeys && a.allow_deep_reorgs == b.allow_deep_reorgs
    && a.decode_state == b.decode_state
}


// ------------------------------------------------------------------ the watch set the unspent-output proof of a block is checked for (C13)
// every outpoint some registered listener watches and, with `include_seen` (block removal), every outpoint some listener has
// already seen spent - over the first n listeners
pub open spec fn watched_upto<L: ChainListener>(ls: Seq<(L, ListenSlot)>, include_seen: bool, n: int) -> Set<OutPoint> decreases n {
    if n <= 0 { Set::empty() }
    else { watched_upto(ls, include_seen, n - 1).union(ls[n - 1].1.watches@).union(if include_seen { ls[n - 1].1.seen@ } else { Set::empty() }) }
}
pub open spec fn watched_outpoints<L: ChainListener>(listeners: VxListeners<L>, include_seen: bool) -> Set<OutPoint> {
    watched_upto(listeners@, include_seen, listeners@.len() as int)
}
pub open spec fn txids_upto<L: ChainListener>(ls: Seq<(L, ListenSlot)>, n: int) -> Set<Txid> decreases n {
    if n <= 0 { Set::empty() } else { txids_upto(ls, n - 1).union(ls[n - 1].1.txid_watches@) }
}
// nothing watched by any listener is missing from the set (what "for all watched outpoints" needs)
pub proof fn c13_every_watch_is_in_the_set<L: ChainListener>(ls: Seq<(L, ListenSlot)>, include_seen: bool, n: int, i: int, o: OutPoint)
    requires 0 <= i < n <= ls.len(), ls[i].1.watches@.contains(o) || (include_seen && ls[i].1.seen@.contains(o)),
    ensures watched_upto(ls, include_seen, n).contains(o),
    decreases n
{
    if i < n - 1 { c13_every_watch_is_in_the_set(ls, include_seen, n - 1, i, o); }
}

impl<L: ChainListener> ChainTracker<L> {

//@fn vls-core/src/chain/tracker.rs :: impl<L: ChainListener> ChainTracker<L> :: get_all_watches props=C13
    ensures
        // the outpoints handed to the proof check are ALL outpoints watched by ANY registered listener (plus, for a removal,
        // all those seen spent), nothing less
        r.1@.to_set() == watched_outpoints(self.listeners, include_reverse),                          //[C13.watches.all-listeners-all-watches]
        r.0@.to_set() == txids_upto(self.listeners@, self.listeners@.len() as int),
//@sub /for \(_, slot\) in self\.listeners\.values\(\) \{/ => let vx_n = self.listeners.vx_len(); for vx_i in 0..vx_n { let slot = self.listeners.vx_take_slot(vx_i);
//@sub /\.extend\(&slot\.(\w+)\)/ => .vx_extend_set(&slot.\1)
//@sub /\((\w+)\.into_iter\(\)\.collect\(\), (\w+)\.into_iter\(\)\.collect\(\)\)/ => (\1.vx_into_vec(), \2.vx_into_vec())
//@loop 1 iter=itw
            invariant
                vx_n == self.listeners@.len(), itw.snapshot.end == vx_n,
                outpoint_watches@ == watched_upto(self.listeners@, include_reverse, itw.index@ as int),
                txid_watches@ == txids_upto(self.listeners@, itw.index@ as int),
//@end

//@fn vls-core/src/chain/tracker.rs :: impl<L: ChainListener> ChainTracker<L> :: get_all_forward_watches props=C13
    ensures r.1@.to_set() == watched_outpoints(self.listeners, false),                                //[C13.watches.forward-is-every-watch]
//@end

//@fn vls-core/src/chain/tracker.rs :: impl<L: ChainListener> ChainTracker<L> :: get_all_reverse_watches props=C13
    ensures r.1@.to_set() == watched_outpoints(self.listeners, true),                                 //[C13.watches.reverse-adds-every-outpoint-seen-spent]
//@end

//@fn vls-core/src/chain/tracker.rs :: impl<L: ChainListener> ChainTracker<L> :: notify_listeners_add props=C14
    ensures
        rest_same(*old(self), *final(self)), final(self).listeners@.len() == old(self).listeners@.len(),
        // every monitor is told about the block and its slot is updated with exactly its own answer
        told_all(old(self).listeners@, final(self).listeners@, block_hash, false, old(self).listeners@.len() as int),   //[C14.tracker.add-updates-each-slot-with-its-monitors-answer]
//@sub /for (?:\(listener, slot\)|(\w+)) in self\.listeners\.values_mut\(\) \{(?:\s*let \(listener, slot\) = \1;)?/ => let vx_n = self.listeners.vx_len(); for vx_i in 0..vx_n { let mut vx_slot = self.listeners.vx_take_slot(vx_i);
//@sub /listener\.on_add_block\(/ => self.listeners.vx_listener(vx_i).on_add_block(
//@sub /listener\.on_add_streamed_block_end\(/ => self.listeners.vx_listener(vx_i).on_add_streamed_block_end(
//@sub /\bslot\./ => vx_slot.
//@loop 1
            invariant
                vx_n == old(self).listeners@.len(), self.listeners@.len() == vx_n, rest_same(*old(self), *self),
                forall|j: int| vx_i <= j < vx_n ==> self.listeners@[j] == old(self).listeners@[j],
                told_all(old(self).listeners@, self.listeners@, block_hash, false, vx_i as int),
//@loop 2 iter=it2
                invariant
                    vx_slot.watches@ == vx_w0.difference(removes@.take(it2.index@ as int).to_set()),
                    vx_slot.txid_watches == vx_s0.txid_watches, vx_slot.seen == vx_s0.seen,
//@proof before /vx_slot\.watches\.extend\(adds\);/
            let ghost vx_adds = adds@;
            let ghost vx_removes = removes@;
            let ghost vx_before = vx_slot;
//@proof before /for outpoint in removes\.iter\(\)/
            let ghost vx_w0 = vx_slot.watches@;
            let ghost vx_s0 = vx_slot;
//@proof after /vx_slot\.watches\.remove\(outpoint\);/
                proof {
                    let k = it2.index@ as int;
                    lemma_take_set_step(removes@, k);
                    assert(vx_slot.watches@ =~= vx_w0.difference(removes@.take(k + 1).to_set()));
                }
//@proof blockend /vx_slot\.seen\.extend\(removes\);/
            let ghost vx_after = vx_slot;
            self.listeners.vx_put_slot(vx_i, vx_slot);
            proof {
                assert(vx_removes.take(vx_removes.len() as int) =~= vx_removes);
                assert(vx_before == old(self).listeners@[vx_i as int].1);
                assert(slot_after_add(vx_before, vx_after, vx_adds, vx_removes));
                assert(old(self).listeners@[vx_i as int].0.answered(block_hash, false, vx_adds, vx_removes));
            }
//@end


//@fn vls-core/src/chain/tracker.rs :: impl<L: ChainListener> ChainTracker<L> :: notify_listeners_remove props=C14
    ensures
        rest_same(*old(self), *final(self)), final(self).listeners@.len() == old(self).listeners@.len(),
        // every monitor is told about the disconnected block and its slot is wound back with exactly its own answer
        told_all(old(self).listeners@, final(self).listeners@, block_hash, true, old(self).listeners@.len() as int),   //[C14.tracker.remove-winds-each-slot-back-with-its-monitors-answer]
//@sub /for (?:\(listener, slot\)|(\w+)) in self\.listeners\.values_mut\(\) \{(?:\s*let \(listener, slot\) = \1;)?/ => let vx_n = self.listeners.vx_len(); for vx_i in 0..vx_n { let mut vx_slot = self.listeners.vx_take_slot(vx_i);
//@sub /listener\.on_remove_block\(/ => self.listeners.vx_listener(vx_i).on_remove_block(
//@sub /listener\.on_remove_streamed_block_end\(/ => self.listeners.vx_listener(vx_i).on_remove_streamed_block_end(
//@sub /\bslot\./ => vx_slot.
//@loop 1
            invariant
                vx_n == old(self).listeners@.len(), self.listeners@.len() == vx_n, rest_same(*old(self), *self),
                forall|j: int| vx_i <= j < vx_n ==> self.listeners@[j] == old(self).listeners@[j],
                told_all(old(self).listeners@, self.listeners@, block_hash, true, vx_i as int),
//@loop 2 iter=it2
                invariant
                    vx_slot.seen@ == vx_before.seen@.difference(removes@.take(it2.index@ as int).to_set()),
                    vx_slot.txid_watches == vx_before.txid_watches, vx_slot.watches == vx_before.watches,
//@loop 3 iter=it3
                invariant
                    vx_slot.watches@ == vx_w0.difference(adds@.take(it3.index@ as int).to_set()),
                    vx_slot.txid_watches == vx_s0.txid_watches, vx_slot.seen == vx_s0.seen,
//@proof before /for outpoint in removes\.iter\(\)/
            let ghost vx_adds = adds@;
            let ghost vx_removes = removes@;
            let ghost vx_before = vx_slot;
//@proof after /vx_slot\.seen\.remove\(outpoint\);/
                proof {
                    let k = it2.index@ as int;
                    lemma_take_set_step(removes@, k);
                    assert(vx_slot.seen@ =~= vx_before.seen@.difference(removes@.take(k + 1).to_set()));
                }
//@proof before /for outpoint in adds\.iter\(\)/
            let ghost vx_w0 = vx_slot.watches@;
            let ghost vx_s0 = vx_slot;
//@proof after /vx_slot\.watches\.remove\(outpoint\);/
                proof {
                    let k = it3.index@ as int;
                    lemma_take_set_step(adds@, k);
                    assert(vx_slot.watches@ =~= vx_w0.difference(adds@.take(k + 1).to_set()));
                }
//@proof blockend /for outpoint in adds\.iter\(\)/
            let ghost vx_after = vx_slot;
            self.listeners.vx_put_slot(vx_i, vx_slot);
            proof {
                assert(vx_removes.take(vx_removes.len() as int) =~= vx_removes);
                assert(vx_adds.take(vx_adds.len() as int) =~= vx_adds);
                assert(vx_before == old(self).listeners@[vx_i as int].1);
                assert(slot_after_remove(vx_before, vx_after, vx_adds, vx_removes));
                assert(old(self).listeners@[vx_i as int].0.answered(block_hash, true, vx_adds, vx_removes));
            }
//@end

}

// C14 for the watch bookkeeping: disconnecting a block restores a slot when the monitor's answer on disconnection is its
// answer on connection, the outpoints it asked to watch were new, and those it asked to forget were watched (or added in
// the same block) and not yet remembered as seen
pub proof fn c14_slot_roundtrip(s0: ListenSlot, s1: ListenSlot, s2: ListenSlot, adds: Seq<OutPoint>, removes: Seq<OutPoint>)
    requires
        slot_after_add(s0, s1, adds, removes), slot_after_remove(s1, s2, adds, removes),
        adds.to_set().disjoint(s0.watches@),
        removes.to_set().subset_of(s0.watches@.union(adds.to_set())),
        removes.to_set().disjoint(s0.seen@),
    ensures s2.txid_watches == s0.txid_watches, s2.watches@ =~= s0.watches@, s2.seen@ =~= s0.seen@,
{
}

} // verus!
fn main() {}
