//@unit sv_close
//@props C07
// Contracts on SimpleValidator::{validate_mutual_close_tx, outside_epsilon_range, validate_fee}
// (vls-core/src/policy/simple_validator.rs).
use vstd::prelude::*;
use vstd::std_specs::cmp::OrdSpec;
//@include prelude/core.rs
//@include prelude/deps.rs
//@include prelude/btc.rs
//@include frag/enforcement_types.rs
//@include prelude/channel_deps.rs
//@include prelude/ldk_tx.rs
//@include prelude/sv_deps.rs
//@include prelude/wallet.rs
//@map /Weak<Node>/ => VxNodeRef
//@map /Secp256k1<All>/ => VxSecp
//@map /\bPolicyFilter\b/ => VxPolicyFilter
//@map /&dyn Wallet/ => &VxWallet
//@map /tag: &str/ => tag: u64
//@map /"(larger|smaller)"\.to_string\(\)/ => vx_msg()
//@map /\(bool, String\)/ => (bool, VxMsg)
//@map /holder_script\.clone\(\)\.unwrap_or_else\(\|\| ScriptBuf::new\(\)\)/ => vx_script_or_empty(holder_script.clone())
//@map /counterparty_script\.clone\(\)\.unwrap_or_else\(\|\| ScriptBuf::new\(\)\)/ => vx_script_or_empty(counterparty_script.clone())
verus! {

//@@TAGS

//@include frag/enforcement_spec.rs
//@include frag/channel_types.rs
//@include frag/channel_spec.rs
//@include frag/sv_types.rs
//@include frag/sv_spec.rs

//@fn vls-core/src/util/transaction_utils.rs :: - :: estimate_feerate_per_kw mode=trusted
    requires weight > 0,
    ensures r == feerate_sat(total_fee as nat, weight as nat),
//@end

impl CommitmentInfo2 {
//@fn vls-core/src/tx/tx.rs :: impl CommitmentInfo2 :: htlcs_is_empty props=C07
    ensures r == (self.offered_htlcs@.len() == 0 && self.received_htlcs@.len() == 0),
//@end
}

// ------------------------------------------------------------------ spec side (from the property)
pub open spec fn within_eps(pol: SimplePolicy, a: u64, b: u64) -> bool { abs_diff(a, b) <= pol.epsilon_sat }
pub open spec fn c07_strict() -> bool {
    vx_strict(T_policy_mutual_destination_allowlisted) && vx_strict(T_policy_mutual_no_pending_htlcs)
    && vx_strict(T_policy_mutual_fee_range) && vx_strict(T_policy_mutual_value_matches_commitment)
}
pub open spec fn mutual_close_ok(pol: SimplePolicy, w: VxWallet, setup: ChannelSetup, es: EnforcementState,
    to_holder: u64, to_cp: u64, holder_script: Option<ScriptBuf>, cp_script: Option<ScriptBuf>, path: DerivationPath) -> bool
{
    &&& es.current_holder_commit_info.is_some() && es.current_counterparty_commit_info.is_some()
    &&& ({
        let h = es.current_holder_commit_info->Some_0;
        let c = es.current_counterparty_commit_info->Some_0;
        let weight = spec_mutual_close_weight(closing_built_tx(closing_tx_spec(to_holder, to_cp, script_or_empty(holder_script),
            script_or_empty(cp_script), setup.funding_outpoint)));
        // no HTLC is pending in either current commitment
        &&& h.offered_htlcs@.len() == 0 && h.received_htlcs@.len() == 0 && c.offered_htlcs@.len() == 0 && c.received_htlcs@.len() == 0
        // the fee is within the policy range
        &&& to_holder + to_cp <= setup.channel_value_sat
        &&& feerate_in_range(pol, (setup.channel_value_sat - (to_holder + to_cp)) as nat, weight as nat)
        // the side that does not pay the fee receives its balance from both latest commitments within epsilon
        &&& (setup.is_outbound ==> within_eps(pol, to_cp, c.to_broadcaster_value_sat) && within_eps(pol, to_cp, h.to_countersigner_value_sat))
        &&& (!setup.is_outbound ==> within_eps(pol, to_holder, h.to_broadcaster_value_sat) && within_eps(pol, to_holder, c.to_countersigner_value_sat))
    })
    // any holder output goes to a wallet-derivable or allowlisted script ...
    &&& (to_holder > 0 ==> holder_script.is_some())
    &&& (holder_script.is_some() ==> wallet_ok(w, holder_script->Some_0, path))
    // ... which must be the upfront shutdown script if one was fixed
    &&& (setup.holder_shutdown_script.is_some() && to_holder > 0 ==> holder_script == setup.holder_shutdown_script)
    &&& (to_cp > 0 ==> cp_script.is_some())
}

impl SimpleValidator {

//@fn vls-core/src/policy/simple_validator.rs :: impl SimpleValidator :: validate_fee mode=trusted
    requires weight > 0,
    ensures
        r.is_ok() ==> sum_outputs <= sum_inputs,
        r.is_ok() && vx_strict(tag) ==> feerate_in_range(self.policy, (sum_inputs - sum_outputs) as nat, weight as nat),
//@end

//@fn vls-core/src/policy/simple_validator.rs :: impl SimpleValidator :: outside_epsilon_range props=C07
    ensures r.0 == (abs_diff(value0, value1) > self.policy.epsilon_sat),                             //[C07.epsilon.exact]
//@end

//@fn vls-core/src/policy/simple_validator.rs :: impl Validator for SimpleValidator :: validate_mutual_close_tx props=C07
    ensures
        r.is_ok() && c07_strict() ==> mutual_close_ok(self.policy, *wallet, *setup, *estate, to_holder_value_sat,
            to_counterparty_value_sat, *holder_script, *counterparty_script, *holder_wallet_path_hint),   //[C07.validate.mutual-close-ok]
//@end

} // impl

} // verus!
fn main() {}
