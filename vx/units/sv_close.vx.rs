//@unit sv_close
//@props C07
// Contracts on SimpleValidator::{validate_mutual_close_tx, outside_epsilon_range, validate_fee}
// (vls-core/src/policy/simple_validator.rs).
use vstd::prelude::*;
use vstd::std_specs::cmp::OrdSpec;
//@include prelude/core.rs
//@include prelude/deps.rs
//@include prelude/btc.rs
//@include frag/enforcement_types.rs
//@include prelude/channel_deps.rs
//@include prelude/ldk_tx.rs
//@include prelude/sv_deps.rs
//@include prelude/wallet.rs
//@map /Weak<Node>/ => VxNodeRef
//@map /Secp256k1<All>/ => VxSecp
//@map /\bPolicyFilter\b/ => VxPolicyFilter
//@map /&dyn Wallet/ => &VxWallet
//@map /tag: &str/ => tag: u64
//@map /"(larger|smaller)"\.to_string\(\)/ => vx_msg()
//@map /\(bool, String\)/ => (bool, VxMsg)
//@map /holder_script\.clone\(\)\.unwrap_or_else\(\|\| ScriptBuf::new\(\)\)/ => vx_script_or_empty(holder_script.clone())
//@map /counterparty_script\.clone\(\)\.unwrap_or_else\(\|\| ScriptBuf::new\(\)\)/ => vx_script_or_empty(counterparty_script.clone())
verus! {

//@@TAGS

//@include frag/enforcement_spec.rs
//@include frag/channel_types.rs
//@include frag/channel_spec.rs
//@include frag/sv_types.rs
//@include frag/sv_spec.rs

//@fn vls-core/src/util/transaction_utils.rs :: - :: estimate_feerate_per_kw mode=trusted
    requires weight > 0,
    ensures r == feerate_sat(total_fee as nat, weight as nat),
//@end

impl CommitmentInfo2 {
//@fn vls-core/src/tx/tx.rs :: impl CommitmentInfo2 :: htlcs_is_empty props=C07
    ensures r == (self.offered_htlcs@.len() == 0 && self.received_htlcs@.len() == 0),
//@end
}

//@include frag/close_spec.rs

pub open spec fn sv_policy(v: SimpleValidator) -> SimplePolicy { v.policy }

impl SimpleValidator {

//@fn vls-core/src/policy/simple_validator.rs :: impl SimpleValidator :: validate_fee mode=trusted
    requires weight > 0,
    ensures
        r.is_ok() ==> sum_outputs <= sum_inputs,
        r.is_ok() && vx_strict(tag) ==> feerate_in_range(self.policy, (sum_inputs - sum_outputs) as nat, weight as nat),
//@end

//@fn vls-core/src/policy/simple_validator.rs :: impl SimpleValidator :: outside_epsilon_range props=C07
    ensures r.0 == (abs_diff(value0, value1) > self.policy.epsilon_sat),                             //[C07.epsilon.exact]
//@end

//@fn vls-core/src/policy/simple_validator.rs :: impl Validator for SimpleValidator :: validate_mutual_close_tx props=C07
//@include frag/c/sv_validate_mutual_close_tx.rs
//@end

//@fn vls-core/src/policy/simple_validator.rs :: impl Validator for SimpleValidator :: decode_and_validate_mutual_close_tx props=C07
//@include frag/c/sv_decode_and_validate_mutual_close_tx.rs
//@proof before /let closing_tx = ClosingTransaction::new\(/
        proof {
            let a = CloseArgs { to_holder: good_args.to_holder_value_sat, to_cp: good_args.to_counterparty_value_sat,
                holder_script: good_args.holder_script, cp_script: good_args.counterparty_script, path: good_args.wallet_path };
            assert(close_candidate(*tx, wallet_paths@, a));
        }
//@sub /(?s)let should_debug = true;\s*let mut debug_on_return = scopeguard::guard\(should_debug, \|should_debug\| \{.*?\n        \}\);/ => 
//@sub /(?s)struct ValidateArgs \{.*?\n        \}/ => 
//@sub /\*debug_on_return = false;/ => 
//@sub /holder_value > cparty_value/ => vx_opt_gt(holder_value, cparty_value)
//@sub /likely_rv\.unwrap_err\(\)/ => vx_unwrap_err(likely_rv)
//@sub /good_args\.holder_script\.unwrap_or_else\(\|\| ScriptBuf::new\(\)\)/ => vx_script_or_empty(good_args.holder_script)
//@sub /good_args\.counterparty_script\.unwrap_or_else\(\|\| ScriptBuf::new\(\)\)/ => vx_script_or_empty(good_args.counterparty_script)
//@end

} // impl

// the struct local to decode_and_validate_mutual_close_tx (items inside bodies are not supported: hoisted by hand, R5)
pub struct ValidateArgs {
    pub to_holder_value_sat: u64,
    pub to_counterparty_value_sat: u64,
    pub holder_script: Option<ScriptBuf>,
    pub counterparty_script: Option<ScriptBuf>,
    pub wallet_path: DerivationPath,
}
// only decides which assignment is tried first
#[verifier::external_body]
pub fn vx_opt_gt(a: Option<u64>, b: Option<u64>) -> bool { a > b }
#[verifier::external_body]
pub fn vx_unwrap_err(r: Result<(), ValidationError>) -> ValidationError { r.unwrap_err() }

impl EnforcementState {
//@fn vls-core/src/policy/validator.rs :: impl EnforcementState :: minimum_to_holder_value mode=trusted
//@end
//@fn vls-core/src/policy/validator.rs :: impl EnforcementState :: minimum_to_counterparty_value mode=trusted
//@end
}

} // verus!
fn main() {}
