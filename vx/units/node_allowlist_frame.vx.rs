//@unit node_allowlist_frame
//@props C10
// Third view of the allowlist requests (same model and real bodies as unit node_allowlist): ONLY the C10 frame - a refused
// request leaves the running signer's allowlist and the stored list as they were - stated with the one invariant that does
// not name any local of the current implementation (nothing has changed while entries are still being parsed), so that it
// stays decidable when the loop structure behind it changes (e.g. the pinned tree, which inserted while parsing).
// Contracts on the allowlist requests of the node (vls-core/src/node.rs: Node::{add_allowlist, set_allowlist,
// remove_allowlist, update_allowlist}), under the sequential mutex model (R11).  From the properties:
//   C10 - a refused request (an entry that does not parse) leaves the allowlist and the stored list exactly as before;
//   C11 - when a request returns, the list in the store is the list of the running signer (so a restart sees the same
//         allowlist), given that it was so before the request.
// The set is the real `OrderedSet<Allowable>` seen as a mathematical set; an entry's text form and its parser are
// uninterpreted functions of (entry, network) / (text, network).
use vstd::prelude::*;
use vstd::std_specs::cmp::OrdSpec;
//@include prelude/core.rs
//@include prelude/deps.rs
//@map /\bString\b/ => VxStr
//@map /let mut state = self\.get_state\(\);/ =>
//@map /(?<![\w.])state\.allowlist\b/ => self.state.allowlist
//@map /self\.update_allowlist\(&state\)/ => self.update_allowlist()
//@map /\.map_err\(\|e\| invalid_argument\(vx_msg\(\)\)\)/ => .vx_or_invalid_argument()
//@map /= allowables\.into_iter\(\)\.collect\(\);/ => = VxAllowSet::vx_collect(allowables);
verus! {

//@@TAGS
//@include frag/allowlist_model.rs
//@fn vls-core/src/node.rs :: impl Node :: update_allowlist mode=trusted
//@sigsub /&self, state: &MutexGuard<NodeState>/ => &mut self
//@include frag/c/node_update_allowlist.rs
//@end

//@fn vls-core/src/node.rs :: impl Node :: add_allowlist props=C10 as=add_allowlist_frame_view extra_loops
//@sigsub /&self/ => &mut self
    ensures
        r.is_err() ==> final(self).state.allowlist@ == old(self).state.allowlist@
            && final(self).persister.stored_allowlist() == old(self).persister.stored_allowlist(),       //[C10.allowlist.add-refusal-changes-nothing]
//@loop 1
            invariant *self == *old(self),
//@end

//@fn vls-core/src/node.rs :: impl Node :: set_allowlist props=C10 as=set_allowlist_frame_view extra_loops
//@sigsub /&self/ => &mut self
    ensures
        r.is_err() ==> final(self).state.allowlist@ == old(self).state.allowlist@
            && final(self).persister.stored_allowlist() == old(self).persister.stored_allowlist(),       //[C10.allowlist.set-refusal-changes-nothing]
//@loop 1
            invariant *self == *old(self),
//@end

//@fn vls-core/src/node.rs :: impl Node :: remove_allowlist props=C10 as=remove_allowlist_frame_view extra_loops
//@sigsub /&self/ => &mut self
    ensures
        r.is_err() ==> final(self).state.allowlist@ == old(self).state.allowlist@
            && final(self).persister.stored_allowlist() == old(self).persister.stored_allowlist(),       //[C10.allowlist.remove-refusal-changes-nothing]
//@loop 1
            invariant *self == *old(self),
//@end

} // impl

} // verus!
fn main() {}
