//@unit monitor_changes
//@props C14 C15
// Contracts on the change algebra of the channel monitor (vls-core/src/monitor.rs):
// apply_forward_change / apply_backward_change / on_add_block_end / on_remove_block_end.
// R7 exception (C14 "never aborts"): unwrap / assert stay proof obligations in these functions.
use vstd::prelude::*;
use vstd::std_specs::cmp::OrdSpec;
//@include prelude/core.rs
//@include prelude/deps.rs
//@include prelude/btc.rs
//@map /Set<OutPoint>/ => VxOutPointSet
//@map /decode_state\.changes\.drain\(\.\.\)\.rev\(\)/ => vx_drain_rev(&mut decode_state.changes)
//@map /decode_state\.changes\.drain\(\.\.\)/ => vx_drain(&mut decode_state.changes)
verus! {

#[verifier::external_body]
pub struct VxOutPointSet { _p: u8 }
impl Clone for VxOutPointSet { #[verifier::external_body] fn clone(&self) -> (r: Self) ensures r == *self { unimplemented!() } }

//@const vls-core/src/monitor.rs :: MIN_DEPTH
//@type vls-core/src/monitor.rs :: SecondLevelHTLCOutput derive=Clone
//@type vls-core/src/monitor.rs :: ClosingOutpoints derive=Clone
//@type vls-core/src/monitor.rs :: State derive=Clone
//@type vls-core/src/monitor.rs :: StateChange derive=Clone
//@type vls-core/src/monitor.rs :: BlockDecodeState derive=Clone

//@include frag/monitor_spec.rs

// ------------------------------------------------------------------ code side
impl SecondLevelHTLCOutput {
//@fn vls-core/src/monitor.rs :: impl SecondLevelHTLCOutput :: new props=C14
    ensures r.outpoint == outpoint, !r.spent,
//@end
//@fn vls-core/src/monitor.rs :: impl SecondLevelHTLCOutput :: is_spent props=C14
    ensures r == self.spent,
//@end
//@fn vls-core/src/monitor.rs :: impl SecondLevelHTLCOutput :: set_spent props=C14
    ensures *final(self) == (SecondLevelHTLCOutput { spent, ..*old(self) }),
//@end
//@fn vls-core/src/monitor.rs :: impl SecondLevelHTLCOutput :: matches_outpoint props=C14
    ensures r == (self.outpoint == *outpoint),
//@end
}

#[verifier::external_body]
pub fn vx_position_u32(v: &Vec<u32>, x: u32) -> (r: Option<usize>)
    ensures v@.contains(x) ==> r.is_some() && r->Some_0 as int == first_pos(v@, x) && r->Some_0 < v@.len() && v@[r->Some_0 as int] == x,
        !v@.contains(x) ==> r.is_none(),
{ v.iter().position(|&y| y == x) }
#[verifier::external_body]
pub fn vx_vec_repeat_bool(b: bool, n: usize) -> (r: Vec<bool>) ensures r@ == Seq::new(n as nat, |i: int| b) { vec![b; n] }

impl ClosingOutpoints {

//@fn vls-core/src/monitor.rs :: impl ClosingOutpoints :: new props=C14 optclosures
    ensures co_abs(r) == co_new(txid, our_output_index, htlc_output_indexes@),
//@sub /vec!\[false; htlc_output_indexes\.len\(\)\]/ => vx_vec_repeat_bool(false, htlc_output_indexes.len())
//@proof before /^\s*ClosingOutpoints \{/
        proof { assert(second_abs(Seq::<SecondLevelHTLCOutput>::empty()) =~= Seq::empty()); }
//@end

//@fn vls-core/src/monitor.rs :: impl ClosingOutpoints :: set_our_output_spent props=C14 noabort
    requires old(self).our_output.is_some(), old(self).our_output->Some_0.0 == vout,
    ensures co_abs(*final(self)) == (CoAbs { our_output: Some((vout, spent)), ..co_abs(*old(self)) }),
//@end

//@fn vls-core/src/monitor.rs :: impl ClosingOutpoints :: set_htlc_output_spent props=C14 noabort
    requires old(self).htlc_outputs@.contains(vout), old(self).htlc_spents@.len() == old(self).htlc_outputs@.len(),
    ensures co_abs(*final(self)) == (CoAbs {
        htlc_spents: old(self).htlc_spents@.update(first_pos(old(self).htlc_outputs@, vout), spent), ..co_abs(*old(self)) }),
// `iter().position(|&x| x == vout)`: index of the first element equal to vout (std semantics, stub in this unit)
//@sub /self\.htlc_outputs\.iter\(\)\.position\(\|&x\| x == vout\)/ => vx_position_u32(&self.htlc_outputs, vout)
//@sub /self\.htlc_spents\[i\] = spent;/ => self.htlc_spents.set(i, spent);
//@end


//@fn vls-core/src/monitor.rs :: impl ClosingOutpoints :: add_second_level_htlc_output props=C14
    ensures co_abs(*final(self)) == (CoAbs { second: co_abs(*old(self)).second.push((outpoint, false)), ..co_abs(*old(self)) }),
//@proof before /self\.second_level_htlc_outputs\.push/
        proof { lemma_second_push(old(self).second_level_htlc_outputs@, SecondLevelHTLCOutput { outpoint, spent: false }); }
//@end

//@fn vls-core/src/monitor.rs :: impl ClosingOutpoints :: set_second_level_htlc_spent mode=trusted
    requires second_contains(co_abs(*old(self)).second, outpoint),
    ensures co_abs(*final(self)) == (CoAbs { second: second_set_spent(co_abs(*old(self)).second, outpoint, spent), ..co_abs(*old(self)) }),
//@end

//@fn vls-core/src/monitor.rs :: impl ClosingOutpoints :: remove_second_level_htlc_output mode=trusted
    ensures co_abs(*final(self)) == (CoAbs { second: second_remove(co_abs(*old(self)).second, *outpoint), ..co_abs(*old(self)) }),
//@end

//@fn vls-core/src/monitor.rs :: impl ClosingOutpoints :: is_all_spent props=C14,C15 optiters optclosures
    ensures r == co_all_spent(co_abs(*self)),                                                     //[C15.all-spent.every-output-of-the-node]
//@loop 1 iter=it2 kind=all
        invariant vx_recv2@ == self.second_level_htlc_outputs@, vx_acc2 == (forall|j: int| 0 <= j < it2.index@ ==> (#[trigger] self.second_level_htlc_outputs@[j]).spent),
//@proof before /our_output_spent && htlc_outputs_spent && second_level_htlcs_spent/
        proof {
            let sec = self.second_level_htlc_outputs@;
            let c = co_abs(*self);
            assert(c.second.len() == sec.len());
            assert forall|i: int| 0 <= i < sec.len() implies (#[trigger] c.second[i]).1 == sec[i].spent by { }
            if our_output_spent && htlc_outputs_spent && second_level_htlcs_spent {
                assert forall|i: int| 0 <= i < c.second.len() implies (#[trigger] c.second[i]).1 by { assert(sec[i].spent); }
                assert(co_all_spent(c));
            } else if !second_level_htlcs_spent {
                let j = choose|j: int| 0 <= j < sec.len() && !(#[trigger] sec[j]).spent;
                assert(!c.second[j].1);
                assert(!co_all_spent(c));
            } else {
                assert(!co_all_spent(c));
            }
        }
//@end

} // impl ClosingOutpoints

impl State {

//@fn vls-core/src/monitor.rs :: impl State :: channel_id mode=trusted
//@end
//@fn vls-core/src/monitor.rs :: impl State :: is_done mode=trusted
//@end

//@fn vls-core/src/monitor.rs :: impl State :: is_closing_swept props=C14,C15 optclosures
    ensures r == abs_closing_swept(st_abs(*self)),
//@end

//@fn vls-core/src/monitor.rs :: impl State :: is_our_output_swept props=C14,C15 optclosures
    ensures r == abs_our_output_swept(st_abs(*self)),
//@end

//@fn vls-core/src/monitor.rs :: impl State :: apply_forward_change props=C14 noabort
    requires fwd_applicable(st_abs(*old(self)), ch_abs(change)),
    ensures
        st_abs(*final(self)) == fwd_abs(st_abs(*old(self)), ch_abs(change)),                            //[C14.forward.exact]
        st_frame(*final(self), *old(self)),
        final(adds)@ == old(adds)@ + fwd_adds(st_abs(*old(self)), ch_abs(change)),                       //[C14.forward.adds]
        final(removes)@ == old(removes)@ + fwd_removes(st_abs(*old(self)), ch_abs(change)),              //[C14.forward.removes]
//@loop 1 iter=it
                    invariant
                        adds@ == old(adds)@ + opt_outpoint(txid, our_output_index) + htlcs_indices@.take(it.index@ as int).map_values(|i: u32| OutPoint { txid, vout: i }),
                        removes@ == old(removes)@.push(funding_outpoint),
                        *self == (State { unilateral_closing_height: Some(old(self).height), ..*old(self) }),
//@proof before /for i in htlcs_indices\.iter\(\)/
                proof {
                    assert(adds@ =~= old(adds)@ + opt_outpoint(txid, our_output_index) + htlcs_indices@.take(0).map_values(|i: u32| OutPoint { txid, vout: i }));
                }
//@proof before /adds\.push\(OutPoint \{ txid, vout: \*i \}\)/
                    proof {
                        let k = it.index@ as int;
                        assert(htlcs_indices@.take(k + 1) =~= htlcs_indices@.take(k).push(htlcs_indices@[k]));
                        assert(htlcs_indices@.take(k + 1).map_values(|i: u32| OutPoint { txid, vout: i })
                            =~= htlcs_indices@.take(k).map_values(|i: u32| OutPoint { txid, vout: i }).push(OutPoint { txid, vout: htlcs_indices@[k] }));
                    }
//@proof before /self\.closing_outpoints =\s*Some\(ClosingOutpoints::new/
                proof { assert(htlcs_indices@.take(htlcs_indices@.len() as int) =~= htlcs_indices@); }
//@end

//@fn vls-core/src/monitor.rs :: impl State :: apply_backward_change props=C14 noabort
    requires bwd_applicable(st_abs(*old(self)), ch_abs(change)),
    ensures
        st_abs(*final(self)) == bwd_abs(st_abs(*old(self)), ch_abs(change)),                            //[C14.backward.exact]
        st_frame(*final(self), *old(self)),
        // the tracker removes `adds` from and re-adds `removes` to the watches: both must mirror what the
        // forward application produced from the restored state
        final(adds)@ == old(adds)@ + fwd_adds(bwd_abs(st_abs(*old(self)), ch_abs(change)), ch_abs(change)),       //[C14.backward.adds-mirror]
        final(removes)@ == old(removes)@ + fwd_removes(bwd_abs(st_abs(*old(self)), ch_abs(change)), ch_abs(change)),  //[C14.backward.removes-mirror]
//@loop 1 iter=it
                    invariant
                        adds@ == old(adds)@ + opt_outpoint(txid, our_output_index) + htlcs_indices@.take(it.index@ as int).map_values(|i: u32| OutPoint { txid, vout: i }),
                        removes@ == old(removes)@,
                        *self == (State { unilateral_closing_height: None, closing_outpoints: None, ..*old(self) }),
//@proof before /for i in htlcs_indices \{/
                proof {
                    assert(adds@ =~= old(adds)@ + opt_outpoint(txid, our_output_index) + htlcs_indices@.take(0).map_values(|i: u32| OutPoint { txid, vout: i }));
                }
//@proof before /adds\.push\(OutPoint \{ txid, vout: i \}\)/ #2
                    proof {
                        let k = it.index@ as int;
                        assert(htlcs_indices@.take(k + 1) =~= htlcs_indices@.take(k).push(htlcs_indices@[k]));
                        assert(htlcs_indices@.take(k + 1).map_values(|i: u32| OutPoint { txid, vout: i })
                            =~= htlcs_indices@.take(k).map_values(|i: u32| OutPoint { txid, vout: i }).push(OutPoint { txid, vout: htlcs_indices@[k] }));
                    }
//@proof before /removes\.push\(funding_outpoint\)\s*\}/
                proof { assert(htlcs_indices@.take(htlcs_indices@.len() as int) =~= htlcs_indices@); }
//@end

//@fn vls-core/src/monitor.rs :: impl State :: on_add_block_end props=C14 noabort
    requires
        old(self).height < u32::MAX - 1,
        old(decode_state).block_hash == Some(*block_hash),
        fwd_chain_ok(StAbs { saw_block: true, height: (old(self).height + 1) as u32, ..st_abs(*old(self)) }, chs_abs(old(decode_state).changes@)),
    ensures
        st_abs(*final(self)) == add_block_abs(st_abs(*old(self)), chs_abs(old(decode_state).changes@)),       //[C14.add-block.exact]
        st_frame(*final(self), *old(self)),
        final(decode_state).changes@.len() == 0,
//@sub /if !\(\(decode_state\.block_hash\.as_ref\(\)\) == \(Some\(block_hash\)\)\) \{ vx_unreachable\(\); \}/ => if !(vx_opt_ref_eq(&decode_state.block_hash, block_hash)) { vx_unreachable(); }
//@loop 1 iter=it
            invariant
                st_frame(*self, *old(self)),
                fwd_chain_ok(st_abs(*self), chs_abs(old(decode_state).changes@.skip(it.index@ as int))),
                fold_fwd(st_abs(*self), chs_abs(old(decode_state).changes@.skip(it.index@ as int)))
                    == fold_fwd(StAbs { saw_block: true, height: (old(self).height + 1) as u32, ..st_abs(*old(self)) }, chs_abs(old(decode_state).changes@)),
//@proof before /for change in vx_drain/
        proof { assert(decode_state.changes@.skip(0) =~= decode_state.changes@); }
//@proof before /self\.apply_forward_change\(&mut adds, &mut removes, change\)/
            proof {
                let cs = old(decode_state).changes@;
                let k = it.index@ as int;
                assert(cs.skip(k).drop_first() =~= cs.skip(k + 1));
                assert(chs_abs(cs.skip(k)).drop_first() =~= chs_abs(cs.skip(k + 1)));
                assert(chs_abs(cs.skip(k))[0] == ch_abs(cs[k]));
            }
//@proof before /let closing_is_swept = self\.is_closing_swept\(\)/
        proof {
            let cs = old(decode_state).changes@;
            assert(cs.skip(cs.len() as int) =~= Seq::<StateChange>::empty());
            assert(chs_abs(cs.skip(cs.len() as int)) =~= Seq::<ChAbs>::empty());
        }
//@end

//@fn vls-core/src/monitor.rs :: impl State :: on_remove_block_end props=C14,C15 noabort
    requires
        old(self).height >= 1,
        old(decode_state).block_hash == Some(*block_hash),
        bwd_chain_ok(st_abs(*old(self)), chs_abs(old(decode_state).changes@).reverse()),
    ensures
        st_abs(*final(self)) == remove_block_abs(st_abs(*old(self)), chs_abs(old(decode_state).changes@)),    //[C14.remove-block.exact]
        // C15: a reorg never leaves the "closing swept" marker set while an output of the node is unspent again
        marker_inv(st_abs(*old(self))) ==> marker_inv(st_abs(*final(self))),                                  //[C15.remove-block.marker-only-while-swept]
        st_frame(*final(self), *old(self)),
        final(decode_state).changes@.len() == 0,
//@sub /if !\(\(decode_state\.block_hash\.as_ref\(\)\) == \(Some\(block_hash\)\)\) \{ vx_unreachable\(\); \}/ => if !(vx_opt_ref_eq(&decode_state.block_hash, block_hash)) { vx_unreachable(); }
//@loop 1 iter=it
            invariant
                st_frame(*self, *old(self)),
                self.height == old(self).height,
                bwd_chain_ok(st_abs(*self), chs_abs(old(decode_state).changes@.reverse().skip(it.index@ as int))),
                fold_bwd(st_abs(*self), chs_abs(old(decode_state).changes@.reverse().skip(it.index@ as int)))
                    == fold_bwd(st_abs(*old(self)), chs_abs(old(decode_state).changes@.reverse())),
//@proof before /for change in vx_drain/
        proof {
            assert(decode_state.changes@.reverse().skip(0) =~= decode_state.changes@.reverse());
            lemma_chs_abs_reverse(decode_state.changes@);
        }
//@proof before /self\.apply_backward_change\(&mut adds, &mut removes, change\)/
            proof {
                let cs = old(decode_state).changes@.reverse();
                let k = it.index@ as int;
                assert(cs.skip(k).drop_first() =~= cs.skip(k + 1));
                assert(chs_abs(cs.skip(k)).drop_first() =~= chs_abs(cs.skip(k + 1)));
                assert(chs_abs(cs.skip(k))[0] == ch_abs(cs[k]));
            }
//@proof before /let closing_is_swept = self\.is_closing_swept\(\)/
        proof {
            let cs = old(decode_state).changes@.reverse();
            assert(cs.skip(cs.len() as int) =~= Seq::<StateChange>::empty());
            assert(chs_abs(cs.skip(cs.len() as int)) =~= Seq::<ChAbs>::empty());
            lemma_chs_abs_reverse(old(decode_state).changes@);
        }
//@proof before /^\s*\(adds, removes\)\s*$/
        proof { if marker_inv(st_abs(*old(self))) { c15_marker_kept_by_remove_block(st_abs(*old(self)), chs_abs(old(decode_state).changes@)); } }
//@end

} // impl State

//@include lemmas/monitor_roundtrip.rs

} // verus!
fn main() {}
