//@unit handler_blocks
//@props C11 C13 C10
// The AddBlock / RemoveBlock arms of the protocol handler (vls-protocol-signer/src/handler.rs, RootHandler::do_handle),
// each lifted verbatim into a function by rewrite R30.  They are the requests through which the chain tracker moves:
//   C11 - when the request is answered, the tracker a restarted signer would load is the tracker of the running signer:
//         an accepted block is followed by Persist::update_tracker with the tracker as it is after the change;
//   C13 / C10 - a refused block leaves the tracker as it was (the orphan answer of AddBlock is the one refusal that is
//         reported back; every other refusal of add_block / remove_block aborts the signer, partial correctness R7);
//   the header / proof / previous headers handed to ChainTracker::add_block / remove_block (unit tracker) are the ones
//         the message carries.
// Sequential mutex model (R11): the tracker guard is the place `self.node.tracker`.
use vstd::prelude::*;
use vstd::std_specs::cmp::OrdSpec;
//@include prelude/core.rs
//@map /Result<Box<dyn SerBolt>>/ => Result<VxReply, Status>
//@map /let mut tracker = self\.node\.get_tracker\(\);/ =>
//@map /(?<![\w.])tracker\s*\./ => self.node.tracker.
//@map /&tracker\b/ => &self.node.tracker
//@map /Ok\(Box::new\(msgs::AddBlockReply \{\}\)\)/ => Ok(VxReply::AddBlockReply)
//@map /Ok\(Box::new\(msgs::RemoveBlockReply \{\}\)\)/ => Ok(VxReply::RemoveBlockReply)
//@map /(?s)Ok\(Box::new\(msgs::SignerError \{\s*code: msgs::CODE_ORPHAN_BLOCK,\s*message: WireString\(msg\.into_bytes\(\)\),\s*\}\)\)/ => Ok(VxReply::OrphanBlock)
//@map /Status::invalid_argument\("could not deserialize proof"\)/ => vx_invalid_argument()
//@map /deserialize\(m\.header\.0\.as_slice\(\)\)\.vx_expect\(\)/ => vx_header_of(&m.header)
//@map /(?s)\.map\(\|prf\| deserialize\(prf\.0\.as_slice\(\)\)\.vx_expect\(\)\)/ => .vx_map_proof()
verus! {

//@@TAGS

#[verifier::external_body] pub struct Status { _p: u8 }
#[verifier::external_body] pub fn vx_invalid_argument() -> Status { unimplemented!() }
pub enum VxReply { AddBlockReply, RemoveBlockReply, OrphanBlock }
#[verifier::external_body] pub struct VxMsgText { _p: u8 }
#[verifier::external_body] pub struct PublicKey { _p: u8 }
#[verifier::external_body] pub struct Octets { _p: u8 }
#[verifier::external_body] pub struct LargeOctets { _p: u8 }
#[verifier::external_body] pub struct BlockHeader { _p: u8 }
impl Clone for BlockHeader { #[verifier::external_body] fn clone(&self) -> (r: Self) ensures r == *self { unimplemented!() } }
impl Copy for BlockHeader {}
#[verifier::external_body] pub struct FilterHeader { _p: u8 }
impl Clone for FilterHeader { #[verifier::external_body] fn clone(&self) -> (r: Self) ensures r == *self { unimplemented!() } }
impl Copy for FilterHeader {}
#[verifier::external_body] pub struct TxoProof { _p: u8 }
pub struct DebugTxoProof(pub TxoProof);
pub struct Headers(pub BlockHeader, pub FilterHeader);
#[verifier::external_body] pub struct PersistError { _p: u8 }
pub enum TrackerError { OrphanBlock(VxMsgText), Other }
// consensus decoding of the header / proof bytes of the message (rust-bitcoin / txoo; abort when malformed)
pub uninterp spec fn header_of_bytes(o: Octets) -> BlockHeader;
pub uninterp spec fn proof_of_bytes(o: LargeOctets) -> TxoProof;
#[verifier::external_body] pub fn vx_header_of(o: &Octets) -> (r: BlockHeader) ensures r == header_of_bytes(*o) { unimplemented!() }
pub trait VxMapProof { fn vx_map_proof(self) -> (r: Option<TxoProof>) ensures r == self.vx_mapped(); spec fn vx_mapped(self) -> Option<TxoProof>; }
impl VxMapProof for Option<LargeOctets> {
    open spec fn vx_mapped(self) -> Option<TxoProof> { match self { Some(o) => Some(proof_of_bytes(o)), None => None } }
    #[verifier::external_body] fn vx_map_proof(self) -> (r: Option<TxoProof>) { unimplemented!() }
}

//@type vls-protocol/src/msgs.rs :: AddBlock
//@type vls-protocol/src/msgs.rs :: RemoveBlock

// the chain tracker as the handler sees it; `@` = what is persisted and restored (tip, height, remembered headers,
// listeners: ChainTrackerEntry, unit persist_tracker).  The contracts of add_block / remove_block are the refusal frame
// proved in unit tracker ([C13.add.atomic], [C13.remove.atomic]) and a call marker with the exact arguments.
#[verifier::external_body] pub struct VxTrackerView { _p: u8 }
// (the listener map is visible as a field, so that a body which consults it - e.g. "nothing to store without listeners" - is decided)
pub struct VxTracker { pub listeners: VxListenersB, pub vx_rest: VxTrackerRest }
#[verifier::external_body] pub struct VxTrackerRest { _p: u8 }
#[verifier::external_body] pub struct VxListenersB { _p: u8 }
impl VxListenersB {
    #[verifier::external_body] pub fn is_empty(&self) -> bool { unimplemented!() }
    #[verifier::external_body] pub fn len(&self) -> usize { unimplemented!() }
}
pub uninterp spec fn add_block_called(before: VxTrackerView, header: BlockHeader, proof: TxoProof, after: VxTrackerView) -> bool;
pub uninterp spec fn remove_block_called(before: VxTrackerView, proof: TxoProof, prev: Headers, after: VxTrackerView) -> bool;
impl VxTracker {
    pub uninterp spec fn view(&self) -> VxTrackerView;
    #[verifier::external_body]
    pub fn add_block(&mut self, header: BlockHeader, proof: TxoProof) -> (r: Result<(), TrackerError>)
        ensures r.is_err() ==> final(self)@ == old(self)@, r.is_ok() ==> add_block_called(old(self)@, header, proof, final(self)@)
    { unimplemented!() }
    #[verifier::external_body]
    pub fn remove_block(&mut self, proof: TxoProof, prev_headers: Headers) -> (r: Result<BlockHeader, TrackerError>)
        ensures r.is_err() ==> final(self)@ == old(self)@, r.is_ok() ==> remove_block_called(old(self)@, proof, prev_headers, final(self)@)
    { unimplemented!() }
}
// Persist::update_tracker (KVVPersister::update_tracker is under contract in unit persist_tracker): call marker
#[verifier::external_body] pub struct VxPersister { _p: u8 }
pub uninterp spec fn tracker_stored(node_id: PublicKey, t: VxTrackerView) -> bool;
impl VxPersister {
    #[verifier::external_body]
    pub fn update_tracker(&self, node_id: &PublicKey, tracker: &VxTracker) -> (r: Result<(), PersistError>)
        ensures r.is_ok() ==> tracker_stored(*node_id, tracker@)
    { unimplemented!() }
}
pub struct VxNodeB { pub tracker: VxTracker, pub node_id: PublicKey, pub rest: VxNodeRest }
#[verifier::external_body] pub struct VxNodeRest { _p: u8 }
impl VxNodeB {
    #[verifier::external_body] pub fn get_persister(&self) -> VxPersister { unimplemented!() }
    #[verifier::external_body] pub fn get_id(&self) -> (r: PublicKey) ensures r == self.node_id { unimplemented!() }
}
pub struct RootHandler { pub node: VxNodeB, pub rest: VxHandlerRest }
#[verifier::external_body] pub struct VxHandlerRest { _p: u8 }

impl RootHandler {

//@fn vls-protocol-signer/src/handler.rs :: impl Handler for RootHandler :: do_handle arm="Message::AddBlock\(m\)" as=arm_add_block props=C11,C13,C10
//@sig fn arm_add_block(&mut self, m: AddBlock) -> (r: Result<VxReply, Status>)
    ensures
        final(self).node.node_id == old(self).node.node_id,
        // accepted: the block of the message was added by ChainTracker::add_block and the tracker as it is now is in the store
        r.is_ok() && r->Ok_0 is AddBlockReply ==> m.unspent_proof.is_some()
            && add_block_called(old(self).node.tracker@, header_of_bytes(m.header), m.unspent_proof->Some_0.0, final(self).node.tracker@)   //[C13.handler.add-block-passes-message-header-and-proof]
            && tracker_stored(final(self).node.node_id, final(self).node.tracker@),                   //[C11.handler.add-block-tracker-stored-before-reply]
        // refused (orphan answer, or a missing proof): the tracker is what it was
        !(r.is_ok() && r->Ok_0 is AddBlockReply) ==> final(self).node.tracker@ == old(self).node.tracker@,   //[C13.handler.add-block-refused-leaves-tracker] [C10.handler.add-block-refused-leaves-tracker]
        r.is_ok() ==> r->Ok_0 is AddBlockReply || r->Ok_0 is OrphanBlock,
//@end

//@fn vls-protocol-signer/src/handler.rs :: impl Handler for RootHandler :: do_handle arm="Message::RemoveBlock\(m\)" as=arm_remove_block props=C11,C13,C10
//@sig fn arm_remove_block(&mut self, m: RemoveBlock) -> (r: Result<VxReply, Status>)
    ensures
        final(self).node.node_id == old(self).node.node_id,
        r.is_ok() ==> m.unspent_proof.is_some()
            && remove_block_called(old(self).node.tracker@, proof_of_bytes(m.unspent_proof->Some_0),
                Headers(m.prev_block_header, m.prev_filter_header), final(self).node.tracker@)         //[C13.handler.remove-block-passes-message-proof-and-previous-headers]
            && tracker_stored(final(self).node.node_id, final(self).node.tracker@),                   //[C11.handler.remove-block-tracker-stored-before-reply]
        r.is_err() ==> final(self).node.tracker@ == old(self).node.tracker@,                          //[C13.handler.remove-block-refused-leaves-tracker] [C10.handler.remove-block-refused-leaves-tracker]
//@end

} // impl

} // verus!
fn main() {}
