//@unit tracker
//@props C13 C10 C14 C11
// Contracts on ChainTracker (vls-core/src/chain/tracker.rs): add_block / remove_block follow only
// validated blocks and are atomic on refusal.
use vstd::prelude::*;
use vstd::std_specs::cmp::OrdSpec;
use std::collections::VecDeque;
use core::mem;
//@include prelude/core.rs
//@include prelude/deps.rs
//@include prelude/btc.rs
//@include prelude/chain.rs
//@map /OrderedMap<L::Key, \(L, ListenSlot\)>/ => VxListeners<L>
//@map /OrderedSet<Txid>/ => VxSet<Txid>
//@map /OrderedSet<OutPoint>/ => VxSet<OutPoint>
//@map /OrderedSet::new\(\)/ => VxSet::new()
//@map /Arc<dyn ValidatorFactory>/ => VxValidatorFactory
//@map /Option<RefCell<BlockDecodeState>>/ => Option<VxDecodeState>
//@map /\bString\b/ => VxMsg
//@map /Self::MAX_REORG_SIZE/ => MAX_REORG_SIZE
//@map /(?s)for \(listener, _\) in self\.listeners\.values\(\) \{\s*listener\.on_streamed_block_start\(\);\s*\}/ => self.vx_tell_listeners_stream_start();
//@map /RefCell::new\(/ => vx_refcell(
//@macro error_invalid_chain => Error::InvalidChain
//@macro error_orphan_block => Error::OrphanBlock(vx_msg())
//@macro error_invalid_block => Error::InvalidBlock
//@macro error_invalid_proof => Error::InvalidProof
verus! {

//@@TAGS

pub trait ChainListener: Sized {
    type Key;
    spec fn key_spec(&self) -> Self::Key;
    fn key(&self) -> (r: &Self::Key) ensures *r == self.key_spec();
}
// `listener.key().clone()` (L::Key: Clone, a value type)
#[verifier::external_body]
pub fn vx_clone_key<L: ChainListener>(k: &L::Key) -> (r: L::Key) ensures r == *k { unimplemented!() }
// OrderedSet<T> (BTreeSet): finite set stub
#[verifier::external_body]
#[verifier::reject_recursive_types(T)]
pub struct VxSet<T> { _p: core::marker::PhantomData<T> }
impl<T> VxSet<T> {
    pub uninterp spec fn view(&self) -> Set<T>;
    #[verifier::external_body]
    pub fn new() -> (r: Self) ensures r@ == Set::<T>::empty() { unimplemented!() }
    // Extend<T>::extend(other set): every element of the other set is inserted
    #[verifier::external_body]
    pub fn extend(&mut self, o: VxSet<T>) ensures final(self)@ == old(self)@.union(o@) { unimplemented!() }
}

#[verifier::external_body]
#[verifier::reject_recursive_types(L)]
pub struct VxListeners<L> { _p: core::marker::PhantomData<L> }     // OrderedMap<L::Key, (L, ListenSlot)>: listeners, their watches and monitors
impl<L: ChainListener> VxListeners<L> {
    pub uninterp spec fn view(&self) -> Map<L::Key, (L, ListenSlot)>;
    #[verifier::external_body]
    pub fn insert(&mut self, k: L::Key, v: (L, ListenSlot)) -> (r: Option<(L, ListenSlot)>) ensures final(self)@ == old(self)@.insert(k, v) { unimplemented!() }
    #[verifier::external_body]
    pub fn remove(&mut self, k: &L::Key) -> (r: Option<(L, ListenSlot)>) ensures final(self)@ == old(self)@.remove(*k) { unimplemented!() }
    // `self.listeners.get_mut(key).expect(..)` followed by writes through the reference, modelled as: take the entry out (abort when
    // there is none), change it, put it back under the same key (manual rewrite in add_listener_watches)
    #[verifier::external_body]
    pub fn vx_take(&self, k: &L::Key) -> (r: (L, ListenSlot)) requires self@.contains_key(*k) ensures r == self@[*k] { unimplemented!() }
    #[verifier::external_body]
    pub fn vx_put(&mut self, k: &L::Key, v: (L, ListenSlot)) ensures final(self)@ == old(self)@.insert(*k, v) { unimplemented!() }
}
#[verifier::external_body]
pub struct VxValidatorFactory { _p: u8 }
// RefCell<BlockDecodeState>: the block that is being streamed in chunks (chain/tracker.rs BlockDecodeState: offset, block
// hash announced with the chunks, the push decoder); `into_inner` hands out the state, `decoder.finish()` says whether the
// chunks made up one complete block
#[verifier::external_body]
pub struct VxDecodeState { _p: u8 }
#[verifier::external_body]
pub struct VxDecoder { _p: u8 }
#[verifier::external_body]
pub struct VxDecodeErr { _p: u8 }
pub struct VxDecodeInner { pub decoder: VxDecoder, pub block_hash: BlockHash }
impl VxDecodeState {
    pub uninterp spec fn announced_hash(&self) -> BlockHash;
    pub uninterp spec fn complete(&self) -> bool;
    #[verifier::external_body]
    pub fn into_inner(self) -> (r: VxDecodeInner) ensures r.block_hash == self.announced_hash(), r.decoder.finishes() == self.complete() { unimplemented!() }
}
impl VxDecoder {
    pub uninterp spec fn finishes(&self) -> bool;
    #[verifier::external_body]
    pub fn finish(self) -> (r: Result<(), VxDecodeErr>) ensures r.is_ok() == self.finishes() { unimplemented!() }
}
pub trait VxDecodeErrMap: Sized { fn vx_block_decode_error(self) -> (r: Result<(), Error>) ensures r.is_ok() == self.vx_dec_ok(); spec fn vx_dec_ok(self) -> bool; }
impl VxDecodeErrMap for Result<(), VxDecodeErr> {
    open spec fn vx_dec_ok(self) -> bool { self.is_ok() }
    #[verifier::external_body]
    fn vx_block_decode_error(self) -> (r: Result<(), Error>) { unimplemented!() }
}
#[verifier::external_body]
pub struct ValidationErrorDbg { _p: u8 }

//@type vls-core/src/chain/tracker.rs :: Error
//@type vls-core/src/chain/tracker.rs :: Headers derive=Clone
//@type vls-core/src/chain/tracker.rs :: ListenSlot
//@type vls-core/src/chain/tracker.rs :: ChainTracker attr="#[verifier::reject_recursive_types(L)]"
//@const vls-core/src/chain/tracker.rs :: MAX_REORG_SIZE ctx="impl<L: ChainListener> ChainTracker<L>"

// ------------------------------------------------------------------ spec side (from the property)
// the proof for this block verifies for all watched outpoints with a majority of the trusted oracles
// (`watches`: the outpoints the proof is checked for)
pub uninterp spec fn proof_and_majority_ok(watches: Set<OutPoint>, oracles: Vec<PublicKey>, network: Network, proof: TxoProof, height: u32, header: BlockHeader,
    external: Option<BlockHash>, prev_filter_header: FilterHeader) -> bool;
// every outpoint some registered listener watches - and, with `include_seen` (block removal), every outpoint some listener has
// already seen spent.  get_all_forward_watches / get_all_reverse_watches are VERIFIED to return exactly this set in unit
// tracker_watches (where it is defined over the listener slots); here it names the set by the same name
pub uninterp spec fn watched_outpoints<L: ChainListener>(listeners: VxListeners<L>, include_seen: bool) -> Set<OutPoint>;

pub open spec fn retarget_rule_ok(network: Network, height: u32, prev: BlockHeader, header: BlockHeader) -> bool {
    if network == Network::Testnet && hdr_target(header) == spec_max_target(network) && header.time > prev.time + 60 * 20 {
        true      // testnet 20 minute rule
    } else if (height + 1) % (DIFFCHANGE_INTERVAL as int) == 0 {
        retarget_ok(hdr_target(prev), hdr_target(header), network)
    } else {
        header.bits == prev.bits || network == Network::Testnet
    }
}
// `headers` may follow `prev` at `height + 1`
pub open spec fn block_follows<L: ChainListener>(listeners: VxListeners<L>, oracles: Vec<PublicKey>, network: Network, height: u32, external: Option<BlockHash>, prev: Headers,
    headers: Headers, proof: TxoProof, is_remove: bool) -> bool
{
    &&& headers.0.prev_blockhash == hdr_hash(prev.0)
    &&& pow_ok(headers.0)
    &&& retarget_rule_ok(network, height, prev.0, headers.0)
    // the proof is checked for ALL watched outpoints; for a removal also for the outpoints already seen spent
    &&& (prev.1.is_all_zero() || proof_and_majority_ok(watched_outpoints(listeners, is_remove), oracles, network, proof, (height + 1) as u32, headers.0, external, prev.1))
}
// what a refused request must leave alone (C13): tip, height, remembered headers, watches and monitors
pub open spec fn tracker_same<L: ChainListener>(a: ChainTracker<L>, b: ChainTracker<L>) -> bool {
    a.headers@ == b.headers@ && a.tip == b.tip && a.height == b.height && a.listeners == b.listeners
    && a.network == b.network && a.trusted_oracle_pubkeys == b.trusted_oracle_pubkeys
}
pub open spec fn take_front(s: Seq<Headers>, n: int) -> Seq<Headers> { if s.len() <= n { s } else { s.take(n) } }

// a block was streamed in chunks exactly when the proof says so, and then the chunks made up one complete block whose
// announced hash is `hash`
pub open spec fn streamed_block_is(pending: Option<VxDecodeState>, proof: TxoProof, hash: BlockHash) -> bool {
    (proof.proof is ExternalBlock) == pending.is_some()
    && (pending.is_some() ==> pending->Some_0.complete() && pending->Some_0.announced_hash() == hash)
}
pub uninterp spec fn listeners_told(hash: BlockHash, is_remove: bool) -> bool;
pub uninterp spec fn listeners_told_stream_start<L: ChainListener>(listeners: VxListeners<L>) -> bool;
// chain/tracker.rs BlockDecodeState::new(hash) and the RefCell around it
#[verifier::external_body] pub struct BlockDecodeState { _p: u8 }
impl BlockDecodeState { #[verifier::external_body] pub fn new(hash: BlockHash) -> BlockDecodeState { unimplemented!() } }
#[verifier::external_body]
pub fn vx_refcell(s: BlockDecodeState) -> VxDecodeState { unimplemented!() }

impl<L: ChainListener> ChainTracker<L> {

    // ---- assumed here: listener notification (touches only `listeners`: VERIFIED in unit tracker_watches, which proves this
    // frame and the slot updates on the real bodies), streamed-block bookkeeping
    // (`listeners_told` is an uninterpreted call marker: which block hash the monitors were told was added / removed)
    #[verifier::external_body]
    fn notify_listeners_remove(&mut self, txs: Option<&[Transaction]>, block_hash: BlockHash)
        ensures listeners_told(block_hash, true), final(self).headers == old(self).headers, final(self).tip == old(self).tip, final(self).height == old(self).height,
            final(self).network == old(self).network, final(self).trusted_oracle_pubkeys == old(self).trusted_oracle_pubkeys,
            final(self).allow_deep_reorgs == old(self).allow_deep_reorgs, final(self).decode_state == old(self).decode_state,
    { unimplemented!() }
    #[verifier::external_body]
    fn notify_listeners_add(&mut self, txs: Option<&[Transaction]>, block_hash: BlockHash)
        ensures listeners_told(block_hash, false), final(self).headers == old(self).headers, final(self).tip == old(self).tip, final(self).height == old(self).height,
            final(self).network == old(self).network, final(self).trusted_oracle_pubkeys == old(self).trusted_oracle_pubkeys,
            final(self).allow_deep_reorgs == old(self).allow_deep_reorgs, final(self).decode_state == old(self).decode_state,
    { unimplemented!() }
    #[verifier::external_body]
    fn vx_validator_validate_block(&self, proof: &TxoProof, height: u32, header: &BlockHeader, external: Option<&BlockHash>,
        prev_filter_header: &FilterHeader, outpoint_watches: &Vec<OutPoint>) -> (r: Result<(), ValidationErrorDbg>)
        ensures r.is_ok() ==> proof_and_majority_ok(outpoint_watches@.to_set(), self.trusted_oracle_pubkeys, self.network, *proof, height, *header,
            (match external { Some(h) => Some(*h), None => None }), *prev_filter_header),
    { unimplemented!() }
    // assumed here, VERIFIED in unit tracker_watches (same clauses)
    #[verifier::external_body]
    pub fn get_all_forward_watches(&self) -> (r: (Vec<Txid>, Vec<OutPoint>)) ensures r.1@.to_set() == watched_outpoints(self.listeners, false) { unimplemented!() }
    #[verifier::external_body]
    pub fn get_all_reverse_watches(&self) -> (r: (Vec<Txid>, Vec<OutPoint>)) ensures r.1@.to_set() == watched_outpoints(self.listeners, true) { unimplemented!() }

    // `for (listener, _) in self.listeners.values() { listener.on_streamed_block_start(); }`: every registered monitor is told
    // (call marker; what a monitor does with it is verified in unit monitor_done: it drops its partial decode state)
    #[verifier::external_body]
    fn vx_tell_listeners_stream_start(&self) ensures listeners_told_stream_start(self.listeners) { unimplemented!() }
    // the decoding of one chunk (push decoder of an external crate; events go to the listeners through on_push): consumes
    // the chunk, leaves tip / height / headers / listeners map alone and the stream pending
    #[verifier::external_body]
    fn vx_decode_next(&mut self, hash: BlockHash, offset: u32, chunk: &[u8])
        ensures tracker_same(*final(self), *old(self)), final(self).allow_deep_reorgs == old(self).allow_deep_reorgs,
            old(self).decode_state.is_some(), final(self).decode_state.is_some(),
    { unimplemented!() }

//@fn vls-core/src/chain/tracker.rs :: impl<L: ChainListener> ChainTracker<L> :: block_chunk props=C13,C14
    ensures
        tracker_same(*final(self), *old(self)),
        // the first chunk of a streamed block starts from a clean slate: no stream was pending in the tracker (the code asserts
        // it; add_block / remove_block leave none, see [C13.*.no-stream-left-pending]) and EVERY registered monitor is told, so
        // that a monitor still holding the partial state of a streamed block the tracker refused drops it instead of aborting
        // on the next block start ("saw more than one on_block_start")
        offset == 0 ==> old(self).decode_state.is_none() && listeners_told_stream_start(old(self).listeners),   //[C13.chunk.first-chunk-resets-the-monitors] [C14.chunk.first-chunk-resets-the-monitors]
        final(self).decode_state.is_some(),
//@sub /(?s)if let Some\(decode_state_cell\) = self\.decode_state\.as_ref\(\) \{.*\} else \{\s*vx_abort\(\);?\s*\}/ => if self.decode_state.is_some() { self.vx_decode_next(hash, offset, chunk); } else { vx_abort(); }
//@end

//@fn vls-core/src/chain/tracker.rs :: impl<L: ChainListener> ChainTracker<L> :: maybe_finish_decoding_block props=C13
    ensures
        tracker_same(*final(self), *old(self)), final(self).allow_deep_reorgs == old(self).allow_deep_reorgs,
        // whatever the outcome, the pending stream is consumed: the next request starts clean
        final(self).decode_state.is_none(),                                                          //[C13.finish.consumes-pending-stream]
        // Ok: a block was streamed exactly if the proof says so, it decoded completely and it is the expected block
        r.is_ok() ==> streamed_block_is(old(self).decode_state, *proof, *expected_block_hash),       //[C13.finish.streamed-block-is-expected]
//@sub /(?s)\.map_err\(\|e\| \{\s*Error::BlockDecodeError\s*\}\)/ => .vx_block_decode_error()
//@end

//@fn vls-core/src/chain/tracker.rs :: impl<L: ChainListener> ChainTracker<L> :: validate_block props=C13 optiters
    requires height < 0x7fff_ffff, prev_headers.0.time <= 0xffff_0000,
    ensures
        r.is_ok() ==> block_follows(self.listeners, self.trusted_oracle_pubkeys, self.network, height, (match external_block_hash { Some(h) => Some(*h), None => None }),
            *prev_headers, *headers, *proof, is_remove),                                            //[C13.validate.follows] [C13.validate.proof-checked-for-all-watched-outpoints]
//@sub /let validator = self\.validator_factory\.make_validator\(self\.network, self\.node_id, None\);/ => 
//@sub /validator\s*\.validate_block\(\s*proof,\s*height \+ 1,\s*header,\s*external_block_hash,\s*prev_filter_header,\s*(&\w+),\s*&self\.trusted_oracle_pubkeys,\s*\)/ => self.vx_validator_validate_block(proof, height + 1, header, external_block_hash, prev_filter_header, \1)
//@end

//@fn vls-core/src/chain/tracker.rs :: impl<L: ChainListener> ChainTracker<L> :: add_block props=C13,C10
    requires old(self).height < 0x7fff_fffe, old(self).tip.0.time <= 0xffff_0000,
    ensures
        // the tip advances only by a validated block
        r.is_ok() ==> block_follows(old(self).listeners, old(self).trusted_oracle_pubkeys, old(self).network, old(self).height,
            (if proof.proof is ExternalBlock { Some(hdr_hash(header)) } else { None }),
            old(self).tip, Headers(header, proof_filter_header(proof)), proof, false),              //[C13.add.validated]
        // the block that was streamed in chunks (if any) and the block the monitors are told about are THIS block
        r.is_ok() ==> streamed_block_is(old(self).decode_state, proof, hdr_hash(header)),             //[C13.add.streamed-block-is-this-block]
        // accepted or refused, no streamed block is left pending, so that a later correct request still succeeds
        final(self).decode_state.is_none(),                                                          //[C13.add.no-stream-left-pending]
        r.is_ok() ==> listeners_told(hdr_hash(header), false),                                       //[C14.add.monitors-told-this-block]
        r.is_ok() ==> final(self).tip == Headers(header, proof_filter_header(proof))
            && final(self).height == old(self).height + 1
            && final(self).headers@ == seq![old(self).tip] + take_front(old(self).headers@, MAX_REORG_SIZE - 1),   //[C13.add.advance]
        r.is_err() ==> tracker_same(*final(self), *old(self)),                                       //[C13.add.atomic] [C10.tracker.add-err-frame]
//@end

//@fn vls-core/src/chain/tracker.rs :: impl<L: ChainListener> ChainTracker<L> :: remove_block props=C13,C10
    requires 0 < old(self).height, old(self).height < 0x7fff_fffe, supplied_prev_headers.0.time <= 0xffff_0000,
    ensures
        // the tip retreats only to the remembered (or, in a permitted deep reorg, the supplied) previous header,
        // and only if the current tip validly follows it
        r.is_ok() ==> block_follows(old(self).listeners, old(self).trusted_oracle_pubkeys, old(self).network, (old(self).height - 1) as u32,
            (if proof.proof is ExternalBlock { Some(hdr_hash(old(self).tip.0)) } else { None }),
            supplied_prev_headers, old(self).tip, proof, true),                                     //[C13.remove.validated]
        // the block that was streamed in chunks (if any) and the block the monitors are told about are the block that is
        // REMOVED, i.e. the current tip (not its predecessor)
        r.is_ok() ==> streamed_block_is(old(self).decode_state, proof, hdr_hash(old(self).tip.0)),    //[C13.remove.streamed-block-is-removed-block]
        final(self).decode_state.is_none(),                                                          //[C13.remove.no-stream-left-pending]
        r.is_ok() ==> listeners_told(hdr_hash(old(self).tip.0), true),                               //[C14.remove.monitors-told-removed-block]
        r.is_ok() && old(self).headers@.len() > 0 ==> supplied_prev_headers.0 == old(self).headers@[0].0
            && supplied_prev_headers.1 == old(self).headers@[0].1,                                   //[C13.remove.prev-is-remembered]
        r.is_ok() && old(self).headers@.len() == 0 ==> old(self).allow_deep_reorgs,                  //[C13.remove.deep-only-if-allowed]
        r.is_ok() ==> final(self).tip == supplied_prev_headers && final(self).height == old(self).height - 1
            && final(self).headers@ == (if old(self).headers@.len() > 0 { old(self).headers@.drop_first() } else { old(self).headers@ })
            && r->Ok_0 == old(self).tip.0,                                                          //[C13.remove.retreat]
        r.is_err() ==> tracker_same(*final(self), *old(self)),                                       //[C13.remove.atomic] [C10.tracker.remove-err-frame]
//@end

//@fn vls-core/src/chain/tracker.rs :: impl<L: ChainListener> ChainTracker<L> :: restore props=C11,C13
    ensures
        // a restarted tracker stands exactly where the stored one stood: tip, height, remembered headers, listeners; deep
        // reorgs are off until the configuration switches them on again
        r.tip == tip && r.height == height && r.headers@ == headers@ && r.listeners == listeners && r.network == network
            && r.trusted_oracle_pubkeys == trusted_oracle_pubkeys && !r.allow_deep_reorgs,             //[C11.tracker.restore-verbatim] [C13.tracker.restore-no-deep-reorgs]
//@end

// ---- listener registration (C14 / C11: what a restart puts back is the persisted entry, verbatim) ----
//@fn vls-core/src/chain/tracker.rs :: impl<L: ChainListener> ChainTracker<L> :: restore_listener props=C14,C11
    ensures
        // the persisted entry - txid watches, outpoint watches AND the outpoints already seen spent (they are what a later
        // reorg must watch) - is registered again under the persisted key, nothing else changes
        final(self).listeners@ == old(self).listeners@.insert(outpoint, (listener, slot)),             //[C14.restore-listener.entry-verbatim] [C11.restore-listener.entry-verbatim]
        final(self).headers == old(self).headers && final(self).tip == old(self).tip && final(self).height == old(self).height,
//@end

//@fn vls-core/src/chain/tracker.rs :: impl<L: ChainListener> ChainTracker<L> :: add_listener props=C14
    ensures
        final(self).listeners@ == old(self).listeners@.insert(listener.key_spec(),
            (listener, ListenSlot { txid_watches: initial_txid_watches, watches: final(self).listeners@[listener.key_spec()].1.watches,
                seen: final(self).listeners@[listener.key_spec()].1.seen })),
        final(self).listeners@[listener.key_spec()].1.watches@ == Set::<OutPoint>::empty()
            && final(self).listeners@[listener.key_spec()].1.seen@ == Set::<OutPoint>::empty(),          //[C14.add-listener.fresh-slot]
        final(self).headers == old(self).headers && final(self).tip == old(self).tip && final(self).height == old(self).height,
//@sub /listener\.key\(\)\.clone\(\)/ => vx_clone_key::<L>(listener.key())
//@end

//@fn vls-core/src/chain/tracker.rs :: impl<L: ChainListener> ChainTracker<L> :: remove_listener props=C14
    ensures
        final(self).listeners@ == old(self).listeners@.remove(*key),                                   //[C14.remove-listener.only-that-entry]
        final(self).headers == old(self).headers && final(self).tip == old(self).tip && final(self).height == old(self).height,
//@end

//@fn vls-core/src/chain/tracker.rs :: impl<L: ChainListener> ChainTracker<L> :: add_listener_watches props=C13,C14
    requires old(self).listeners@.contains_key(*key),
    ensures
        final(self).listeners@ == old(self).listeners@.insert(*key, (old(self).listeners@[*key].0,
            ListenSlot { watches: final(self).listeners@[*key].1.watches, ..old(self).listeners@[*key].1 })),
        // the new watches are ADDED to what the listener already watches: nothing that was watched drops out of the set the
        // unspent-output proof of the next block is checked for
        final(self).listeners@[*key].1.watches@ == old(self).listeners@[*key].1.watches@.union(watches@),      //[C13.add-watches.adds-to-the-watched-set] [C14.add-watches.adds-to-the-watched-set]
        final(self).headers == old(self).headers && final(self).tip == old(self).tip && final(self).height == old(self).height,
// `get_mut(key).expect(..)` + writes through the reference -> take the entry, change it, put it back (manual rewrite; the statement
// that changes `slot.watches` stays the real text)
//@sub /let \(_, slot\) =\s*self\.listeners\.get_mut\(key\)\.vx_expect\(\);/ => let mut vx_e = self.listeners.vx_take(key);
//@sub /\bslot\.watches([^;]*);/ => vx_e.1.watches\1; self.listeners.vx_put(key, vx_e);
//@end

} // impl

//@fn vls-core/src/chain/tracker.rs :: - :: validate_retarget props=C13
    ensures r.is_ok() ==> retarget_ok(prev_target, target, network),                                 //[C13.retarget.within-window-and-limit]
// the nested helper gets a contract too (its one-line body stays the real one and is verified)
//@sub /fn round_trip_target\(target: Target\) -> Target \{/ => fn round_trip_target(target: Target) -> (r: Target) ensures r == spec_rt(target) {
//@end

} // verus!
fn main() {}
