//@unit handler_holder
//@props C01 C02
// The closures of the protocol handler through which per-commitment secrets of the holder leave the signer
// (vls-protocol-signer/src/handler.rs, ChannelHandler::do_handle: the arms GetPerCommitmentPoint, ValidateCommitmentTx2,
// RevokeCommitmentTx), each lifted verbatim into a function (rewrite R26 with the `after=` selector: the first block closure
// behind the arm's pattern).  The Channel functions they call are under contract in unit channel_holder (the bound
// n + 2 <= next_holder_commit_num, revocation only from a stored, counter-signed successor); here each is a call marker with
// its exact arguments and result, so the contract of a closure says WHICH channel call, with WHICH commitment number,
// produced the secret that goes into the reply:
//   GetPerCommitmentPoint(n)   - a secret only under the old protocol, only for n >= 2, and it is the channel's answer for n - 2;
//   ValidateCommitmentTx2(n)   - a secret only under the pre-REVOKE protocol, from revoke_previous_holder_commitment(n), called
//                                after validate_holder_commitment_tx_phase2 accepted commitment n with the message's content;
//   RevokeCommitmentTx(n)      - the channel's answer to revoke_previous_holder_commitment(n + 1).
use vstd::prelude::*;
use vstd::std_specs::cmp::OrdSpec;
//@include prelude/core.rs
//@include prelude/deps.rs
verus! {

//@@TAGS

//@const vls-protocol/src/msgs.rs :: PROTOCOL_VERSION_REVOKE
//@const vls-protocol/src/msgs.rs :: PROTOCOL_VERSION_NO_SECRET

#[verifier::external_body] pub struct HTLCInfo2 { _p: u8 }
impl Clone for HTLCInfo2 { #[verifier::external_body] fn clone(&self) -> (r: Self) ensures r == *self { unimplemented!() } }
#[verifier::external_body] pub struct VxChanView { _p: u8 }
#[verifier::external_body] pub struct VxChan { _p: u8 }        // the channel slot the closure is handed (&mut dyn ChannelBase / &mut Channel)

// call markers: the channel (in the state given) answered this call with this result, leaving it in the state `after`
pub uninterp spec fn chan_point(c: VxChanView, n: u64, r: Result<PublicKey, Status>) -> bool;
pub uninterp spec fn chan_secret(c: VxChanView, n: u64, r: Result<SecretKey, Status>) -> bool;
pub uninterp spec fn chan_validated_holder(c: VxChanView, n: u64, feerate: u32, to_local: u64, to_remote: u64, offered: Seq<HTLCInfo2>, received: Seq<HTLCInfo2>,
    sig: Signature, htlc_sigs: Seq<Signature>, after: VxChanView) -> bool;
pub uninterp spec fn chan_revoked(c: VxChanView, n: u64, r: Result<(PublicKey, Option<SecretKey>), Status>, after: VxChanView) -> bool;
pub uninterp spec fn chan_activated(c: VxChanView, r: Result<PublicKey, Status>, after: VxChanView) -> bool;
impl VxChan {
    pub uninterp spec fn view(&self) -> VxChanView;
    #[verifier::external_body]
    pub fn get_per_commitment_point(&self, commitment_number: u64) -> (r: Result<PublicKey, Status>) ensures chan_point(self@, commitment_number, r) { unimplemented!() }
    #[verifier::external_body]
    pub fn get_per_commitment_secret(&self, commitment_number: u64) -> (r: Result<SecretKey, Status>) ensures chan_secret(self@, commitment_number, r) { unimplemented!() }
    #[verifier::external_body]
    pub fn validate_holder_commitment_tx_phase2(&mut self, commitment_number: u64, feerate_per_kw: u32, to_holder_value_sat: u64, to_counterparty_value_sat: u64,
        offered_htlcs: Vec<HTLCInfo2>, received_htlcs: Vec<HTLCInfo2>, counterparty_commit_sig: &Signature, counterparty_htlc_sigs: &Vec<Signature>) -> (r: Result<(), Status>)
        ensures r.is_ok() ==> chan_validated_holder(old(self)@, commitment_number, feerate_per_kw, to_holder_value_sat, to_counterparty_value_sat, offered_htlcs@, received_htlcs@,
                    *counterparty_commit_sig, counterparty_htlc_sigs@, final(self)@),
                r.is_err() ==> final(self)@ == old(self)@,
    { unimplemented!() }
    #[verifier::external_body]
    pub fn revoke_previous_holder_commitment(&mut self, new_current_commitment_number: u64) -> (r: Result<(PublicKey, Option<SecretKey>), Status>)
        ensures chan_revoked(old(self)@, new_current_commitment_number, r, final(self)@) { unimplemented!() }
    #[verifier::external_body]
    pub fn activate_initial_commitment(&mut self) -> (r: Result<PublicKey, Status>) ensures chan_activated(old(self)@, r, final(self)@) { unimplemented!() }
}

// `offered_htlcs.clone()` / `received_htlcs.clone()` (the closure may run more than once): the same list
#[verifier::external_body]
pub fn vx_clone_htlcs(v: &Vec<HTLCInfo2>) -> (r: Vec<HTLCInfo2>) ensures r@ == v@ { unimplemented!() }
pub struct ValidateCommitmentTx2Amounts { pub to_local_value_sat: u64, pub to_remote_value_sat: u64 }
pub struct ChannelHandler { pub protocol_version: u32, pub rest: VxHandlerRest }
#[verifier::external_body] pub struct VxHandlerRest { _p: u8 }

impl ChannelHandler {

//@fn vls-protocol-signer/src/handler.rs :: impl Handler for ChannelHandler :: do_handle closure=1 after="Message::GetPerCommitmentPoint\(m\) =>" as=get_per_commitment_point_closure props=C01
//@sig fn get_per_commitment_point_closure(&self, base: &mut VxChan, commitment_number: u64) -> (r: Result<(PublicKey, Option<SecretKey>), Status>)
    ensures
        final(base)@ == old(base)@,
        // a secret goes into the reply only under the old protocol and only for n >= 2, and it is what the channel answered for
        // exactly n - 2 (whose release the channel bounds by n - 2 + 2 <= next_holder_commit_num, unit channel_holder)
        r.is_ok() && r->Ok_0.1.is_some() ==> self.protocol_version < PROTOCOL_VERSION_NO_SECRET && commitment_number >= 2
            && chan_secret(old(base)@, (commitment_number - 2) as u64, Ok(r->Ok_0.1->Some_0)),              //[C01.handler.get-point-secret-is-the-channels-answer-for-n-minus-2]
        r.is_ok() ==> chan_point(old(base)@, commitment_number, Ok(r->Ok_0.0)),
//@end

//@fn vls-protocol-signer/src/handler.rs :: impl Handler for ChannelHandler :: do_handle closure=2 after="Message::ValidateCommitmentTx2\(m\) =>" as=validate_commitment_tx2_closure props=C01
//@sig fn validate_commitment_tx2_closure(&self, chan: &mut VxChan, m: &ValidateCommitmentTx2Amounts, commit_num: u64, feerate_sat_per_kw: u32, offered_htlcs: &Vec<HTLCInfo2>, received_htlcs: &Vec<HTLCInfo2>, commit_sig: Signature, htlc_sigs: Vec<Signature>) -> (r: Result<(PublicKey, Option<SecretKey>), Status>)
    requires commit_num < u64::MAX,
    ensures
        // nothing is answered, and no secret leaves, unless the channel accepted commitment commit_num with the content and the
        // counterparty signatures of the message ...
        r.is_ok() ==> exists|mid: VxChanView| #[trigger] chan_validated_holder(old(chan)@, commit_num, feerate_sat_per_kw, m.to_local_value_sat, m.to_remote_value_sat,
                offered_htlcs@, received_htlcs@, commit_sig, htlc_sigs@, mid)                               //[C01.handler.validate2-secret-only-after-channel-accepted-this-commitment]
            // ... and a secret is the channel's answer to revoke_previous_holder_commitment(commit_num), asked only under the
            // protocol that revokes implicitly
            && (r->Ok_0.1.is_some() ==> self.protocol_version < PROTOCOL_VERSION_REVOKE
                && chan_revoked(mid, commit_num, r, final(chan)@)),                                          //[C01.handler.validate2-secret-is-the-revocation-of-this-number]
//@sub /offered_htlcs\.clone\(\)/ => vx_clone_htlcs(offered_htlcs)
//@sub /received_htlcs\.clone\(\)/ => vx_clone_htlcs(received_htlcs)
//@end

//@fn vls-protocol-signer/src/handler.rs :: impl Handler for ChannelHandler :: do_handle closure=1 after="Message::RevokeCommitmentTx\(m\) =>" as=revoke_commitment_tx_closure props=C01,C02
//@sig fn revoke_commitment_tx_closure(&self, chan: &mut VxChan, commit_num: u64) -> (r: Result<(PublicKey, Option<SecretKey>), Status>)
    requires commit_num < u64::MAX,
    ensures
        // RevokeCommitmentTx(n) asks the channel to make n + 1 current: the secret in the reply is the channel's answer to exactly
        // that (unit channel_holder: released only from a stored, counter-signed successor, never once a holder commitment was signed)
        chan_revoked(old(chan)@, (commit_num + 1) as u64, r, final(chan)@),                                  //[C01.handler.revoke-asks-for-successor-number] [C02.handler.revoke-goes-through-the-channel]
//@end

} // impl

} // verus!
fn main() {}
