//@unit channel_close
//@props C07 C02 C10 C11
// Contracts on the closing paths of Channel (vls-core/src/channel.rs): mutual close (both entry points)
// and the redundant holder-commitment signing variant.
use vstd::prelude::*;
use vstd::std_specs::cmp::OrdSpec;
//@include prelude/core.rs
//@include prelude/deps.rs
//@include prelude/btc.rs
//@include frag/enforcement_types.rs
//@include prelude/channel_deps.rs
//@include prelude/ldk_tx.rs
//@include prelude/sv_deps.rs
//@include prelude/wallet.rs
//@map /Weak<Node>/ => VxNodeRef
//@map /Secp256k1<All>/ => VxSecp
//@map /Arc<dyn Validator>/ => VxValidator
//@map /Arc<Node>/ => VxWallet
//@map /Map<PaymentHash, u64>/ => VxPayMap
//@map /&\*self\.get_node\(\)/ => &self.get_node()
//@map /&dyn Wallet/ => &VxWallet
//@map /\bPolicyFilter\b/ => VxPolicyFilter
//@map /holder_script\.clone\(\)\.unwrap_or_else\(\|\| ScriptBuf::new\(\)\)/ => vx_script_or_empty(holder_script.clone())
//@map /counterparty_script\.clone\(\)\.unwrap_or_else\(\|\| ScriptBuf::new\(\)\)/ => vx_script_or_empty(counterparty_script.clone())
verus! {

//@@TAGS

//@include frag/enforcement_spec.rs
//@include frag/channel_types.rs
//@include frag/channel_spec.rs
//@include frag/sv_types.rs
//@include frag/sv_spec.rs
//@include frag/close_spec.rs

// the policy of the validator this channel gets from its node's factory
pub uninterp spec fn sv_policy(v: VxValidator) -> SimplePolicy;
pub uninterp spec fn chan_wallet(c: Channel) -> VxWallet;

impl Channel {
//@fn vls-core/src/channel.rs :: impl Channel :: persist mode=trusted
//@sigsub /&self/ => &mut self
    ensures
        r.is_ok(),
        final(self).persisted@ == old(self).enforcement_state,
        final(self).enforcement_state == old(self).enforcement_state,
        chan_static_eq(*final(self), *old(self)),
//@end
//@fn vls-core/src/channel.rs :: impl ChannelBase for Channel :: validator mode=trusted
//@end
//@fn vls-core/src/channel.rs :: impl Channel :: get_node mode=trusted
    ensures r == chan_wallet(*self),
//@end
}

impl VxValidator {
//@fn vls-core/src/policy/simple_validator.rs :: impl Validator for SimpleValidator :: validate_mutual_close_tx mode=trusted
//@include frag/c/sv_validate_mutual_close_tx.rs
//@end
//@fn vls-core/src/policy/simple_validator.rs :: impl Validator for SimpleValidator :: decode_and_validate_mutual_close_tx mode=trusted
//@include frag/c/sv_decode_and_validate_mutual_close_tx.rs
//@end
}

impl Channel {

//@fn vls-core/src/channel.rs :: impl Channel :: sign_mutual_close_tx_phase2 props=C07,C02,C10,C11
    requires chan_wf(*old(self)),
    ensures
        chan_static_eq(*final(self), *old(self)),
        // signed only if the close passes the mutual-close policy ...
        r.is_ok() && c07_strict() ==> exists|v: VxValidator| mutual_close_ok(sv_policy(v), chan_wallet(*old(self)), old(self).setup,
            old(self).enforcement_state, to_holder_value_sat, to_counterparty_value_sat, *holder_script, *counterparty_script,
            *holder_wallet_path_hint),                                                               //[C07.sign-phase2.policy]
        // ... the signature is over the canonical closing transaction spending the channel's funding outpoint ...
        r.is_ok() ==> r->Ok_0 == ldk_sign_closing(old(self).keys, closing_tx_spec(to_holder_value_sat, to_counterparty_value_sat,
            script_or_empty(*holder_script), script_or_empty(*counterparty_script), old(self).setup.funding_outpoint)),   //[C07.sign-phase2.canonical-tx]
        // ... and afterwards the channel is marked closed
        r.is_ok() ==> final(self).enforcement_state == (EnforcementState { channel_closed: true, ..old(self).enforcement_state }),   //[C07.sign-phase2.marks-closed] [C02.sign-mutual.marks-closed]
        r.is_err() ==> final(self).enforcement_state == old(self).enforcement_state
            && final(self).persisted == old(self).persisted,                                         //[C10.sign-mutual-phase2.err-frame]
        r.is_ok() ==> final(self).persisted@ == final(self).enforcement_state,                       //[C11.sign-mutual-phase2.persisted]
//@end

//@fn vls-core/src/channel.rs :: impl Channel :: sign_mutual_close_tx props=C07,C02,C10,C11
    requires chan_wf(*old(self)), tx.output@.len() >= 1,     // a transaction without outputs panics in the validator (abort)
    ensures
        chan_static_eq(*final(self), *old(self)),
        r.is_ok() && c07_strict() ==> exists|v: VxValidator, a: CloseArgs| close_candidate(*tx, opaths@, a)
            && mutual_close_ok(sv_policy(v), chan_wallet(*old(self)), old(self).setup, old(self).enforcement_state,
                a.to_holder, a.to_cp, a.holder_script, a.cp_script, a.path)
            && r->Ok_0 == ldk_sign_closing(old(self).keys, closing_tx_spec(a.to_holder, a.to_cp, script_or_empty(a.holder_script),
                script_or_empty(a.cp_script), old(self).setup.funding_outpoint)),                    //[C07.sign-phase1.policy-and-canonical-tx]
        r.is_ok() ==> final(self).enforcement_state == (EnforcementState { channel_closed: true, ..old(self).enforcement_state }),   //[C07.sign-phase1.marks-closed]
        r.is_err() ==> final(self).enforcement_state == old(self).enforcement_state
            && final(self).persisted == old(self).persisted,                                         //[C10.sign-mutual.err-frame]
        r.is_ok() ==> final(self).persisted@ == final(self).enforcement_state,                       //[C11.sign-mutual.persisted]
//@end

} // impl Channel

} // verus!
fn main() {}
