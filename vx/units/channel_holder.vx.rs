//@unit channel_holder
//@props C01 C02 C06 C10 C11
// Contracts on the holder-commitment side of Channel (vls-core/src/channel.rs): disclosure of
// per-commitment secrets, revocation, holder commitment validation and signing.
use vstd::prelude::*;
use vstd::std_specs::cmp::OrdSpec;
//@include prelude/core.rs
//@include prelude/deps.rs
//@include prelude/btc.rs
//@include frag/enforcement_types.rs
//@include prelude/channel_deps.rs
//@include prelude/ldk_tx.rs
//@map /Weak<Node>/ => VxNodeRef
//@map /Secp256k1<All>/ => VxSecp
//@map /Arc<dyn Validator>/ => VxValidator
//@map /Arc<Node>/ => VxNode
//@map /Map<PaymentHash, u64>/ => VxPayMap
//@map /&\*state\b/ => &state
//@map /&dyn Wallet/ => &VxNode
//@map /\bRevocationKey\b/ => VxKeyWrap
//@map /\bDelayedPaymentKey\b/ => VxKeyWrap
//@map /chan_utils::get_revokeable_redeemscript/ => vx_get_revokeable_redeemscript
//@map /Option<Address>/ => Option<VxAddress>
//@map /Vec<HTLCInfo>/ => Vec<VxHTLCInfo>
//@map /bitcoin::Transaction/ => Transaction
verus! {

//@@TAGS

//@include frag/enforcement_spec.rs
//@include frag/channel_types.rs
//@include frag/channel_spec.rs
//@include frag/channel_trusted.rs
//@include frag/channel_recovery_trusted.rs
//@include frag/channel_decoder_trusted.rs

impl Channel {

//@fn vls-core/src/channel.rs :: impl Channel :: get_per_commitment_point_unchecked props=C01
    requires commitment_number <= INITIAL_COMMITMENT_NUMBER,
    ensures r == ldk_commitment_point(self.keys, (INITIAL_COMMITMENT_NUMBER - commitment_number) as u64),
//@end

//@fn vls-core/src/channel.rs :: impl ChannelBase for Channel :: get_per_commitment_point props=C01
    requires commitment_number <= INITIAL_COMMITMENT_NUMBER, self.enforcement_state.next_holder_commit_num < COMMIT_LIMIT,
    ensures
        r.is_ok() == (commitment_number <= self.enforcement_state.next_holder_commit_num + 1),
        r.is_ok() ==> r->Ok_0 == ldk_commitment_point(self.keys, (INITIAL_COMMITMENT_NUMBER - commitment_number) as u64),
//@end

//@fn vls-core/src/channel.rs :: impl ChannelBase for Channel :: get_per_commitment_secret props=C01
    requires commitment_number <= INITIAL_COMMITMENT_NUMBER, self.enforcement_state.next_holder_commit_num < COMMIT_LIMIT,
    ensures
        // the disclosure choke point: secret n only once n+1 is counter-signed and made current
        r.is_ok() && vx_strict(T_policy_revoke_new_commitment_signed) ==>
            secret_disclosable(self.enforcement_state, commitment_number),                       //[C01.secret.bound]
        r.is_ok() ==> r->Ok_0 == holder_secret(self.keys, commitment_number),                     //[C01.secret.is-the-secret]
        secret_disclosable(self.enforcement_state, commitment_number) ==> r.is_ok(),
//@end

//@fn vls-core/src/channel.rs :: impl ChannelBase for Channel :: get_per_commitment_secret_or_none props=C01
    requires commitment_number <= INITIAL_COMMITMENT_NUMBER, self.enforcement_state.next_holder_commit_num < COMMIT_LIMIT,
    ensures
        r.is_some() ==> secret_disclosable(self.enforcement_state, commitment_number),            //[C01.secret-or-none.bound]
        r.is_some() ==> r->Some_0 == holder_secret(self.keys, commitment_number),
//@end

//@fn vls-core/src/channel.rs :: impl Channel :: release_commitment_secret props=C01,C10
    requires commitment_number < INITIAL_COMMITMENT_NUMBER, old(self).enforcement_state.next_holder_commit_num < COMMIT_LIMIT,
    ensures
        *final(self) == *old(self),                                                                //[C10.release.frame]
        r.is_ok() ==> r->Ok_0.1.is_some() == (commitment_number >= 1),
        (commitment_number <= old(self).enforcement_state.next_holder_commit_num
            && (commitment_number >= 1 ==> secret_disclosable(old(self).enforcement_state, (commitment_number - 1) as u64))) ==> r.is_ok(),
        vx_strict(T_policy_revoke_new_commitment_signed) ==> (match r {
            Ok((_, Some(s))) => commitment_number >= 1
                && secret_disclosable(old(self).enforcement_state, (commitment_number - 1) as u64)
                && s == holder_secret(old(self).keys, (commitment_number - 1) as u64),
            _ => true }),                                                                          //[C01.release.bound]
//@end

//@fn vls-core/src/channel.rs :: impl Channel :: advance_holder_commitment_state props=C01,C10
    requires
        new_current_commitment_number + 1 < INITIAL_COMMITMENT_NUMBER,
        old(self).enforcement_state.next_holder_commit_num + 1 < COMMIT_LIMIT,
    ensures
        chan_static_eq(*final(self), *old(self)), final(self).persisted == old(self).persisted,
        r.is_ok() ==> new_current_commitment_number == old(self).enforcement_state.next_holder_commit_num,   //[C01.advance.only-next]
        r.is_ok() ==> final(self).enforcement_state == (EnforcementState {
            next_holder_commit_num: (new_current_commitment_number + 1) as u64,
            current_holder_commit_info: Some(info2),
            current_counterparty_signatures: Some(counterparty_signatures),
            ..old(self).enforcement_state }),                                                      //[C01.advance.frame]
        r.is_ok() && vx_strict(T_policy_revoke_new_commitment_signed) ==> (match r->Ok_0.1 {
            Some(s) => new_current_commitment_number >= 1 && s == holder_secret(old(self).keys, (new_current_commitment_number - 1) as u64),
            None => new_current_commitment_number == 0 }),                                         //[C01.advance.secret-is-predecessor]
        // an Err can only come from the progression check, which leaves the state alone
        r.is_err() && new_current_commitment_number == old(self).enforcement_state.next_holder_commit_num
            ==> false,                                                                             //[C10.advance.no-err-after-advance]
        r.is_err() ==> final(self).enforcement_state == old(self).enforcement_state,              //[C10.advance.err-frame]
//@end

//@fn vls-core/src/channel.rs :: impl Channel :: revoke_previous_holder_commitment props=C01,C02,C06,C10,C11
    requires
        new_current_commitment_number + 1 < INITIAL_COMMITMENT_NUMBER,
        chan_wf(*old(self)),
    ensures
        chan_static_eq(*final(self), *old(self)),
        // C01: the holder counter advances only over a stored, signature-checked successor
        final(self).enforcement_state.next_holder_commit_num != old(self).enforcement_state.next_holder_commit_num ==> (
            r.is_ok()
            && new_current_commitment_number == old(self).enforcement_state.next_holder_commit_num
            && old(self).enforcement_state.next_holder_commit_info.is_some()
            && final(self).enforcement_state == (EnforcementState {
                next_holder_commit_num: (new_current_commitment_number + 1) as u64,
                current_holder_commit_info: Some(old(self).enforcement_state.next_holder_commit_info->Some_0.0),
                current_counterparty_signatures: Some(old(self).enforcement_state.next_holder_commit_info->Some_0.1),
                next_holder_commit_info: None,
                ..old(self).enforcement_state })),                                                 //[C01.revoke.advances-from-stored-info]
        // C06: when the counter advances, the commitment that becomes current was recorded in the node's payment ledger
        // under this channel's id (call marker, see prelude/channel_deps.rs)
        final(self).enforcement_state.next_holder_commit_num != old(self).enforcement_state.next_holder_commit_num ==> ({
            let info2 = old(self).enforcement_state.next_holder_commit_info->Some_0.0;
            let es1 = EnforcementState { next_holder_commit_info: None, ..old(self).enforcement_state };
            node_applied(old(self).id0, pay_in_spec(es1, Some(info2), None), pay_out_spec(es1, Some(info2), None), Some(info2))
        }),                                                                                        //[C06.revoke.node-applied]
        // ... otherwise nothing changes at all
        final(self).enforcement_state.next_holder_commit_num == old(self).enforcement_state.next_holder_commit_num ==>
            final(self).enforcement_state == old(self).enforcement_state,                          //[C10.revoke.no-advance-no-change]
        // C01: any secret handed out is for N-1 and N-1 is disclosable in the final state
        vx_strict(T_policy_revoke_new_commitment_signed) ==> (match r {
            Ok((_, Some(s))) => new_current_commitment_number >= 1
                && secret_disclosable(final(self).enforcement_state, (new_current_commitment_number - 1) as u64)
                && s == holder_secret(old(self).keys, (new_current_commitment_number - 1) as u64),
            _ => true }),                                                                          //[C01.revoke.secret-bound]
        // C02: once a signature on a holder commitment was released, the counter never advances again
        old(self).enforcement_state.channel_closed && vx_strict(T_policy_revoke_not_closed) ==>
            final(self).enforcement_state.next_holder_commit_num == old(self).enforcement_state.next_holder_commit_num,   //[C02.revoke.closed]
        r.is_err() ==> final(self).enforcement_state == old(self).enforcement_state
            && final(self).persisted == old(self).persisted,                                       //[C10.revoke.err-frame]
        r.is_ok() ==> final(self).persisted@ == final(self).enforcement_state,                     //[C11.revoke.persisted]
//@end

//@fn vls-core/src/channel.rs :: impl Channel :: activate_initial_commitment props=C01,C10,C11
    requires chan_wf(*old(self)),
    ensures
        chan_static_eq(*final(self), *old(self)),
        r.is_ok() ==> old(self).enforcement_state.next_holder_commit_num == 0
            && old(self).enforcement_state.next_holder_commit_info.is_some()
            && final(self).enforcement_state == (EnforcementState {
                next_holder_commit_num: 1,
                current_holder_commit_info: Some(old(self).enforcement_state.next_holder_commit_info->Some_0.0),
                current_counterparty_signatures: Some(old(self).enforcement_state.next_holder_commit_info->Some_0.1),
                next_holder_commit_info: None,
                ..old(self).enforcement_state }),                                                  //[C01.activate.from-stored-info]
        r.is_err() ==> final(self).enforcement_state == old(self).enforcement_state
            && final(self).persisted == old(self).persisted,                                       //[C10.activate.err-frame]
        r.is_ok() ==> final(self).persisted@ == final(self).enforcement_state,                     //[C11.activate.persisted]
//@end

//@fn vls-core/src/channel.rs :: impl Channel :: counterparty_pubkeys props=C01
    ensures ldk_counterparty_pubkeys(self.keys).is_some(), *r == ldk_counterparty_pubkeys(self.keys)->Some_0,
//@end

//@fn vls-core/src/channel.rs :: impl Channel :: build_holder_commitment_info props=C01
    ensures r.is_ok(), info2_built(r->Ok_0, false, to_counterparty_value_sat, to_holder_value_sat, offered_htlcs@, received_htlcs@, feerate_per_kw),
//@end

//@fn vls-core/src/channel.rs :: impl Channel :: htlcs_info2_to_oic props=C01,C04
    requires htlcs_msat_fit(offered_htlcs@), htlcs_msat_fit(received_htlcs@),
    ensures r@ == oic_spec(offered_htlcs@, received_htlcs@),                                         //[C04.oic.exact]
//@loop 1 iter=it1
        invariant htlcs@ == offered_htlcs@.take(it1.index@ as int).map(|i: int, h: HTLCInfo2| oic_of(h, true)),
            htlcs_msat_fit(offered_htlcs@),
//@loop 2 iter=it2
        invariant htlcs@ == offered_htlcs@.map(|i: int, h: HTLCInfo2| oic_of(h, true))
                + received_htlcs@.take(it2.index@ as int).map(|i: int, h: HTLCInfo2| oic_of(h, false)),
            htlcs_msat_fit(received_htlcs@),
//@proof before /for htlc in received_htlcs/
        proof {
            assert(offered_htlcs@.take(offered_htlcs@.len() as int) == offered_htlcs@);
            assert(htlcs@ =~= offered_htlcs@.map(|i: int, h: HTLCInfo2| oic_of(h, true))
                + received_htlcs@.take(0).map(|i: int, h: HTLCInfo2| oic_of(h, false)));
        }
//@proof before /^\s*htlcs\s*$/
        proof { assert(received_htlcs@.take(received_htlcs@.len() as int) == received_htlcs@); }
//@end

//@fn vls-core/src/channel.rs :: impl Channel :: check_holder_tx_signatures props=C01
    ensures
        r.is_ok() ==> holder_sigs_valid(self.keys, self.setup, *per_commitment_point, *txkeys, feerate_per_kw, *counterparty_commit_sig,
            counterparty_htlc_sigs@, recomposed_tx),                                                 //[C01.check-sigs.all-verify]
//@loop 1 iter=it
        invariant
            it.snapshot.end == ctx_htlcs(recomposed_tx).len(),
            forall|i: int| 0 <= i < ndx ==> htlc_sig_valid(self.keys, self.setup, *per_commitment_point, *txkeys, feerate_per_kw, recomposed_tx, i, counterparty_htlc_sigs@[i]),
            ndx <= ctx_htlcs(recomposed_tx).len(), ndx <= counterparty_htlc_sigs@.len(),
            ecdsa_valid(message_of_digest(sighash_p2wsh(ctx_built_tx(recomposed_tx), 0,
                funding_redeemscript(ldk_pubkeys(self.keys).funding_pubkey, self.setup.counterparty_points.funding_pubkey),
                self.setup.channel_value_sat, EcdsaSighashType::All)), *counterparty_commit_sig, self.setup.counterparty_points.funding_pubkey),
            commitment_txid == ctx_txid(recomposed_tx), to_self_delay == self.setup.counterparty_selected_contest_delay,
            htlc_pubkey == derived_public_key(*per_commitment_point, ldk_counterparty_pubkeys(self.keys)->Some_0.htlc_basepoint.0),
            sig_hash_type == (if setup_is_anchors(self.setup) { EcdsaSighashType::SinglePlusAnyoneCanPay } else { EcdsaSighashType::All }),
            build_feerate == (if setup_is_zero_fee_htlc(self.setup) { 0u32 } else { feerate_per_kw }),
            features == setup_features(self.setup),
//@sub /&counterparty_htlc_sigs\[ndx\]/ => vx_index(counterparty_htlc_sigs, ndx)
//@end

//@fn vls-core/src/channel.rs :: impl Channel :: validate_holder_commitment_tx_phase2 props=C01,C02,C06,C10,C11
    requires
        commitment_number <= INITIAL_COMMITMENT_NUMBER, chan_wf(*old(self)), hc_inv(*old(self)),
        htlcs_msat_fit(offered_htlcs@), htlcs_msat_fit(received_htlcs@),
    ensures
        chan_static_eq(*final(self), *old(self)), hc_inv(*final(self)),                               //[C01.validate-holder.keeps-inv]
        // the only field that may change is the stored successor, and only for the next number
        final(self).enforcement_state == (EnforcementState {
            next_holder_commit_info: final(self).enforcement_state.next_holder_commit_info, ..old(self).enforcement_state }),   //[C10.validate-holder.frame]
        final(self).enforcement_state.next_holder_commit_info != old(self).enforcement_state.next_holder_commit_info ==>
            r.is_ok() && commitment_number == old(self).enforcement_state.next_holder_commit_num,    //[C01.validate-holder.only-next]
        // C02: no new holder state is accepted once a holder signature was released
        r.is_ok() && vx_strict(T_policy_commitment_spends_active_utxo) && old(self).enforcement_state.channel_closed ==>
            final(self).enforcement_state.next_holder_commit_info == old(self).enforcement_state.next_holder_commit_info,   //[C02.validate-holder.closed-no-new-state]
        r.is_err() ==> final(self).enforcement_state == old(self).enforcement_state
            && final(self).persisted == old(self).persisted,                                          //[C10.validate-holder.err-frame]
        r.is_ok() ==> final(self).persisted@ == final(self).enforcement_state,                        //[C11.validate-holder.persisted]
        // C06: an accepted holder commitment was validated against the node's payment ledger under this channel's id, and
        // what is stored as the successor is the commitment that was validated
        r.is_ok() ==> exists|info2: CommitmentInfo2|
            info2_built(info2, false, to_counterparty_value_sat, to_holder_value_sat, offered_htlcs@, received_htlcs@, feerate_per_kw)
            && node_validated(old(self).id0, pay_in_spec(old(self).enforcement_state, Some(info2), None),
                pay_out_spec(old(self).enforcement_state, Some(info2), None))                          //[C06.validate-holder.node-validated]
            && (commitment_number == old(self).enforcement_state.next_holder_commit_num ==>
                final(self).enforcement_state.next_holder_commit_info.is_some()
                && final(self).enforcement_state.next_holder_commit_info->Some_0.0 == info2),            //[C06.validate-holder.stores-validated-info]
//@proof after /let counterparty_signatures = CommitmentSignatures\(/
            proof {
                assert(counterparty_signatures.1@ =~= counterparty_htlc_sigs@);
                assert(counterparty_signatures.0 == *counterparty_commit_sig);
            }
//@proof before /let htlcs = Self::htlcs_info2_to_oic/
        proof {
            lemma_msat_fit_multiset(offered_htlcs@, info2.offered_htlcs@);
            lemma_msat_fit_multiset(received_htlcs@, info2.received_htlcs@);
        }
//@end

//@fn vls-core/src/channel.rs :: impl Channel :: make_validated_recomposed_holder_commitment_tx props=C01,C02,C06
    requires
        commitment_number <= INITIAL_COMMITMENT_NUMBER, chan_wf(*self),
        htlcs_msat_fit(offered_htlcs@), htlcs_msat_fit(received_htlcs@),
    ensures
        // the transaction handed on is the one rebuilt from the channel's own keys and setup and the validated content ...
        r.is_ok() ==> !r->Ok_0.1.is_counterparty_broadcaster && r->Ok_0.1.feerate_per_kw == feerate_per_kw
            && r->Ok_0.1.offered_htlcs@.to_multiset() == offered_htlcs@.to_multiset() && r->Ok_0.1.offered_htlcs@.len() == offered_htlcs@.len()
            && r->Ok_0.1.received_htlcs@.to_multiset() == received_htlcs@.to_multiset() && r->Ok_0.1.received_htlcs@.len() == received_htlcs@.len()
            && r->Ok_0.0 == holder_ctx_spec(self.keys, self.setup, commitment_number, *txkeys, feerate_per_kw,
                r->Ok_0.1.to_broadcaster_value_sat, r->Ok_0.1.to_countersigner_value_sat,
                oic_spec(r->Ok_0.1.offered_htlcs@, r->Ok_0.1.received_htlcs@)),                              //[C01.phase1.rebuilt-from-own-keys]
        // the incoming summary handed on is that of this state with the validated info (C06 data flow)
        r.is_ok() ==> r->Ok_0.2 == pay_in_spec(self.enforcement_state, Some(r->Ok_0.1), None),               //[C06.phase1.summary-of-validated-info]
        // ... and, under a strict filter, the supplied transaction is exactly that one
        r.is_ok() && vx_strict(T_policy_commitment) ==> ctx_built_tx(r->Ok_0.0) == *tx,                    //[C01.phase1.raw-equals-canonical]
        // what the validator guaranteed about the numbers (shared contract of validate_holder_commitment_tx)
        r.is_ok() && vx_strict(T_policy_commitment_spends_active_utxo) && commitment_number == self.enforcement_state.next_holder_commit_num
            ==> !self.enforcement_state.channel_closed,
        r.is_ok() && vx_strict(T_policy_commitment_holder_not_revoked) ==> commitment_number + 2 > self.enforcement_state.next_holder_commit_num,
        r.is_ok() && vx_strict(T_policy_commitment_retry_same) && commitment_number + 1 == self.enforcement_state.next_holder_commit_num
            ==> self.enforcement_state.current_holder_commit_info == Some(r->Ok_0.1),
//@proof before /let htlcs = Self::htlcs_info2_to_oic/
        proof {
            lemma_msat_fit_multiset(offered_htlcs@, info2.offered_htlcs@);
            lemma_msat_fit_multiset(received_htlcs@, info2.received_htlcs@);
        }
//@end

//@fn vls-core/src/channel.rs :: impl Channel :: validate_holder_commitment_tx props=C01,C02,C06,C10,C11
    requires
        commitment_number <= INITIAL_COMMITMENT_NUMBER, chan_wf(*old(self)), hc_inv(*old(self)),
        htlcs_msat_fit(offered_htlcs@), htlcs_msat_fit(received_htlcs@),
    ensures
        chan_static_eq(*final(self), *old(self)), hc_inv(*final(self)),                               //[C01.validate-holder-raw.keeps-inv]
        final(self).enforcement_state == (EnforcementState {
            next_holder_commit_info: final(self).enforcement_state.next_holder_commit_info, ..old(self).enforcement_state }),   //[C10.validate-holder-raw.frame]
        final(self).enforcement_state.next_holder_commit_info != old(self).enforcement_state.next_holder_commit_info ==>
            r.is_ok() && commitment_number == old(self).enforcement_state.next_holder_commit_num,    //[C01.validate-holder-raw.only-next]
        r.is_ok() && vx_strict(T_policy_commitment_spends_active_utxo) && old(self).enforcement_state.channel_closed ==>
            final(self).enforcement_state.next_holder_commit_info == old(self).enforcement_state.next_holder_commit_info,   //[C02.validate-holder-raw.closed-no-new-state]
        // a refused request leaves no trace (in particular no stored successor that a later revocation could promote)
        r.is_err() ==> final(self).enforcement_state == old(self).enforcement_state
            && final(self).persisted == old(self).persisted,                                          //[C10.validate-holder-raw.err-frame]
        r.is_ok() ==> final(self).persisted@ == final(self).enforcement_state,                        //[C11.validate-holder-raw.persisted]
        r.is_ok() ==> exists|info2: CommitmentInfo2|
            !info2.is_counterparty_broadcaster && info2.feerate_per_kw == feerate_per_kw
            && info2.offered_htlcs@.to_multiset() == offered_htlcs@.to_multiset() && info2.received_htlcs@.to_multiset() == received_htlcs@.to_multiset()
            && node_validated(old(self).id0, pay_in_spec(old(self).enforcement_state, Some(info2), None),
                pay_out_spec(old(self).enforcement_state, Some(info2), None))                          //[C06.validate-holder-raw.node-validated]
            && (commitment_number == old(self).enforcement_state.next_holder_commit_num ==>
                final(self).enforcement_state.next_holder_commit_info.is_some()
                && final(self).enforcement_state.next_holder_commit_info->Some_0.0 == info2),            //[C06.validate-holder-raw.stores-validated-info]
//@proof after /let counterparty_signatures = CommitmentSignatures\(/
            proof {
                assert(counterparty_signatures.1@ =~= counterparty_htlc_sigs@);
                assert(counterparty_signatures.0 == *counterparty_commit_sig);
            }
//@end

//@fn vls-core/src/channel.rs :: impl Channel :: sign_holder_commitment_tx_phase2 props=C02,C10,C11
    requires commitment_number <= INITIAL_COMMITMENT_NUMBER, chan_wf(*old(self)), hc_inv(*old(self)),
        old(self).enforcement_state.current_holder_commit_info.is_some() ==>
            htlcs_msat_fit(old(self).enforcement_state.current_holder_commit_info->Some_0.offered_htlcs@)
            && htlcs_msat_fit(old(self).enforcement_state.current_holder_commit_info->Some_0.received_htlcs@),
    ensures
        chan_static_eq(*final(self), *old(self)), hc_inv(*final(self)),
        // C02: only the current holder commitment (never a revoked one) is signed, and the channel is closed with it
        r.is_ok() && vx_strict(T_policy_other) ==> commitment_number + 1 == old(self).enforcement_state.next_holder_commit_num,   //[C02.sign-holder.is-current]
        r.is_ok() ==> final(self).enforcement_state == (EnforcementState { channel_closed: true, ..old(self).enforcement_state }),  //[C02.sign-holder.marks-closed]
        r.is_err() ==> final(self).enforcement_state == old(self).enforcement_state
            && final(self).persisted == old(self).persisted,                                          //[C10.sign-holder.err-frame]
        r.is_ok() ==> final(self).persisted@ == final(self).enforcement_state,                        //[C11.sign-holder.persisted] [C02.sign-holder.closed-flag-durable]
//@end

//@fn vls-core/src/channel.rs :: impl Channel :: sign_holder_commitment_tx_phase2_redundant props=C02,C10,C11
    requires
        commitment_number <= INITIAL_COMMITMENT_NUMBER, chan_wf(*old(self)), hc_inv(*old(self)),
        htlcs_msat_fit(offered_htlcs@), htlcs_msat_fit(received_htlcs@),
    ensures
        chan_static_eq(*final(self), *old(self)), hc_inv(*final(self)),
        // C02: never a signature on an already revoked holder commitment ...
        r.is_ok() && vx_strict(T_policy_commitment_holder_not_revoked) ==>
            commitment_number + 2 > old(self).enforcement_state.next_holder_commit_num,                 //[C02.sign-redundant.not-revoked]
        // ... and releasing one closes the channel, so nothing is revoked afterwards ([C02.revoke.closed])
        r.is_ok() ==> final(self).enforcement_state == (EnforcementState { channel_closed: true, ..old(self).enforcement_state }),   //[C02.sign-redundant.marks-closed]
        r.is_err() ==> final(self).enforcement_state == old(self).enforcement_state
            && final(self).persisted == old(self).persisted,                                          //[C10.sign-redundant.err-frame]
        r.is_ok() ==> final(self).persisted@ == final(self).enforcement_state,                        //[C11.sign-redundant.persisted] [C02.sign-redundant.closed-flag-durable]
//@end

//@fn vls-core/src/channel.rs :: impl Channel :: sign_holder_commitment_tx_for_recovery props=C02,C10,C11
    requires
        chan_wf(*old(self)), hc_inv(*old(self)),
        old(self).enforcement_state.current_holder_commit_info.is_some() ==>
            htlcs_msat_fit(old(self).enforcement_state.current_holder_commit_info->Some_0.offered_htlcs@)
            && htlcs_msat_fit(old(self).enforcement_state.current_holder_commit_info->Some_0.received_htlcs@),
        // a channel with recorded holder commitment info has validated at least commitment 0 (representation invariant)
        old(self).enforcement_state.current_holder_commit_info.is_some() ==> old(self).enforcement_state.next_holder_commit_num >= 1,
    ensures
        chan_static_eq(*final(self), *old(self)), hc_inv(*final(self)),
        // C02: recovery signs the current holder commitment (next - 1), from the stored info, and closes the channel
        r.is_ok() ==> old(self).enforcement_state.current_holder_commit_info.is_some()
            && old(self).enforcement_state.current_counterparty_signatures.is_some(),                  //[C02.sign-recovery.only-open-channel]
        r.is_ok() ==> final(self).enforcement_state == (EnforcementState { channel_closed: true, ..old(self).enforcement_state }),   //[C02.sign-recovery.marks-closed]
        r.is_err() ==> final(self).enforcement_state == old(self).enforcement_state
            && final(self).persisted == old(self).persisted,                                          //[C10.sign-recovery.err-frame]
        r.is_ok() ==> final(self).persisted@ == final(self).enforcement_state,                        //[C11.sign-recovery.persisted] [C02.sign-recovery.closed-flag-durable]
//@sub /let mut tx = holder_tx\.built_transaction\(\)\.transaction\.clone\(\);/ => let mut tx = holder_tx.built_transaction().transaction.clone(); let holder_tx_keys_vx = holder_tx.keys();
//@end

} // impl Channel

impl ChannelSetup {
//@fn vls-core/src/channel.rs :: impl ChannelSetup :: is_anchors props=C01
    ensures r == setup_is_anchors(*self),
//@end
//@fn vls-core/src/channel.rs :: impl ChannelSetup :: is_zero_fee_htlc props=C01
    ensures r == setup_is_zero_fee_htlc(*self),
//@end
//@fn vls-core/src/channel.rs :: impl ChannelSetup :: features mode=trusted
    ensures r == setup_features(*self),
//@end
}

impl ChannelStub {
//@fn vls-core/src/channel.rs :: impl ChannelBase for ChannelStub :: get_per_commitment_secret props=C01
    ensures r.is_err(),                                                                            //[C01.stub.never-discloses]
//@end
//@fn vls-core/src/channel.rs :: impl ChannelBase for ChannelStub :: get_per_commitment_secret_or_none props=C01
    ensures r.is_none(),                                                                           //[C01.stub.never-discloses-opt]
//@end
}

//@include lemmas/holder_history.rs

} // verus!
fn main() {}
