//@unit channel_holder
//@props C01 C02 C10 C11
// Contracts on the holder-commitment side of Channel (vls-core/src/channel.rs): disclosure of
// per-commitment secrets, revocation, holder commitment validation and signing.
use vstd::prelude::*;
use vstd::std_specs::cmp::OrdSpec;
//@include prelude/core.rs
//@include prelude/deps.rs
//@include prelude/btc.rs
//@include frag/enforcement_types.rs
//@include prelude/channel_deps.rs
//@map /Weak<Node>/ => VxNodeRef
//@map /Secp256k1<All>/ => VxSecp
//@map /Arc<dyn Validator>/ => VxValidator
//@map /Arc<Node>/ => VxNode
//@map /Map<PaymentHash, u64>/ => VxPayMap
//@map /&\*state\b/ => &state
//@map /&dyn Wallet/ => &VxNode
verus! {

//@@TAGS

//@include frag/enforcement_spec.rs
//@include frag/channel_types.rs
//@include frag/channel_spec.rs
//@include frag/channel_trusted.rs

impl Channel {

//@fn vls-core/src/channel.rs :: impl Channel :: get_per_commitment_point_unchecked props=C01
    requires commitment_number <= INITIAL_COMMITMENT_NUMBER,
    ensures r == ldk_commitment_point(self.keys, (INITIAL_COMMITMENT_NUMBER - commitment_number) as u64),
//@end

//@fn vls-core/src/channel.rs :: impl ChannelBase for Channel :: get_per_commitment_point props=C01
    requires commitment_number <= INITIAL_COMMITMENT_NUMBER, self.enforcement_state.next_holder_commit_num < COMMIT_LIMIT,
    ensures
        r.is_ok() == (commitment_number <= self.enforcement_state.next_holder_commit_num + 1),
        r.is_ok() ==> r->Ok_0 == ldk_commitment_point(self.keys, (INITIAL_COMMITMENT_NUMBER - commitment_number) as u64),
//@end

//@fn vls-core/src/channel.rs :: impl ChannelBase for Channel :: get_per_commitment_secret props=C01
    requires commitment_number <= INITIAL_COMMITMENT_NUMBER, self.enforcement_state.next_holder_commit_num < COMMIT_LIMIT,
    ensures
        // the disclosure choke point: secret n only once n+1 is counter-signed and made current
        r.is_ok() && vx_strict(T_policy_revoke_new_commitment_signed) ==>
            secret_disclosable(self.enforcement_state, commitment_number),                       //[C01.secret.bound]
        r.is_ok() ==> r->Ok_0 == holder_secret(self.keys, commitment_number),                     //[C01.secret.is-the-secret]
        secret_disclosable(self.enforcement_state, commitment_number) ==> r.is_ok(),
//@end

//@fn vls-core/src/channel.rs :: impl ChannelBase for Channel :: get_per_commitment_secret_or_none props=C01
    requires commitment_number <= INITIAL_COMMITMENT_NUMBER, self.enforcement_state.next_holder_commit_num < COMMIT_LIMIT,
    ensures
        r.is_some() ==> secret_disclosable(self.enforcement_state, commitment_number),            //[C01.secret-or-none.bound]
        r.is_some() ==> r->Some_0 == holder_secret(self.keys, commitment_number),
//@end

//@fn vls-core/src/channel.rs :: impl Channel :: release_commitment_secret props=C01,C10
    requires commitment_number < INITIAL_COMMITMENT_NUMBER, old(self).enforcement_state.next_holder_commit_num < COMMIT_LIMIT,
    ensures
        *final(self) == *old(self),                                                                //[C10.release.frame]
        r.is_ok() ==> r->Ok_0.1.is_some() == (commitment_number >= 1),
        (commitment_number <= old(self).enforcement_state.next_holder_commit_num
            && (commitment_number >= 1 ==> secret_disclosable(old(self).enforcement_state, (commitment_number - 1) as u64))) ==> r.is_ok(),
        vx_strict(T_policy_revoke_new_commitment_signed) ==> (match r {
            Ok((_, Some(s))) => commitment_number >= 1
                && secret_disclosable(old(self).enforcement_state, (commitment_number - 1) as u64)
                && s == holder_secret(old(self).keys, (commitment_number - 1) as u64),
            _ => true }),                                                                          //[C01.release.bound]
//@end

//@fn vls-core/src/channel.rs :: impl Channel :: advance_holder_commitment_state props=C01,C10
    requires
        new_current_commitment_number + 1 < INITIAL_COMMITMENT_NUMBER,
        old(self).enforcement_state.next_holder_commit_num + 1 < COMMIT_LIMIT,
    ensures
        chan_static_eq(*final(self), *old(self)), final(self).persisted == old(self).persisted,
        r.is_ok() ==> new_current_commitment_number == old(self).enforcement_state.next_holder_commit_num,   //[C01.advance.only-next]
        r.is_ok() ==> final(self).enforcement_state == (EnforcementState {
            next_holder_commit_num: (new_current_commitment_number + 1) as u64,
            current_holder_commit_info: Some(info2),
            current_counterparty_signatures: Some(counterparty_signatures),
            ..old(self).enforcement_state }),                                                      //[C01.advance.frame]
        r.is_ok() && vx_strict(T_policy_revoke_new_commitment_signed) ==> (match r->Ok_0.1 {
            Some(s) => new_current_commitment_number >= 1 && s == holder_secret(old(self).keys, (new_current_commitment_number - 1) as u64),
            None => new_current_commitment_number == 0 }),                                         //[C01.advance.secret-is-predecessor]
        // an Err can only come from the progression check, which leaves the state alone
        r.is_err() && new_current_commitment_number == old(self).enforcement_state.next_holder_commit_num
            ==> false,                                                                             //[C10.advance.no-err-after-advance]
        r.is_err() ==> final(self).enforcement_state == old(self).enforcement_state,              //[C10.advance.err-frame]
//@end

//@fn vls-core/src/channel.rs :: impl Channel :: revoke_previous_holder_commitment props=C01,C02,C10,C11
    requires
        new_current_commitment_number + 1 < INITIAL_COMMITMENT_NUMBER,
        chan_wf(*old(self)),
    ensures
        chan_static_eq(*final(self), *old(self)),
        // C01: the holder counter advances only over a stored, signature-checked successor
        final(self).enforcement_state.next_holder_commit_num != old(self).enforcement_state.next_holder_commit_num ==> (
            r.is_ok()
            && new_current_commitment_number == old(self).enforcement_state.next_holder_commit_num
            && old(self).enforcement_state.next_holder_commit_info.is_some()
            && final(self).enforcement_state == (EnforcementState {
                next_holder_commit_num: (new_current_commitment_number + 1) as u64,
                current_holder_commit_info: Some(old(self).enforcement_state.next_holder_commit_info->Some_0.0),
                current_counterparty_signatures: Some(old(self).enforcement_state.next_holder_commit_info->Some_0.1),
                next_holder_commit_info: None,
                ..old(self).enforcement_state })),                                                 //[C01.revoke.advances-from-stored-info]
        // ... otherwise nothing changes at all
        final(self).enforcement_state.next_holder_commit_num == old(self).enforcement_state.next_holder_commit_num ==>
            final(self).enforcement_state == old(self).enforcement_state,                          //[C10.revoke.no-advance-no-change]
        // C01: any secret handed out is for N-1 and N-1 is disclosable in the final state
        vx_strict(T_policy_revoke_new_commitment_signed) ==> (match r {
            Ok((_, Some(s))) => new_current_commitment_number >= 1
                && secret_disclosable(final(self).enforcement_state, (new_current_commitment_number - 1) as u64)
                && s == holder_secret(old(self).keys, (new_current_commitment_number - 1) as u64),
            _ => true }),                                                                          //[C01.revoke.secret-bound]
        // C02: once a signature on a holder commitment was released, the counter never advances again
        old(self).enforcement_state.channel_closed && vx_strict(T_policy_revoke_not_closed) ==>
            final(self).enforcement_state.next_holder_commit_num == old(self).enforcement_state.next_holder_commit_num,   //[C02.revoke.closed]
        r.is_err() ==> final(self).enforcement_state == old(self).enforcement_state
            && final(self).persisted == old(self).persisted,                                       //[C10.revoke.err-frame]
        r.is_ok() ==> final(self).persisted@ == final(self).enforcement_state,                     //[C11.revoke.persisted]
//@end

//@fn vls-core/src/channel.rs :: impl Channel :: activate_initial_commitment props=C01,C10,C11
    requires chan_wf(*old(self)),
    ensures
        chan_static_eq(*final(self), *old(self)),
        r.is_ok() ==> old(self).enforcement_state.next_holder_commit_num == 0
            && old(self).enforcement_state.next_holder_commit_info.is_some()
            && final(self).enforcement_state == (EnforcementState {
                next_holder_commit_num: 1,
                current_holder_commit_info: Some(old(self).enforcement_state.next_holder_commit_info->Some_0.0),
                current_counterparty_signatures: Some(old(self).enforcement_state.next_holder_commit_info->Some_0.1),
                next_holder_commit_info: None,
                ..old(self).enforcement_state }),                                                  //[C01.activate.from-stored-info]
        r.is_err() ==> final(self).enforcement_state == old(self).enforcement_state
            && final(self).persisted == old(self).persisted,                                       //[C10.activate.err-frame]
        r.is_ok() ==> final(self).persisted@ == final(self).enforcement_state,                     //[C11.activate.persisted]
//@end

} // impl Channel

impl ChannelStub {
//@fn vls-core/src/channel.rs :: impl ChannelBase for ChannelStub :: get_per_commitment_secret props=C01
    ensures r.is_err(),                                                                            //[C01.stub.never-discloses]
//@end
//@fn vls-core/src/channel.rs :: impl ChannelBase for ChannelStub :: get_per_commitment_secret_or_none props=C01
    ensures r.is_none(),                                                                           //[C01.stub.never-discloses-opt]
//@end
}

} // verus!
fn main() {}
