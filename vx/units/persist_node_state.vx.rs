//@unit persist_node_state
//@props C12 C11 C15
// Contracts on the store side of a restart (vls-persist/src/model.rs, vls-persist/src/kvv.rs): what is written for a node
// state and what is handed to NodeState::restore when it is read back.  Unit node_restore proves what NodeState::restore
// and Node::new_full make of their arguments; this unit pins WHICH stored value goes into WHICH argument: the payment
// velocity state into the payment control, the fee velocity state into the fee control, the id high-water mark into the
// mark (the two controls have the same type, so the compiler does not notice a swap).
use vstd::prelude::*;
use vstd::std_specs::cmp::OrdSpec;
//@include prelude/core.rs
//@map /\bString\b/ => VxStr
//@map /Vec<Allowable>/ => Vec<VxAllowable>
//@map /Vec<\(Vec<u8>, PaymentState\)>/ => Vec<VxInvoiceEntry>
verus! {

//@@TAGS

#[verifier::external_body] pub struct VxStr { _p: u8 }
#[verifier::external_body] pub struct VxAllowable { _p: u8 }
#[verifier::external_body] pub struct VxInvoiceEntry { _p: u8 }
#[verifier::external_body] pub struct PublicKey { _p: u8 }
#[verifier::external_body] pub struct Network { _p: u8 }
#[verifier::external_body] pub struct Error { _p: u8 }
#[verifier::external_body] pub struct NodeStateRest { _p: u8 }
impl Clone for PublicKey { #[verifier::external_body] fn clone(&self) -> (r: Self) ensures r == *self { unimplemented!() } }
impl Copy for PublicKey {}

// the two velocity-state types: the store's (vls-persist model) and the core's
//@type vls-persist/src/model.rs :: VelocityControl
//@type vls-core/src/util/velocity.rs :: VelocityControl as=CoreVelocityControl
//@type vls-persist/src/model.rs :: NodeStateEntry
//@type vls-persist/src/model.rs :: NodeEntry
//@type vls-persist/src/model.rs :: AllowlistItemEntry


// NodeState as far as this unit looks into it (the whole type is under contract in units node_restore / node_payments)
pub struct NodeState {
    pub velocity_control: CoreVelocityControl,
    pub fee_velocity_control: CoreVelocityControl,
    pub dbid_high_water_mark: u64,
    pub allowlist: VxAllowSet,
    pub rest: NodeStateRest,
}
#[verifier::external_body] pub struct VxAllowSet { _p: u8 }
// `allowlist.into_iter().collect()` into the OrderedSet of NodeState (NodeState::restore, proved there: [C11.restore.fields])
pub uninterp spec fn collected_allowlist(v: Seq<VxAllowable>) -> VxAllowSet;
// Allowable::from_str(text, network)
pub uninterp spec fn allowable_parse(s: VxStr, n: Network) -> Option<VxAllowable>;
// the entries `texts` parse to, in order (None when one of them does not parse)
pub open spec fn parsed_all(texts: Seq<VxStr>, n: Network, r: Seq<VxAllowable>) -> bool {
    r.len() == texts.len() && forall|i: int| 0 <= i < texts.len() ==> #[trigger] allowable_parse(texts[i], n) == Some(r[i])
}

impl CoreVelocityControl {
    // the core constructors, with the contracts proved in unit velocity ([C12.new.shape], [C12.new.empty]): a NEW control
    // starts at second 0 with empty buckets - declared so that a conversion that goes through them is decided, not unknown
    #[verifier::external_body]
    pub fn new_with_intervals(limit_msat: u64, bucket_interval: u32, num_buckets: usize) -> (r: Self)
        ensures r.start_sec == 0, r.limit == limit_msat, r.bucket_interval == bucket_interval, r.buckets@.len() == num_buckets,
            forall|i: int| 0 <= i < num_buckets ==> r.buckets@[i] == 0
    { unimplemented!() }
    #[verifier::external_body]
    pub fn new_unlimited(bucket_interval: u32, num_buckets: usize) -> (r: Self)
        ensures r.start_sec == 0, r.limit == u64::MAX, r.bucket_interval == bucket_interval, r.buckets@.len() == num_buckets,
            forall|i: int| 0 <= i < num_buckets ==> r.buckets@[i] == 0
    { unimplemented!() }
// `impl From<VelocityControl> for CoreVelocityControl` / the inverse: field by field
//@fn vls-persist/src/model.rs :: impl From<VelocityControl> for CoreVelocityControl :: from props=C12
    ensures r.start_sec == v.start_sec && r.bucket_interval == v.bucket_interval && r.buckets == v.buckets && r.limit == v.limit,   //[C12.model.velocity-state-read-back-fieldwise]
//@end
}
impl VelocityControl {
//@fn vls-persist/src/model.rs :: impl From<CoreVelocityControl> for VelocityControl :: from props=C12
    ensures r.start_sec == v.start_sec && r.bucket_interval == v.bucket_interval && r.buckets == v.buckets && r.limit == v.limit,   //[C12.model.velocity-state-stored-fieldwise]
//@end
}
pub open spec fn to_core(v: VelocityControl) -> CoreVelocityControl {
    CoreVelocityControl { start_sec: v.start_sec, bucket_interval: v.bucket_interval, buckets: v.buckets, limit: v.limit }
}
pub open spec fn to_model(v: CoreVelocityControl) -> VelocityControl {
    VelocityControl { start_sec: v.start_sec, bucket_interval: v.bucket_interval, buckets: v.buckets, limit: v.limit }
}
impl Clone for CoreVelocityControl { #[verifier::external_body] fn clone(&self) -> (r: Self) ensures r == *self { unimplemented!() } }
#[verifier::external_body]
pub fn vx_entry_invoices(s: &NodeState, issued: bool) -> Vec<VxInvoiceEntry> { unimplemented!() }
#[verifier::external_body]
pub fn vx_entry_preimages(s: &NodeState) -> Vec<[u8; 32]> { unimplemented!() }

impl NodeStateEntry {
// what is written: each control under its own name, the mark as it is
//@fn vls-persist/src/model.rs :: impl From<&NodeState> for NodeStateEntry :: from props=C12,C11,C15
    ensures
        r.velocity_control == to_model(state.velocity_control) && r.fee_velocity_control == to_model(state.fee_velocity_control),   //[C12.model.entry-stores-each-control-under-its-name]
        r.dbid_high_water_mark == state.dbid_high_water_mark,                                                                    //[C15.model.entry-stores-hwm]
//@sub /state\.invoices\.iter\(\)\.map\(\|\(a, b\)\| \(a\.0\.to_vec\(\), b\.clone\(\)\)\)\.collect\(\)/ => vx_entry_invoices(state, false)
//@sub /state\.issued_invoices\.iter\(\)\.map\(\|\(a, b\)\| \(a\.0\.to_vec\(\), b\.clone\(\)\)\)\.collect\(\)/ => vx_entry_invoices(state, true)
//@sub /state\.payments\.values\(\)\.filter_map\(\|p\| p\.preimage\.map\(\|p\| p\.0\)\)\.collect\(\)/ => vx_entry_preimages(state)
//@sub /state\.velocity_control\.clone\(\)\.into\(\)/ => VelocityControl::from(state.velocity_control.clone())
//@sub /state\.fee_velocity_control\.clone\(\)\.into\(\)/ => VelocityControl::from(state.fee_velocity_control.clone())
//@end
}

impl NodeState {
// the callee, with its REAL signature (parameter names and order come from the source on every run) and the part of its
// contract this unit needs (proved in unit node_restore: [C12.restore.state-keeps-controls], [C15.restore.hwm])
//@fn vls-core/src/node.rs :: impl NodeState :: restore mode=trusted
//@sigsub /: VelocityControl\b/ => : CoreVelocityControl
    ensures r.velocity_control == velocity_control, r.fee_velocity_control == fee_velocity_control, r.dbid_high_water_mark == dbid_high_water_mark,
        r.allowlist == collected_allowlist(allowlist@),
//@end
}

// ---- the persister: key-value reads (unit kvv_*), (de)serialisation of values (serde, assumed a round trip) ----
#[verifier::external_body] pub struct VxKvvPersister { _p: u8 }
pub uninterp spec fn de_state_entry(bytes: Seq<u8>) -> NodeStateEntry;
pub uninterp spec fn ser_state_entry(e: NodeStateEntry) -> Seq<u8>;
#[verifier::external_body]
pub fn vx_ser_state_entry(e: &NodeStateEntry) -> (r: Result<Vec<u8>, Error>) ensures r.is_ok() ==> r->Ok_0@ == ser_state_entry(*e) { unimplemented!() }
#[verifier::external_body]
pub fn vx_de_node_entry(value: &Vec<u8>) -> Result<NodeEntry, Error> { unimplemented!() }
#[verifier::external_body]
pub fn vx_de_state_entry(value: &Vec<u8>) -> (r: Result<NodeStateEntry, Error>) ensures r.is_ok() ==> r->Ok_0 == de_state_entry(value@) { unimplemented!() }
#[verifier::external_body]
pub fn vx_node_id_of_key(prefix: &VxStr, key: &VxStr) -> (r: PublicKey) ensures r == node_id_of_key(*key) { unimplemented!() }
pub uninterp spec fn node_id_of_key(key: VxStr) -> PublicKey;
#[verifier::external_body]
pub fn vx_parse_network(entry: &NodeEntry) -> Result<Network, Error> { unimplemented!() }
#[verifier::external_body]
pub fn vx_node_entry_prefix() -> VxStr { unimplemented!() }
pub uninterp spec fn stored_state_bytes(p: VxKvvPersister, node_id: PublicKey) -> Seq<u8>;
pub uninterp spec fn stored_allowlist_bytes(p: VxKvvPersister, node_id: PublicKey) -> Seq<u8>;
// serde of AllowlistItemEntry { allowlist: Vec<String> } (assumed a round trip, like the other entries)
pub uninterp spec fn ser_allowlist(texts: Seq<VxStr>) -> Seq<u8>;
pub uninterp spec fn de_allowlist(bytes: Seq<u8>) -> Seq<VxStr>;
#[verifier::external_body]
pub fn vx_ser_allowlist_entry(e: &AllowlistItemEntry) -> (r: Result<Vec<u8>, Error>) ensures r.is_ok() ==> r->Ok_0@ == ser_allowlist(e.allowlist@) { unimplemented!() }
#[verifier::external_body]
pub fn vx_de_allowlist_entry(value: &Vec<u8>) -> (r: Result<AllowlistItemEntry, Error>) ensures r.is_ok() ==> r->Ok_0.allowlist@ == de_allowlist(value@) { unimplemented!() }
impl VxKvvPersister {
    // get_prefix(prefix).map(KVV::into_inner).filter(non-empty values): the node entries, key and value
    #[verifier::external_body]
    pub fn vx_node_kvvs(&self, prefix: &VxStr) -> (r: Result<Vec<(VxStr, Vec<u8>)>, Error>) ensures r.is_ok() ==> r->Ok_0@ == self.stored_node_entries() { unimplemented!() }
    pub uninterp spec fn stored_node_entries(&self) -> Seq<(VxStr, Vec<u8>)>;        // the non-empty node entry records, in key order
    // self.get(make_key(NODE_STATE_PREFIX, node_id))?.ok_or(NotFound)?.1 : the stored node-state value
    #[verifier::external_body]
    pub fn vx_get_state_value(&self, node_id: &PublicKey) -> (r: Result<Vec<u8>, Error>) ensures r.is_ok() ==> r->Ok_0@ == stored_state_bytes(*self, *node_id) { unimplemented!() }
    // `self.get_node_allowlist(&node_id).map(|strings| strings.into_iter().map(|s| Allowable::from_str(&s, network)).collect::<Result<Vec<_>, _>>())
    //      .unwrap_or(Ok(Vec::new())).map_err(..)?` (std semantics of the adaptors): the stored texts parsed in order - an
    // unparsable text is an error - and NO entries when the stored list cannot be read (observation: a read failure of the
    // allowlist record restores an empty allowlist, the restrictive direction; storage failures are outside the properties)
    #[verifier::external_body]
    pub fn vx_allowlist(&self, node_id: &PublicKey, network: Network) -> (r: Result<Vec<VxAllowable>, Error>)
        ensures r.is_ok() ==> (if self.allowlist_readable(*node_id) { parsed_all(de_allowlist(stored_allowlist_bytes(*self, *node_id)), network, r->Ok_0@) }
                               else { r->Ok_0@.len() == 0 })
    { unimplemented!() }
    pub uninterp spec fn allowlist_readable(&self, node_id: PublicKey) -> bool;       // get_node_allowlist answers Ok
    pub uninterp spec fn kv_put_allowlist(&self, node_id: PublicKey, value: Seq<u8>) -> bool;    // call marker: put(allowlist key of this node, value)
    #[verifier::external_body]
    pub fn vx_put_allowlist(&self, node_id: &PublicKey, value: Vec<u8>) -> (r: Result<(), Error>) ensures r.is_ok() ==> self.kv_put_allowlist(*node_id, value@) { unimplemented!() }
    // self.get(&key)?.expect("allowlist not found").1 : the stored allowlist value (abort when there is none)
    #[verifier::external_body]
    pub fn vx_get_allowlist_value(&self, node_id: &PublicKey) -> (r: Result<Vec<u8>, Error>) ensures r.is_ok() ==> r->Ok_0@ == stored_allowlist_bytes(*self, *node_id) { unimplemented!() }

    // the write side: keys, serialisation (serde, assumed a round trip) and the store's put / delete (units kvv_*)
    pub uninterp spec fn kv_put_state(&self, node_id: PublicKey, value: Seq<u8>) -> bool;     // call marker: put(node-state key of this node, value)
    pub uninterp spec fn kv_deleted_state(&self, node_id: PublicKey) -> bool;                 // call marker: delete(node-state key of this node)
    pub uninterp spec fn kv_deleted_entry(&self, node_id: PublicKey) -> bool;                 // call marker: delete(node-entry key of this node)
    #[verifier::external_body]
    pub fn vx_put_state(&self, node_id: &PublicKey, value: Vec<u8>) -> (r: Result<(), Error>) ensures r.is_ok() ==> self.kv_put_state(*node_id, value@) { unimplemented!() }
    #[verifier::external_body]
    pub fn vx_delete_entry(&self, node_id: &PublicKey) -> (r: Result<(), Error>) ensures r.is_ok() ==> self.kv_deleted_entry(*node_id) { unimplemented!() }
    #[verifier::external_body]
    pub fn vx_delete_state(&self, node_id: &PublicKey) -> (r: Result<(), Error>) ensures r.is_ok() ==> self.kv_deleted_state(*node_id) { unimplemented!() }

//@fn vls-persist/src/kvv.rs :: impl<S: KVVStore, F: ValueFormat> Persist for KVVPersister<S, F> :: update_node props=C12,C11,C15
    ensures
        // what goes to the store under this node's state key is the serialisation of an entry that holds each velocity
        // control under its own name and the id high-water mark as it is
        r.is_ok() ==> exists|e: NodeStateEntry| e.velocity_control == to_model(state.velocity_control)
            && e.fee_velocity_control == to_model(state.fee_velocity_control) && e.dbid_high_water_mark == state.dbid_high_water_mark
            && #[trigger] self.kv_put_state(*node_id, ser_state_entry(e)),                                        //[C11.store.node-state-written-under-node-key]
//@sub /(?s)let key = make_key\(NODE_STATE_PREFIX, &node_id\.serialize\(\)\);/ => 
//@sub /let entry: NodeStateEntry = state\.into\(\);/ => let entry: NodeStateEntry = NodeStateEntry::from(state);
//@sub /F::ser_value\(&entry\)\?/ => vx_ser_state_entry(&entry)?
//@sub /self\.put\(&key, value\)/ => self.vx_put_state(node_id, value)
//@end

//@fn vls-persist/src/kvv.rs :: impl<S: KVVStore, F: ValueFormat> Persist for KVVPersister<S, F> :: update_node_allowlist props=C11
    ensures
        // the list handed over by Node::update_allowlist (unit node_allowlist) goes to the store, as it is, under this node's
        // allowlist key
        r.is_ok() ==> self.kv_put_allowlist(*node_id, ser_allowlist(allowlist@)),                                     //[C11.store.allowlist-written-under-node-key]
//@sub /(?s)let key = make_key\(ALLOWLIST_PREFIX, &node_id\.serialize\(\)\);/ => 
//@sub /F::ser_value\(&entry\)\?/ => vx_ser_allowlist_entry(&entry)?
//@sub /self\.put\(&key, value\)/ => self.vx_put_allowlist(node_id, value)
//@end

//@fn vls-persist/src/kvv.rs :: impl<S: KVVStore, F: ValueFormat> Persist for KVVPersister<S, F> :: get_node_allowlist props=C11
    ensures
        r.is_ok() ==> r->Ok_0@ == de_allowlist(stored_allowlist_bytes(*self, *node_id)),                              //[C11.store.allowlist-read-back-from-node-key]
//@sub /(?s)let key = make_key\(ALLOWLIST_PREFIX, &node_id\.serialize\(\)\);/ => 
//@sub /let value = self\.get\(&key\)\?\.vx_expect\(\)\.1;/ => let value = self.vx_get_allowlist_value(node_id)?;
//@sub /let entry: AllowlistItemEntry = F::de_value\(&value\)\?;/ => let entry: AllowlistItemEntry = vx_de_allowlist_entry(&value)?;
//@end

//@fn vls-persist/src/kvv.rs :: impl<S: KVVStore, F: ValueFormat> Persist for KVVPersister<S, F> :: delete_node props=C11
    ensures r.is_ok() ==> self.kv_deleted_entry(*node_id) && self.kv_deleted_state(*node_id),                     //[C11.store.delete-node-removes-both-records]
//@sub /let id = node_id\.serialize\(\);/ => 
//@sub /self\.delete\(&make_key\(NODE_ENTRY_PREFIX, &id\)\)/ => self.vx_delete_entry(node_id)
//@sub /self\.delete\(&make_key\(NODE_STATE_PREFIX, &id\)\)/ => self.vx_delete_state(node_id)
//@end

//@fn vls-persist/src/kvv.rs :: impl<S: KVVStore, F: ValueFormat> Persist for KVVPersister<S, F> :: get_nodes props=C12,C11,C15
//@sigsub /CoreNodeEntry/ => VxCoreNodeEntry
    ensures
        // every stored node is restored, under the id its key carries ...
        r.is_ok() ==> r->Ok_0@.len() == self.stored_node_entries().len()
            && forall|i: int| 0 <= i < r->Ok_0@.len() ==> (#[trigger] r->Ok_0@[i]).0 == node_id_of_key(self.stored_node_entries()[i].0),   //[C11.store.every-stored-node-restored]
        // ... and every restored node state carries, in each control, the state that was stored under that control's name, and the
        // stored id high-water mark
        r.is_ok() ==> forall|i: int| 0 <= i < r->Ok_0@.len() ==> ({
            let e = de_state_entry(stored_state_bytes(*self, (#[trigger] r->Ok_0@[i]).0));
            let st = r->Ok_0@[i].1.state;
            st.velocity_control == to_core(e.velocity_control) && st.fee_velocity_control == to_core(e.fee_velocity_control)    //[C12.store.each-control-restored-from-its-own-record]
            && st.dbid_high_water_mark == e.dbid_high_water_mark                                                              //[C15.store.hwm-restored]
        }),
        // ... and the allowlist: the set of the entries that the stored texts parse to (when the stored list can be read)
        r.is_ok() ==> forall|i: int| 0 <= i < r->Ok_0@.len() && self.allowlist_readable((#[trigger] r->Ok_0@[i]).0) ==>
            exists|al: Seq<VxAllowable>, n: Network| parsed_all(de_allowlist(stored_allowlist_bytes(*self, r->Ok_0@[i].0)), n, al)
                && r->Ok_0@[i].1.state.allowlist == collected_allowlist(al),                                             //[C11.store.allowlist-restored-from-stored-texts]
//@sub /let mut res = Vec::new\(\);/ => let mut res: Vec<(PublicKey, VxCoreNodeEntry)> = Vec::new();
//@proof after /let \(key, value\) = vx_kv;/
            let ghost vx_key = key;
//@sub /let prefix = NODE_ENTRY_PREFIX\.to_string\(\) \+ SEPARATOR;/ => let prefix = vx_node_entry_prefix();
//@sub /(?s)let kvvs = self\s*\.get_prefix\(&prefix\)\?\s*\.map\(KVV::into_inner\)\s*\.filter\(\|\(_k, \(_r, value\)\)\| !value\.is_empty\(\)\);/ => let kvvs = self.vx_node_kvvs(&prefix)?;
//@sub /for \(key, \(_r, value\)\) in kvvs \{/ => for vx_kv in kvvs { let (key, value) = vx_kv;
//@sub /(?s)let suffix = extract_key_suffix\(&prefix, &key\);\s*let node_id = PublicKey::from_slice\(&suffix\)\.vx_expect\(\);/ => let node_id = vx_node_id_of_key(&prefix, &key);
//@sub /let entry: NodeEntry = F::de_value\(&value\)\?;/ => let entry: NodeEntry = vx_de_node_entry(&value)?;
//@sub /(?s)let state_value = self\s*\.get\(&make_key\(NODE_STATE_PREFIX, &node_id\.serialize\(\)\)\)\?\s*\.ok_or\(Error::NotFound\("state not found"\.to_string\(\)\)\)\?\s*\.1;/ => let state_value = self.vx_get_state_value(&node_id)?;
//@sub /let state_entry: NodeStateEntry = F::de_value\(&state_value\)\?;/ => let state_entry: NodeStateEntry = vx_de_state_entry(&state_value)?;
//@sub /(?s)let network: Network = entry\.network\.parse\(\)\.map_err\(.*?\)\?;/ => let network: Network = vx_parse_network(&entry)?;
//@sub /(?s)let allowlist =\s*self\.get_node_allowlist\(&node_id\).*?\)\?;/ => let allowlist = self.vx_allowlist(&node_id, network)?;
//@sub /state_entry\.velocity_control\.into\(\)/ => CoreVelocityControl::from(state_entry.velocity_control)
//@sub /state_entry\.fee_velocity_control\.into\(\)/ => CoreVelocityControl::from(state_entry.fee_velocity_control)
//@sub /state_entry\.dbid_high_water_mark\.into\(\)/ => state_entry.dbid_high_water_mark
//@sub /let node_entry = CoreNodeEntry \{/ => let node_entry = VxCoreNodeEntry {
//@loop 1 iter=it
        invariant
            kvvs@ == self.stored_node_entries(), res@.len() == it.index@,
            forall|i: int| 0 <= i < res@.len() ==> (#[trigger] res@[i]).0 == node_id_of_key(kvvs@[i].0),
            forall|i: int| 0 <= i < res@.len() ==> ({
                let e = de_state_entry(stored_state_bytes(*self, (#[trigger] res@[i]).0));
                let st = res@[i].1.state;
                st.velocity_control == to_core(e.velocity_control) && st.fee_velocity_control == to_core(e.fee_velocity_control)
                && st.dbid_high_water_mark == e.dbid_high_water_mark
            }),
            forall|i: int| 0 <= i < res@.len() && self.allowlist_readable((#[trigger] res@[i]).0) ==>
                exists|al: Seq<VxAllowable>, n: Network| parsed_all(de_allowlist(stored_allowlist_bytes(*self, res@[i].0)), n, al)
                    && res@[i].1.state.allowlist == collected_allowlist(al),
//@end
}
// lightning_signer::persist::model::NodeEntry (key derivation style, network, state)
pub struct VxCoreNodeEntry { pub key_derivation_style: u8, pub network: VxStr, pub state: NodeState }

} // verus!
fn main() {}
