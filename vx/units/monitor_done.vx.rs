//@unit monitor_done
//@props C15 C14 C13
// Contracts on the pruning predicate of the channel monitor (vls-core/src/monitor.rs):
// State::{depth_of, deep_enough_and_saw_node_forget, is_done}.
use vstd::prelude::*;
use vstd::std_specs::cmp::OrdSpec;
//@include prelude/core.rs
//@include prelude/deps.rs
//@include prelude/btc.rs
//@include prelude/seqmutex.rs
//@map /Set<OutPoint>/ => VxOutPointSet
//@map /Arc<Mutex<State>>/ => VxSeqMutex<State>
//@map /Arc<Mutex<Option<BlockDecodeState>>>/ => VxDecodeSlot
//@map /Box<dyn CommitmentPointProvider>/ => VxProvider
verus! {

#[verifier::external_body]
pub struct VxOutPointSet { _p: u8 }
impl Clone for VxOutPointSet { #[verifier::external_body] fn clone(&self) -> (r: Self) ensures r == *self { unimplemented!() } }

//@const vls-core/src/monitor.rs :: MIN_DEPTH
//@const vls-core/src/monitor.rs :: MAX_CLOSING_DEPTH
//@type vls-core/src/monitor.rs :: SecondLevelHTLCOutput derive=Clone
//@type vls-core/src/monitor.rs :: ClosingOutpoints derive=Clone
//@type vls-core/src/monitor.rs :: State derive=Clone

// ------------------------------------------------------------------ spec side (from the property)
// number of blocks on the current best chain burying an event seen at height h (0 = not seen)
pub open spec fn burial_depth(height: u32, event_height: Option<u32>) -> int {
    match event_height {
        Some(h) => if h <= height { height + 1 - h } else { 0 },
        None => 0,
    }
}
// C15: a channel may be forgotten only after the node asked to forget it and a funding double-spend,
// a mutual close, or a fully swept unilateral close is buried by the required number of blocks
pub open spec fn safely_buried(s: State) -> bool {
    s.saw_forget_channel && (
        burial_depth(s.height, s.funding_double_spent_height) >= 100
        || burial_depth(s.height, s.mutual_closing_height) >= 100
        || burial_depth(s.height, s.closing_swept_height) >= 100)
}

impl State {

//@fn vls-core/src/monitor.rs :: impl State :: channel_id mode=trusted
//@end

//@fn vls-core/src/monitor.rs :: impl State :: depth_of props=C15
    requires self.height < u32::MAX,
    ensures r == burial_depth(self.height, other_height),                                            //[C15.depth.exact]
//@end

//@fn vls-core/src/monitor.rs :: impl State :: deep_enough_and_saw_node_forget props=C15
    requires self.height < u32::MAX,
    ensures r == (self.saw_forget_channel && burial_depth(self.height, other_height) >= limit),      //[C15.deep-enough.exact]
//@end

//@fn vls-core/src/monitor.rs :: impl State :: is_done props=C15
    requires self.height < u32::MAX,
    ensures
        r ==> safely_buried(*self),                                                                  //[C15.is-done.only-if-buried]
        r == safely_buried(*self),                                                                   //[C15.is-done.exact]
//@end

} // impl

// ---- the monitor handles the node holds (ChainMonitorBase in a ready channel, ChainMonitor registered with the tracker):
// both share one State behind a mutex (sequential model, prelude/seqmutex.rs) ----
//@type vls-core/src/monitor.rs :: ChainMonitorBase
#[verifier::external_body] pub struct VxProvider { _p: u8 }
// Arc<Mutex<Option<BlockDecodeState>>>: the partial decode state of the block being streamed to this monitor, if any
#[verifier::external_body] pub struct VxDecodeSlot { _p: u8 }
impl VxDecodeSlot {
    pub uninterp spec fn pending(&self) -> bool;
    // `self.decode_state.lock().expect("lock").take()` (sequential model): the slot is emptied
    #[verifier::external_body] pub fn take(&mut self) ensures !final(self).pending() { unimplemented!() }
}
//@type vls-core/src/monitor.rs :: ChainMonitor

impl ChainMonitorBase {
//@fn vls-core/src/monitor.rs :: impl ChainMonitorBase :: is_done props=C15
    requires self.state.val.height < u32::MAX,
    ensures r == safely_buried(self.state.val),                                                      //[C15.base.is-done-is-the-shared-state]
//@sub /self\.get_state\(\)\.is_done\(\)/ => self.state.val.is_done()
//@end

//@fn vls-core/src/monitor.rs :: impl ChainMonitorBase :: forget_channel props=C15
//@sigsub /&self/ => &mut self
    ensures
        // the only thing a forget request changes is the flag that lets a safely buried channel be pruned later
        final(self).state.val == (State { saw_forget_channel: true, ..old(self).state.val }),       //[C15.base.forget-sets-only-the-flag]
        final(self).funding_outpoint == old(self).funding_outpoint,
//@sub /let mut state = self\.get_state\(\);/ => 
//@sub /state\.saw_forget_channel = true;/ => self.state.val.saw_forget_channel = true;
//@end

//@fn vls-core/src/monitor.rs :: impl ChainMonitorBase :: forget_seen props=C15
    ensures r == self.state.val.saw_forget_channel,                                                  //[C15.base.forget-seen]
//@sub /self\.get_state\(\)\.saw_forget_channel/ => self.state.val.saw_forget_channel
//@end
}

impl ChainMonitor {
    // `self.get_state()` (lock guard, read here): the shared state (sequential model)
    #[verifier::external_body]
    pub fn get_state(&self) -> (r: &State) ensures *r == self.state.val { unimplemented!() }
//@fn vls-core/src/monitor.rs :: impl ChainListener for ChainMonitor :: on_streamed_block_start props=C14,C13
//@sigsub /&self/ => &mut self
    ensures
        // a monitor that is told a new streamed block begins holds no partial decode state of an earlier one (a streamed block
        // the tracker refused never reaches on_*_streamed_block_end): the next on_block_start finds the fresh state it asserts
        !final(self).decode_state.pending(),                                                         //[C14.stream.start-drops-partial-decode-state] [C13.stream.start-drops-partial-decode-state]
        final(self).state == old(self).state, final(self).funding_outpoint == old(self).funding_outpoint,
//@sub /self\.decode_state\.lock\(\)\.vx_expect\(\)/ => (&mut self.decode_state)
//@end

//@fn vls-core/src/monitor.rs :: impl ChainMonitor :: is_done props=C15
    requires self.state.val.height < u32::MAX,
    ensures r == safely_buried(self.state.val),                                                      //[C15.monitor.is-done-is-the-shared-state]
//@sub /self\.get_state\(\)\.is_done\(\)/ => self.state.val.is_done()
//@end
}
} // verus!
fn main() {}
