//@unit kvv_redb_start
//@props C16
// Start-up of the redb-backed store (vls-persist/src/kvv/redb.rs, RedbKVVStore::new_store): the in-memory version index
// is rebuilt from the table.  Every later operation (unit kvv_redb) REQUIRES that index and table are in step (redb_inv);
// this is where that invariant is established after a restart - so "versions never decrease" also holds across restarts.
// Opening / creating / migrating the database file and the signer-id bookkeeping are stubs (the committed table content
// as found on disk is an uninterpreted function of the path); what is verified is the scan that builds the index.
use vstd::prelude::*;
use vstd::std_specs::cmp::OrdSpec;
//@include prelude/core.rs
//@include prelude/seqmutex.rs
//@map /Mutex<BTreeMap<String, u64>>/ => VxSeqMutex<VxVerMap>
//@map /BTreeMap::new\(\)/ => VxVerMap::new()
//@map /Mutex::new\(/ => VxSeqMutex::new(
//@map /\bSignerId\b/ => [u8; 16]
verus! {

//@@TAGS

//@include frag/redb_model.rs

#[verifier::external_body] pub struct VxPath { _p: u8 }
// the committed content of table `kv` of the database file under `path` as it is found at start-up (an absent file is
// created empty; a file in the redb 1 format is migrated first: migrate_v1_to_v2, not under contract)
pub uninterp spec fn disk_table(p: VxPath) -> Map<Seq<char>, Seq<u8>>;
#[verifier::external_body]
pub fn vx_open_database(path: &VxPath) -> (db: Database) ensures db@ == disk_table(*path) { unimplemented!() }
// creates the tables and the signer id if they are missing: the content of table `kv` is not touched
#[verifier::external_body]
pub fn vx_signer_id(db: &mut Database) -> (r: [u8; 16]) ensures final(db)@ == old(db)@ { unimplemented!() }
impl Database {
    // begin_read + open_table(TABLE) + iter(): every committed (key, record) pair of the table, each key once
    #[verifier::external_body]
    pub fn vx_entries(&self) -> (r: Vec<(String, Vec<u8>)>)
        ensures
            forall|i: int| 0 <= i < r@.len() ==> self@.dom().contains((#[trigger] r@[i]).0@) && r@[i].1@ == self@[r@[i].0@],
            forall|k: Seq<char>| #[trigger] self@.dom().contains(k) ==> exists|i: int| 0 <= i < r@.len() && (#[trigger] r@[i]).0@ == k,
    { unimplemented!() }
}

impl RedbKVVStore {

//@fn vls-persist/src/kvv/redb.rs :: impl RedbKVVStore :: decode_vv mode=trusted
    ensures vv@.len() >= 8, r.0 == unbe8(vv@.take(8)), r.1@ == vv@.skip(8),
//@end

//@fn vls-persist/src/kvv/redb.rs :: impl RedbKVVStore :: new_store props=C16
//@sigsub /<P: AsRef<Path>>/ =>
//@sigsub /path: P/ => path: &VxPath
    ensures
        // the store serves the table that was found on disk
        r.db@ == disk_table(*path),                                                                   //[C16.redb.startup-keeps-table]
        // the index holds, for exactly the stored keys, the version stored in front of the record
        forall|k: Seq<char>| #[trigger] r.versions.val@.dom().contains(k) <==> disk_table(*path).dom().contains(k),   //[C16.redb.startup-indexes-every-key]
        forall|k: Seq<char>| #[trigger] r.versions.val@.dom().contains(k) ==> disk_table(*path)[k].len() >= 8
            && r.versions.val@[k] == unbe8(disk_table(*path)[k].take(8)),                            //[C16.redb.startup-version-is-the-stored-one]
        // which is the invariant every operation of unit kvv_redb relies on
        redb_inv(r),                                                                                  //[C16.redb.startup-establishes-invariant]
//@sub /(?s)let path = path\.as_ref\(\);.*?db\.check_integrity\(\)\.vx_expect\(\);/ => let mut db = vx_open_database(path);
//@sub /(?s)let signer_id = \{.*?\n\s*signer_id\s*\};/ => let signer_id = vx_signer_id(&mut db);
//@sub /(?s)let tx = db\.begin_read\(\)\.vx_expect\(\);\s*let table = tx\.open_table\(TABLE\)\.vx_expect\(\);\s*for item in table\.iter\(\)\.vx_expect\(\) \{/ => let vx_items = db.vx_entries(); for item in it: vx_items.iter() {
//@sub /let \(key, vv\) = item\.vx_expect\(\);/ => let key = &item.0; let vv = &item.1;
//@sub /vv\.value\(\)/ => vv.as_slice()
//@sub /key\.value\(\)\.to_string\(\)/ => vx_to_string(key.as_str())
//@loop 1
            invariant
                db@ == disk_table(*path),
                forall|i: int| 0 <= i < vx_items@.len() ==> db@.dom().contains((#[trigger] vx_items@[i]).0@) && vx_items@[i].1@ == db@[vx_items@[i].0@],
                forall|k: Seq<char>| #[trigger] versions@.dom().contains(k) <==> exists|j: int| 0 <= j < it.index@ && (#[trigger] vx_items@[j]).0@ == k,   //[C16.redb.startup-scan-indexes-every-record]
                forall|k: Seq<char>| #[trigger] versions@.dom().contains(k) ==> db@.dom().contains(k) && db@[k].len() >= 8
                    && versions@[k] == unbe8(db@[k].take(8)),                                         //[C16.redb.startup-scan-indexes-the-stored-version]
//@proof before /let store = Self \{/
        proof {
            assert forall|k: Seq<char>| #[trigger] versions@.dom().contains(k) implies db@[k].take(8) == be8(versions@[k]) by {
                lemma_be8_unbe8(db@[k].take(8));
            }
        }
//@end

} // impl RedbKVVStore

} // verus!
fn main() {}
