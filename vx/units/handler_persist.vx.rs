//@unit handler_persist
//@props C10
// Handler::with_persist (vls-protocol-signer/src/handler.rs): every state-changing request runs inside a persister
// transaction.  Decided here: the operation runs after the transaction was entered; a successful operation hands back exactly
// the mutations the persister reported; a FAILED operation is answered with its error only when nothing is pending - a failed
// operation that left mutations behind never returns (the signer aborts rather than acknowledge a half-applied request).
use vstd::prelude::*;
use vstd::std_specs::cmp::OrdSpec;
//@include prelude/core.rs
//@map /Result<Mutations>/ => Result<Mutations, Status>
//@map /Result<\(\)>/ => Result<(), Status>
verus! {

//@@TAGS

#[verifier::external_body] pub struct Status { _p: u8 }
#[verifier::external_body] pub struct VxPersistError { _p: u8 }
#[verifier::external_body] pub struct Node { _p: u8 }
#[verifier::external_body] pub struct VxPersister { _p: u8 }
pub struct Mutations(pub Vec<(String, (u64, Vec<u8>))>);
impl Mutations {
    pub fn is_empty(&self) -> (r: bool) ensures r == (self.0@.len() == 0) { self.0.len() == 0 }
}
impl Status {
    #[verifier::external_body] pub fn internal(msg: &str) -> Status { unimplemented!() }
}
pub uninterp spec fn tx_entered(p: VxPersister) -> bool;                  // call marker: enter() succeeded on this persister
pub uninterp spec fn prepared(p: VxPersister, m: Mutations) -> bool;      // call marker: prepare() reported these mutations
pub uninterp spec fn enter_failed(p: VxPersister) -> bool;                // call marker: enter() refused (no transaction, the operation does not run)
impl VxPersister {
    #[verifier::external_body]
    pub fn enter(&self) -> (r: Result<(), VxPersistError>) ensures r.is_ok() ==> tx_entered(*self), r.is_err() ==> enter_failed(*self) { unimplemented!() }
    #[verifier::external_body]
    pub fn prepare(&self) -> (r: Mutations) ensures prepared(*self, r) { unimplemented!() }
}
impl Node {
    pub uninterp spec fn persister(&self) -> VxPersister;
    #[verifier::external_body]
    pub fn get_persister(&self) -> (r: &VxPersister) ensures *r == self.persister() { unimplemented!() }
}

pub trait Handler: Sized {
    spec fn node_spec(&self) -> Node;
    fn node(&self) -> (r: &Node) ensures *r == self.node_spec();

//@fn vls-protocol-signer/src/handler.rs :: trait Handler :: with_persist props=C10
//@sigsub /f: impl FnOnce\(&Node\) -> Result<\(\), Status>/ => f: F
//@sigsub /fn with_persist\(/ => fn with_persist<F: FnOnce(&Node) -> Result<(), Status>>(
    requires
        // the operation may be run once the transaction is open
        tx_entered(self.node_spec().persister()) ==> f.requires((&self.node_spec(),)),
    ensures
        // Ok: the operation succeeded inside an entered transaction and these are the mutations the persister reported
        r.is_ok() ==> tx_entered(self.node_spec().persister()) && prepared(self.node_spec().persister(), r->Ok_0)
            && exists|res: Result<(), Status>| f.ensures((&self.node_spec(),), res) && res.is_ok(),          //[C10.with-persist.ok-reports-the-prepared-mutations]
        // Err: the transaction could not be entered, or the operation ran and nothing is pending (with pending mutations the call does not return)
        r.is_err() ==> enter_failed(self.node_spec().persister()) || exists|m: Mutations| prepared(self.node_spec().persister(), m) && m.0@.len() == 0,   //[C10.with-persist.error-only-without-pending-mutations]
//@sub /let result = f\(&\*node\);/ => let result = f(node);
//@proof before /let muts = persister\.prepare\(\);/
        // the mutations are collected AFTER the operation ran: what is reported (and later committed) includes its writes
        assert(exists|res: Result<(), Status>| f.ensures((&self.node_spec(),), res));                      //[C10.with-persist.prepare-after-the-operation]
//@end
}

} // verus!
fn main() {}
