//@unit handler_setup
//@props C09 C05 C04 C01 C03
// The SetupChannel arm of the protocol handler (vls-protocol-signer/src/handler.rs, ChannelHandler::do_handle), lifted
// verbatim into a function by rewrite R30 (the block of one match arm; signature from this template).  This is where the
// negotiated channel parameters of the wire message become the ChannelSetup that every later check reads: the contest
// delays that bound sweeps and second-level HTLC transactions (C09), the parameters the BOLT-3 commitment is rebuilt from
// (C04), the values that setup validation judges (C05).  The contract says which message field ends up in which setup field:
//   to_self_delay        - the delay on the HOLDER's own outputs            -> holder_selected_contest_delay
//   remote_to_self_delay - the delay on the counterparty's outputs          -> counterparty_selected_contest_delay
//   remote_*             - the counterparty's funding key, basepoints and shutdown script
// and that Node::setup_channel is called with exactly that setup for this handler's channel id.
use vstd::prelude::*;
use vstd::std_specs::cmp::OrdSpec;
//@include prelude/core.rs
//@include prelude/deps.rs
//@include prelude/btc.rs
//@map /Result<Box<dyn SerBolt>>/ => Result<VxReply, Status>
//@map /Ok\(Box::new\(msgs::SetupChannelReply \{\}\)\)/ => Ok(vx_setup_channel_reply())
//@map /ScriptBuf::from_bytes\((\w+(?:\.\w+)*)\.as_slice\(\)\.to_vec\(\)\)/ => vx_script_from_octets(&\1)
//@map /points\.(revocation|delayed_payment|htlc)\.into\(\)/ => vx_basepoint_of(&points.\1)
//@map /points\.payment\.into\(\)/ => vx_pubkey_of(&points.payment)
//@map /\bTxid\b/ => Txid
//@map /Arc<Node>/ => VxNodeH
//@map /Arc<dyn Approve>/ => VxApprover
//@map /Arc::clone\(&self\.node\)/ => self.node.clone()
verus! {

//@@TAGS

#[verifier::external_body] pub struct VxReply { _p: u8 }
#[verifier::external_body] pub fn vx_setup_channel_reply() -> VxReply { unimplemented!() }
// vls-protocol model types: byte strings and 33-byte keys as they come off the wire
#[verifier::external_body] pub struct Octets { _p: u8 }
pub struct PubKey(pub [u8; 33]);
#[verifier::external_body] pub struct VxApprover { _p: u8 }
impl Octets {
    pub uninterp spec fn bytes(&self) -> Seq<u8>;
    #[verifier::external_body] pub fn is_empty(&self) -> (r: bool) ensures r == (self.bytes().len() == 0) { unimplemented!() }
    #[verifier::external_body] pub fn len(&self) -> (r: usize) ensures r == self.bytes().len() { unimplemented!() }
}
pub uninterp spec fn script_of_bytes(b: Seq<u8>) -> ScriptBuf;          // ScriptBuf::from_bytes
pub uninterp spec fn key_of_wire(k: PubKey) -> PublicKey;               // PublicKey::from_slice(&key.0) (abort when malformed)
pub uninterp spec fn commitment_type_of(channel_type: Seq<u8>) -> CommitmentType;   // channel_type_to_commitment_type
#[verifier::external_body] pub fn vx_script_from_octets(o: &Octets) -> (r: ScriptBuf) ensures r == script_of_bytes(o.bytes()) { unimplemented!() }
#[verifier::external_body] pub fn extract_pubkey(k: &PubKey) -> (r: PublicKey) ensures r == key_of_wire(*k) { unimplemented!() }
#[verifier::external_body] pub fn vx_pubkey_of(k: &PubKey) -> (r: PublicKey) ensures r == key_of_wire(*k) { unimplemented!() }
#[verifier::external_body] pub fn vx_basepoint_of(k: &PubKey) -> (r: VxKeyWrap) ensures r.0 == key_of_wire(*k) { unimplemented!() }
#[verifier::external_body] pub fn channel_type_to_commitment_type(t: &Octets) -> (r: CommitmentType) ensures r == commitment_type_of(t.bytes()) { unimplemented!() }
impl DerivationPath {
    pub uninterp spec fn master_spec() -> DerivationPath;
    #[verifier::external_body] pub fn master() -> (r: DerivationPath) ensures r == Self::master_spec() { unimplemented!() }
}

//@type vls-core/src/channel.rs :: CommitmentType derive=Clone,Copy,PartialEq
//@type vls-core/src/channel.rs :: ChannelSetup derive=Clone
//@type vls-protocol/src/model.rs :: Basepoints
//@type vls-protocol/src/msgs.rs :: SetupChannel

// the node: Node::setup_channel is under contract in units node_restore_channels / sv_setup; here a call marker with the
// exact arguments (DESIGN.md section 6.9)
#[verifier::external_body] pub struct VxNodeH { _p: u8 }
pub uninterp spec fn node_setup_channel_called(n: VxNodeH, id0: ChannelId, setup: ChannelSetup, path: DerivationPath) -> bool;
impl VxNodeH {
    #[verifier::external_body]
    pub fn setup_channel(&self, id0: ChannelId, id: Option<ChannelId>, setup: ChannelSetup, holder_shutdown_key_path: &DerivationPath) -> (r: Result<(), Status>)
        ensures r.is_ok() ==> id.is_none() && node_setup_channel_called(*self, id0, setup, *holder_shutdown_key_path)
    { unimplemented!() }
}
impl Clone for VxNodeH { #[verifier::external_body] fn clone(&self) -> (r: Self) ensures r == *self { unimplemented!() } }
// ChannelId::new_from_peer_id_and_oid (vls-core; the id round trip oid(new_from_peer_id_and_oid(p, x)) == x is a Kani proof, C15)
pub uninterp spec fn channel_id_of(peer_id: [u8; 33], oid: u64) -> ChannelId;
impl ChannelId {
    #[verifier::external_body]
    pub fn new_from_peer_id_and_oid(peer_id: &[u8; 33], oid: u64) -> (r: ChannelId) ensures r == channel_id_of(*peer_id, oid) { unimplemented!() }
}
//@type vls-protocol-signer/src/handler.rs :: RootHandler
//@type vls-protocol-signer/src/handler.rs :: ChannelHandler

// the setup a SetupChannel message denotes (written from the meaning of the message fields, see the header)
pub open spec fn setup_of_message(m: SetupChannel) -> ChannelSetup {
    ChannelSetup {
        is_outbound: m.is_outbound,
        channel_value_sat: m.channel_value,
        push_value_msat: m.push_value,
        funding_outpoint: OutPoint { txid: m.funding_txid, vout: m.funding_txout as u32 },
        holder_selected_contest_delay: m.to_self_delay,
        holder_shutdown_script: if m.local_shutdown_script.bytes().len() == 0 { None } else { Some(script_of_bytes(m.local_shutdown_script.bytes())) },
        counterparty_points: ChannelPublicKeys {
            funding_pubkey: key_of_wire(m.remote_funding_pubkey),
            revocation_basepoint: VxKeyWrap(key_of_wire(m.remote_basepoints.revocation)),
            payment_point: key_of_wire(m.remote_basepoints.payment),
            delayed_payment_basepoint: VxKeyWrap(key_of_wire(m.remote_basepoints.delayed_payment)),
            htlc_basepoint: VxKeyWrap(key_of_wire(m.remote_basepoints.htlc)),
        },
        counterparty_selected_contest_delay: m.remote_to_self_delay,
        counterparty_shutdown_script: if m.remote_shutdown_script.bytes().len() == 0 { None } else { Some(script_of_bytes(m.remote_shutdown_script.bytes())) },
        commitment_type: commitment_type_of(m.channel_type.bytes()),
    }
}

impl RootHandler {
//@fn vls-protocol-signer/src/handler.rs :: impl RootHandler :: channel_id props=C09
    ensures r == channel_id_of(peer_id.0, dbid),
//@end

//@fn vls-protocol-signer/src/handler.rs :: impl Handler for RootHandler :: for_new_client props=C09,C01,C03
    ensures
        // the per-channel handler of a client acts on the channel of THIS peer and THIS database id (every later request of
        // the client - sweeps, commitments, revocations - is looked up under this id), on the same node, under the same protocol
        r.channel_id == channel_id_of(peer_id.0, dbid) && r.dbid == dbid && r.peer_id == peer_id.0,     //[C09.handler.client-acts-on-the-channel-of-its-dbid] [C01.handler.client-acts-on-the-channel-of-its-dbid] [C03.handler.client-acts-on-the-channel-of-its-dbid]
        r.node == self.node && r.protocol_version == self.protocol_version && r.id == client_id,
//@end
}

impl ChannelHandler {

//@fn vls-protocol-signer/src/handler.rs :: impl Handler for ChannelHandler :: do_handle arm="Message::SetupChannel\(m\)" as=arm_setup_channel props=C09,C05,C04
//@sig fn arm_setup_channel(&self, m: SetupChannel) -> (r: Result<VxReply, Status>)
    ensures
        // the channel becomes usable only through Node::setup_channel, called for this handler's channel with the setup the
        // message denotes: each negotiated parameter in the field that bears its meaning
        r.is_ok() ==> node_setup_channel_called(self.node, self.channel_id, setup_of_message(m), DerivationPath::master_spec()),   //[C09.handler.setup-carries-negotiated-delays] [C04.handler.setup-carries-negotiated-parameters] [C05.handler.setup-validated-as-sent]
//@end

} // impl

} // verus!
fn main() {}
