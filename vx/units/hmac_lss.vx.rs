//@unit hmac_lss
//@props C17
// Contracts on lightning-storage-server/lib/src/util.rs: the per-value HMAC appended to every stored value
// and the shared HMAC over (key, version, value) lists.
use vstd::prelude::*;
use vstd::std_specs::cmp::OrdSpec;
//@include prelude/core.rs
//@include prelude/hmac.rs
//@map /HmacEngine::<Sha256Hash>/ => HmacEngine
//@map /HmacEngine<Sha256Hash>/ => HmacEngine
//@map /key\.as_bytes\(\)/ => vx_str_bytes(key)
verus! {

//@type lightning-storage-server/lib/src/model.rs :: Value
//@include frag/hmac_spec.rs

pub open spec fn lss_rec(key: Seq<char>, version: i64, value: Seq<u8>) -> Rec {
    Rec { key: str_bytes(key), version: version as u64, value }
}
pub open spec fn lss_rec_of(e: (String, Value)) -> Rec { lss_rec(e.0@, e.1.version, e.1.value@) }
pub open spec fn lss_recs_of(kvs: Seq<(String, Value)>) -> Seq<Rec> { kvs.map_values(|e: (String, Value)| lss_rec_of(e)) }

#[verifier::external_body]
pub fn vx_arr_eq_slice(a: &[u8; 32], b: &[u8]) -> (r: bool)
    ensures r == (a@ == b@)
{ a == b }

//@fn lightning-storage-server/lib/src/util.rs :: - :: add_to_hmac props=C17
    ensures
        final(hmac).key() == old(hmac).key(),
        final(hmac).msg() == old(hmac).msg() + rec_bytes(lss_rec(key@, *version, value@)),        //[C17.lss-add-to-hmac.framing-shape?]
//@sub /&version\.to_be_bytes\(\)/ => &vx_be8_i64(*version)
//@end

//@fn lightning-storage-server/lib/src/util.rs :: - :: compute_hmac props=C17
    ensures r@ == hmac_sha256(secret@, rec_bytes(lss_rec(key@, *version, value@))),               //[C17.lss-value-hmac.covers-key-version-value]
//@end

//@fn lightning-storage-server/lib/src/util.rs :: - :: append_hmac_to_value props=C17
    ensures
        final(value)@ == old(value)@ + hmac_sha256(secret@, rec_bytes(lss_rec(key@, version, old(value)@))),   //[C17.lss-append.tag-over-key-version-value]
//@end

//@fn lightning-storage-server/lib/src/util.rs :: - :: remove_and_check_hmac props=C17
    ensures
        // a fetched value is accepted only if its tag is the MAC of exactly this key, version and content
        r.is_ok() ==> old(value)@.len() >= 32
            && final(value)@ == old(value)@.take(old(value)@.len() - 32)
            && old(value)@.skip(old(value)@.len() - 32) == hmac_sha256(secret@, rec_bytes(lss_rec(key@, version, final(value)@))),   //[C17.lss-check.accepts-only-matching-tag]
//@sub /hmac (!)?==? expected_hmac\.as_slice\(\)/ => \1vx_arr_eq_slice(&hmac, expected_hmac.as_slice())
//@end

// ChaCha20 keyed by the secret with a nonce derived from (key, version): XOR with a keystream, hence its own inverse
// and length preserving (crate feature `crypt`, on by default; assumed)
pub uninterp spec fn crypt_spec(secret: Seq<u8>, key: Seq<char>, version: i64, v: Seq<u8>) -> Seq<u8>;
#[verifier::external_body]
pub proof fn axiom_crypt_involution(secret: Seq<u8>, key: Seq<char>, version: i64, v: Seq<u8>) ensures crypt_spec(secret, key, version, crypt_spec(secret, key, version, v)) == v, crypt_spec(secret, key, version, v).len() == v.len() {}
#[verifier::external_body]
pub fn vx_crypt_value(secret: &[u8], key: &str, version: i64, value: &mut Vec<u8>)
    ensures final(value)@ == crypt_spec(secret@, key@, version, old(value)@)
{ unimplemented!() }
// what is stored for (key, version, content): the content followed by its MAC, encrypted
pub open spec fn stored_form(secret: Seq<u8>, key: Seq<char>, version: i64, content: Seq<u8>) -> Seq<u8> {
    crypt_spec(secret, key, version, content + hmac_sha256(secret, rec_bytes(lss_rec(key, version, content))))
}

//@fn lightning-storage-server/lib/src/util.rs :: - :: prepare_value_for_put props=C17
    ensures
        final(value).version == old(value).version,
        final(value).value@ == stored_form(secret@, key@, old(value).version, old(value).value@),            //[C17.lss-put.value-is-content-then-tag-encrypted]
//@sub /crypt_value\(secret, key, value\.version, &mut value\.value\);/ => vx_crypt_value(secret, key, value.version, &mut value.value);
//@end

//@fn lightning-storage-server/lib/src/util.rs :: - :: process_value_from_get props=C17
    ensures
        final(value).version == old(value).version,
        // a fetched value is accepted only if, once decrypted, it ends in the MAC of exactly this key, version and content
        r.is_ok() ==> ({
            let plain = crypt_spec(secret@, key@, old(value).version, old(value).value@);
            plain.len() >= 32 && final(value).value@ == plain.take(plain.len() - 32)
            && plain.skip(plain.len() - 32) == hmac_sha256(secret@, rec_bytes(lss_rec(key@, old(value).version, final(value).value@))) }),   //[C17.lss-get.accepts-only-matching-tag]
//@sub /crypt_value\(secret, key, value\.version, &mut value\.value\);/ => vx_crypt_value(secret, key, value.version, &mut value.value);
//@end

// C17 for the stored form: what prepare_value_for_put produced is accepted by process_value_from_get's check and yields the
// content back (HMAC-SHA256 output is 32 bytes: assumed)
pub proof fn c17_stored_value_roundtrip(secret: Seq<u8>, key: Seq<char>, version: i64, content: Seq<u8>)
    requires hmac_sha256(secret, rec_bytes(lss_rec(key, version, content))).len() == 32
    ensures ({
        let plain = crypt_spec(secret, key, version, stored_form(secret, key, version, content));
        plain.len() >= 32 && plain.take(plain.len() - 32) == content
        && plain.skip(plain.len() - 32) == hmac_sha256(secret, rec_bytes(lss_rec(key, version, content))) })
{
    let tag = hmac_sha256(secret, rec_bytes(lss_rec(key, version, content)));
    axiom_crypt_involution(secret, key, version, content + tag);
    let plain = content + tag;
    assert(plain.take(plain.len() - 32) =~= content);
    assert(plain.skip(plain.len() - 32) =~= tag);
}

//@fn lightning-storage-server/lib/src/util.rs :: - :: compute_shared_hmac props=C17
    ensures r@ == hmac_sha256(secret@, framing(secret@, nonce@, lss_recs_of(kvs@))),              //[C17.lss-shared-hmac.framing-shape?]
//@sub /for \(key, value\) in kvs/ => for vx_e in kvs
//@sub /add_to_hmac\(&key, &value\.version, &value\.value, &mut hmac_engine\);/ => add_to_hmac(&vx_e.0, &vx_e.1.version, &vx_e.1.value, &mut hmac_engine);
//@loop 1 iter=it
        invariant
            hmac_engine.key() == secret@,
            hmac_engine.msg() == secret@ + nonce@ + recs_bytes(lss_recs_of(kvs@).take(it.index@ as int)),
//@proof before /add_to_hmac\(&vx_e\.0/
        proof {
            let k = it.index@ as int;
            let rs = lss_recs_of(kvs@);
            assert(rs.take(k + 1).drop_last() =~= rs.take(k));
            assert(rs.take(k + 1).last() == lss_rec_of(kvs@[k]));
        }
//@proof before /Hmac::from_engine\(hmac_engine\)/
    proof { assert(lss_recs_of(kvs@).take(lss_recs_of(kvs@).len() as int) =~= lss_recs_of(kvs@)); }
//@proof before /for vx_e in/
    proof { assert(recs_bytes(lss_recs_of(kvs@).take(0)) =~= Seq::<u8>::empty()); assert(hmac_engine.msg() =~= secret@ + nonce@ + Seq::<u8>::empty()); }
//@end

// what the signer wrote is accepted back unchanged
pub proof fn c17_lss_put_get_roundtrip(secret: Seq<u8>, key: Seq<char>, version: i64, v: Seq<u8>)
    ensures ({
        let stored = v + hmac_sha256(secret, rec_bytes(lss_rec(key, version, v)));
        stored.len() >= v.len() && stored.take(v.len() as int) =~= v
    }),                                                                                          //[C17.lemma.lss-roundtrip]
{}

} // verus!
fn main() {}
