//@unit payments
//@props C06
// Arithmetic core of C06 (pure spec): the per-update inequality checked by Validator::validate_payment_balance is
// preserved when apply() records exactly the validated amounts.  The code that computes and records those amounts is
// under contract in units pay_summary (per-channel summaries), node_payments (NodeState::validate_payments /
// apply_payments, RoutedPayment) and sv_commit (validate_payment_balance); this unit keeps the two arithmetic lemmas.
use vstd::prelude::*;
verus! {

// what updated_incoming_outgoing computes: the total if channel c updates to v
pub open spec fn updated_total(sum: nat, old_c: nat, v: nat) -> int { sum + v - old_c }

// one accepted update on channel c for one hash: the check passed on the updated totals, and apply() recorded
// exactly (new_in, new_out) for channel c
pub proof fn c06_update_preserves_bound(in_sum: nat, in_c: nat, out_sum: nat, out_c: nat, new_in: nat, new_out: nat, allowance: nat)
    requires
        in_c <= in_sum, out_c <= out_sum,                       // c's recorded amounts are part of the sums
        // validate_payment_balance accepted the updated totals (contract [C06.balance.covered], amounts in msat)
        updated_total(out_sum, out_c, new_out) * 1000 <= updated_total(in_sum, in_c, new_in) * 1000 + allowance,
    ensures
        // after apply(): the node's total in flight for the hash is covered by what is in flight to the node plus
        // the approved amount plus the routing-fee allowance
        (out_sum - out_c + new_out) * 1000 <= (in_sum - in_c + new_in) * 1000 + allowance,            //[C06.lemma.update-preserves-bound]
{}

// an outgoing HTLC without an approved invoice (allowance 0) and without incoming value for the hash is refused
pub proof fn c06_unbacked_refused(out_total: nat, in_total: nat)
    requires out_total * 1000 <= in_total * 1000 + 0,
    ensures out_total <= in_total,                                                                      //[C06.lemma.unbacked-needs-incoming]
{
    assert(out_total * 1000 <= in_total * 1000 ==> out_total <= in_total) by(nonlinear_arith);
}

} // verus!
fn main() {}
