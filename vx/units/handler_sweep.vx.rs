//@unit handler_sweep
//@props C09
// The four functions of the protocol handler (vls-protocol-signer/src/handler.rs) through which sweep and second-level HTLC
// signatures are requested: sign_delayed_payment_to_us, sign_remote_htlc_to_us, sign_penalty_to_us, sign_local_htlc_tx.  The Channel
// operations they call (sign_delayed_sweep, sign_counterparty_htlc_sweep, sign_justice_sweep, sign_holder_htlc_tx) are under
// contract in unit channel_sweep (they sign only after the validator accepted the sweep); decided HERE: the operation is called on
// the channel registered under the request's channel id with THE transaction of the request, the input index of the request, the
// script of the request and - as the amount the signature commits to - the value of the witness UTXO of THAT input of the request's
// PSBT, the destination path being the one recorded for output 0; and the reply carries the operation's signature.  Each closure
// handed to Node::with_channel is lifted verbatim (R26) and proved to make exactly that one call; in the host function the
// with_channel expression is replaced by a stub whose arguments are the closure's captured variables (by the names of the lifted
// closure's parameters) and whose contract is the closure's contract on the channel registered under the id.
use vstd::prelude::*;
use vstd::std_specs::cmp::OrdSpec;
//@include prelude/core.rs
//@include prelude/deps.rs
//@include prelude/btc.rs
//@map /Result<Box<dyn SerBolt>>/ => Result<VxReply, Status>
//@map /&Node\b/ => &VxNodeH
//@map /&Psbt\b/ => &VxPsbt
//@map /ScriptBuf::from\(wscript\.0\.clone\(\)\)/ => vx_script_from(wscript)
//@map /(?s)Ok\(Box::new\(msgs::SignTxReply \{\s*signature: BitcoinSignature \{\s*signature: Signature\(sig\.serialize_compact\(\)\),\s*sighash: EcdsaSighashType::All as u8,\s*\},\s*\}\)\)/ => Ok(vx_reply_sig_all(sig))
//@map /(?s)Ok\(Box::new\(msgs::SignTxReply \{\s*signature: BitcoinSignature \{\s*signature: Signature\(sig\.sig\.serialize_compact\(\)\),\s*sighash: sig\.typ as u8,\s*\},\s*\}\)\)/ => Ok(vx_reply_typed_sig(sig))
//@map /PublicKey::from_slice\(&remote_per_commitment_point\.0\)/ => vx_pubkey_from_wire(remote_per_commitment_point)
//@map /SecretKey::from_slice\(&revocation_secret\.0\)/ => vx_secret_from_wire(revocation_secret)
verus! {

//@@TAGS

#[verifier::external_body] pub struct VxReply { _p: u8 }
#[verifier::external_body] pub struct VxChanView { _p: u8 }
#[verifier::external_body] pub struct VxChanRest { _p: u8 }
pub struct VxChan { pub rest: VxChanRest }
#[verifier::external_body] pub struct VxNodeH { _p: u8 }
// bitcoin::Psbt as far as these functions read it: per-input witness UTXO and witness script, per-output witness script
#[verifier::external_body] pub struct VxPsbtRest { _p: u8 }
pub struct VxPsbtInput { pub witness_utxo: Option<TxOut>, pub witness_script: Option<ScriptBuf>, pub rest: VxPsbtRest }
pub struct VxPsbtOutput { pub witness_script: Option<ScriptBuf>, pub rest: VxPsbtRest }
pub struct VxPsbt { pub inputs: Vec<VxPsbtInput>, pub outputs: Vec<VxPsbtOutput>, pub rest: VxPsbtRest }
#[verifier::external_body] pub struct VxPath { _p: u8 }
#[verifier::external_body] pub struct Octets { _p: u8 }
#[verifier::external_body] pub struct TypedSignature { _p: u8 }
pub struct PubKey(pub [u8; 33]);
pub struct DisclosedSecret(pub [u8; 32]);
pub struct VxBadKey { pub p: u8 }
impl Octets { pub uninterp spec fn bytes(&self) -> Seq<u8>; }
pub uninterp spec fn script_of_bytes(b: Seq<u8>) -> ScriptBuf;
pub uninterp spec fn key_of_wire(k: PubKey) -> PublicKey;
pub uninterp spec fn secret_of_wire(k: DisclosedSecret) -> SecretKey;
pub open spec fn psbt_input_value(p: VxPsbt, input: int) -> u64 { amount_sat(p.inputs@[input].witness_utxo->Some_0.value) }   // psbt.inputs[input].witness_utxo.value, in satoshi
pub uninterp spec fn psbt_output_paths(p: VxPsbt) -> Seq<VxPath>;               // extract_psbt_output_paths: the derivation path recorded for every output
pub open spec fn psbt_output0_witscript(p: VxPsbt) -> ScriptBuf { p.outputs@[0].witness_script->Some_0 }
#[verifier::external_body] pub fn vx_script_from(b: &Octets) -> (r: ScriptBuf) ensures r == script_of_bytes(b.bytes()) { unimplemented!() }
#[verifier::external_body] pub fn vx_pubkey_from_wire(k: &PubKey) -> (r: Result<PublicKey, VxBadKey>) ensures r.is_ok() ==> r->Ok_0 == key_of_wire(*k) { unimplemented!() }
#[verifier::external_body] pub fn vx_secret_from_wire(k: &DisclosedSecret) -> (r: Result<SecretKey, VxBadKey>) ensures r.is_ok() ==> r->Ok_0 == secret_of_wire(*k) { unimplemented!() }
#[verifier::external_body] pub fn extract_psbt_output_paths(p: &VxPsbt) -> (r: Vec<VxPath>) ensures r@ == psbt_output_paths(*p) { unimplemented!() }
pub uninterp spec fn reply_sig_all(sig: Signature) -> VxReply;
pub uninterp spec fn reply_typed_sig(sig: TypedSignature) -> VxReply;
#[verifier::external_body] pub fn vx_reply_sig_all(sig: Signature) -> (r: VxReply) ensures r == reply_sig_all(sig) { unimplemented!() }
#[verifier::external_body] pub fn vx_reply_typed_sig(sig: TypedSignature) -> (r: VxReply) ensures r == reply_typed_sig(sig) { unimplemented!() }

// call markers: the channel (in the state given) answered this call, with exactly these arguments, with this result
pub uninterp spec fn chan_signed_delayed_sweep(c: VxChanView, tx: Transaction, input: usize, n: u64, script: ScriptBuf, amount_sat: u64, path: VxPath, r: Result<Signature, Status>, after: VxChanView) -> bool;
pub uninterp spec fn chan_signed_cp_htlc_sweep(c: VxChanView, tx: Transaction, input: usize, point: PublicKey, script: ScriptBuf, amount_sat: u64, path: VxPath, r: Result<Signature, Status>, after: VxChanView) -> bool;
pub uninterp spec fn chan_signed_justice_sweep(c: VxChanView, tx: Transaction, input: usize, secret: SecretKey, script: ScriptBuf, amount_sat: u64, path: VxPath, r: Result<Signature, Status>, after: VxChanView) -> bool;
pub uninterp spec fn chan_signed_holder_htlc_tx(c: VxChanView, tx: Transaction, n: u64, script: ScriptBuf, amount_sat: u64, output_witscript: ScriptBuf, r: Result<TypedSignature, Status>, after: VxChanView) -> bool;
pub uninterp spec fn node_channel(n: VxNodeH, id: ChannelId, c: VxChanView) -> bool;

impl VxChan {
    pub uninterp spec fn view(&self) -> VxChanView;
    #[verifier::external_body]
    pub fn sign_delayed_sweep(&mut self, tx: &Transaction, input: usize, commitment_number: u64, redeemscript: &ScriptBuf, amount_sat: u64, wallet_path: &VxPath) -> (r: Result<Signature, Status>)
        ensures chan_signed_delayed_sweep(old(self)@, *tx, input, commitment_number, *redeemscript, amount_sat, *wallet_path, r, final(self)@) { unimplemented!() }
    #[verifier::external_body]
    pub fn sign_counterparty_htlc_sweep(&mut self, tx: &Transaction, input: usize, remote_per_commitment_point: &PublicKey, redeemscript: &ScriptBuf, htlc_amount_sat: u64, wallet_path: &VxPath) -> (r: Result<Signature, Status>)
        ensures chan_signed_cp_htlc_sweep(old(self)@, *tx, input, *remote_per_commitment_point, *redeemscript, htlc_amount_sat, *wallet_path, r, final(self)@) { unimplemented!() }
    #[verifier::external_body]
    pub fn sign_justice_sweep(&mut self, tx: &Transaction, input: usize, revocation_secret: &SecretKey, redeemscript: &ScriptBuf, amount_sat: u64, wallet_path: &VxPath) -> (r: Result<Signature, Status>)
        ensures chan_signed_justice_sweep(old(self)@, *tx, input, *revocation_secret, *redeemscript, amount_sat, *wallet_path, r, final(self)@) { unimplemented!() }
    #[verifier::external_body]
    pub fn sign_holder_htlc_tx(&mut self, tx: &Transaction, commitment_number: u64, opt_per_commitment_point: Option<PublicKey>, redeemscript: &ScriptBuf, htlc_amount_sat: u64, output_witscript: &ScriptBuf) -> (r: Result<TypedSignature, Status>)
        ensures opt_per_commitment_point.is_none() ==> chan_signed_holder_htlc_tx(old(self)@, *tx, commitment_number, *redeemscript, htlc_amount_sat, *output_witscript, r, final(self)@) { unimplemented!() }
}

pub open spec fn delayed_done(node: VxNodeH, id: ChannelId, tx: Transaction, input: usize, n: u64, script: ScriptBuf, amount: u64, path: VxPath, r: Result<Signature, Status>) -> bool {
    exists|c0: VxChanView, c1: VxChanView| node_channel(node, id, c0) && #[trigger] chan_signed_delayed_sweep(c0, tx, input, n, script, amount, path, r, c1)
}
pub open spec fn cp_htlc_done(node: VxNodeH, id: ChannelId, tx: Transaction, input: usize, point: PublicKey, script: ScriptBuf, amount: u64, path: VxPath, r: Result<Signature, Status>) -> bool {
    exists|c0: VxChanView, c1: VxChanView| node_channel(node, id, c0) && #[trigger] chan_signed_cp_htlc_sweep(c0, tx, input, point, script, amount, path, r, c1)
}
pub open spec fn justice_done(node: VxNodeH, id: ChannelId, tx: Transaction, input: usize, secret: SecretKey, script: ScriptBuf, amount: u64, path: VxPath, r: Result<Signature, Status>) -> bool {
    exists|c0: VxChanView, c1: VxChanView| node_channel(node, id, c0) && #[trigger] chan_signed_justice_sweep(c0, tx, input, secret, script, amount, path, r, c1)
}
pub open spec fn holder_htlc_done(node: VxNodeH, id: ChannelId, tx: Transaction, n: u64, script: ScriptBuf, amount: u64, ws: ScriptBuf, r: Result<TypedSignature, Status>) -> bool {
    exists|c0: VxChanView, c1: VxChanView| node_channel(node, id, c0) && #[trigger] chan_signed_holder_htlc_tx(c0, tx, n, script, amount, ws, r, c1)
}
impl VxNodeH {
    #[verifier::external_body]
    pub fn vx_with_channel_delayed(&self, channel_id: &ChannelId, tx: &Transaction, input: usize, commitment_number: u64, redeemscript: &ScriptBuf, htlc_amount: &Amount, wallet_paths: &Vec<VxPath>) -> (r: Result<Signature, Status>)
        requires wallet_paths@.len() > 0,
        ensures r.is_ok() ==> delayed_done(*self, *channel_id, *tx, input, commitment_number, *redeemscript, amount_sat(*htlc_amount), wallet_paths@[0], r) { unimplemented!() }
    #[verifier::external_body]
    pub fn vx_with_channel_cp_htlc(&self, channel_id: &ChannelId, tx: &Transaction, input: usize, remote_per_commitment_point: &PublicKey, redeemscript: &ScriptBuf, htlc_amount: &Amount, wallet_paths: &Vec<VxPath>) -> (r: Result<Signature, Status>)
        requires wallet_paths@.len() > 0,
        ensures r.is_ok() ==> cp_htlc_done(*self, *channel_id, *tx, input, *remote_per_commitment_point, *redeemscript, amount_sat(*htlc_amount), wallet_paths@[0], r) { unimplemented!() }
    #[verifier::external_body]
    pub fn vx_with_channel_justice(&self, channel_id: &ChannelId, tx: &Transaction, input: usize, revocation_secret: &SecretKey, redeemscript: &ScriptBuf, htlc_amount: &Amount, wallet_paths: &Vec<VxPath>) -> (r: Result<Signature, Status>)
        requires wallet_paths@.len() > 0,
        ensures r.is_ok() ==> justice_done(*self, *channel_id, *tx, input, *revocation_secret, *redeemscript, amount_sat(*htlc_amount), wallet_paths@[0], r) { unimplemented!() }
    #[verifier::external_body]
    pub fn vx_with_channel_holder_htlc(&self, channel_id: &ChannelId, tx: &Transaction, commitment_number: u64, redeemscript: &ScriptBuf, htlc_amount: &Amount, output_witscript: &ScriptBuf) -> (r: Result<TypedSignature, Status>)
        ensures r.is_ok() ==> holder_htlc_done(*self, *channel_id, *tx, commitment_number, *redeemscript, amount_sat(*htlc_amount), *output_witscript, r) { unimplemented!() }
}

// ------------------------------------------------ sign_delayed_payment_to_us
//@fn vls-protocol-signer/src/handler.rs :: - :: sign_delayed_payment_to_us closure=1 as=delayed_closure props=C09
//@sig fn delayed_closure(chan: &mut VxChan, tx: &Transaction, input: usize, commitment_number: u64, redeemscript: &ScriptBuf, htlc_amount: &Amount, wallet_paths: &Vec<VxPath>) -> (r: Result<Signature, Status>)
    requires wallet_paths@.len() > 0,
    ensures chan_signed_delayed_sweep(old(chan)@, *tx, input, commitment_number, *redeemscript, amount_sat(*htlc_amount), wallet_paths@[0], r, final(chan)@),   //[C09.handler.delayed-closure-one-call]
//@end
//@fn vls-protocol-signer/src/handler.rs :: - :: sign_delayed_payment_to_us props=C09
    requires psbt_output_paths(*psbt).len() > 0,        // a sweep has an output (the code indexes wallet_paths[0]: abort otherwise)
        (input as int) < psbt.inputs@.len(),             // the code indexes psbt.inputs[input]: abort otherwise
    ensures
        r.is_ok() ==> exists|sig: Signature| #[trigger] delayed_done(*node, *channel_id, *tx, input as usize, commitment_number, script_of_bytes(wscript.bytes()),
                psbt_input_value(*psbt, input as int), psbt_output_paths(*psbt)[0], Ok(sig))                     //[C09.handler.delayed-sweep-request-as-sent] [C09.handler.delayed-amount-is-the-utxo-of-the-signed-input]
            && r->Ok_0 == reply_sig_all(sig),
//@sub /(?s)node\.with_channel\(channel_id, \|chan\| \{.*?\n\s*\}\)\?/ => node.vx_with_channel_delayed(channel_id, &tx, input, commitment_number, &redeemscript, &htlc_amount, &wallet_paths)?
//@proof before /let sig = /
    proof { assert(amount_sat(htlc_amount) == psbt_input_value(*psbt, input as int)); }
//@end

// ------------------------------------------------ sign_remote_htlc_to_us
//@fn vls-protocol-signer/src/handler.rs :: - :: sign_remote_htlc_to_us closure=1 as=cp_htlc_closure props=C09
//@sig fn cp_htlc_closure(chan: &mut VxChan, tx: &Transaction, input: usize, remote_per_commitment_point: PublicKey, redeemscript: &ScriptBuf, htlc_amount: &Amount, wallet_paths: &Vec<VxPath>) -> (r: Result<Signature, Status>)
    requires wallet_paths@.len() > 0,
    ensures chan_signed_cp_htlc_sweep(old(chan)@, *tx, input, remote_per_commitment_point, *redeemscript, amount_sat(*htlc_amount), wallet_paths@[0], r, final(chan)@),   //[C09.handler.cp-htlc-closure-one-call]
//@end
//@fn vls-protocol-signer/src/handler.rs :: - :: sign_remote_htlc_to_us props=C09
    requires psbt_output_paths(*psbt).len() > 0, (input as int) < psbt.inputs@.len(),
    ensures
        r.is_ok() ==> exists|sig: Signature| #[trigger] cp_htlc_done(*node, *channel_id, *tx, input as usize, key_of_wire(*remote_per_commitment_point), script_of_bytes(wscript.bytes()),
                psbt_input_value(*psbt, input as int), psbt_output_paths(*psbt)[0], Ok(sig))                     //[C09.handler.cp-htlc-sweep-request-as-sent] [C09.handler.cp-htlc-amount-is-the-utxo-of-the-signed-input]
            && r->Ok_0 == reply_sig_all(sig),
//@sub /(?s)node\.with_channel\(channel_id, \|chan\| \{.*?\n\s*\}\)\?/ => node.vx_with_channel_cp_htlc(channel_id, &tx, input, &remote_per_commitment_point, &redeemscript, &htlc_amount, &wallet_paths)?
//@proof before /let sig = /
    proof { assert(amount_sat(htlc_amount) == psbt_input_value(*psbt, input as int)); }
//@end

// ------------------------------------------------ sign_penalty_to_us
//@fn vls-protocol-signer/src/handler.rs :: - :: sign_penalty_to_us closure=1 as=justice_closure props=C09
//@sig fn justice_closure(chan: &mut VxChan, tx: &Transaction, input: usize, revocation_secret: SecretKey, redeemscript: &ScriptBuf, htlc_amount: &Amount, wallet_paths: &Vec<VxPath>) -> (r: Result<Signature, Status>)
    requires wallet_paths@.len() > 0,
    ensures chan_signed_justice_sweep(old(chan)@, *tx, input, revocation_secret, *redeemscript, amount_sat(*htlc_amount), wallet_paths@[0], r, final(chan)@),   //[C09.handler.justice-closure-one-call]
//@end
//@fn vls-protocol-signer/src/handler.rs :: - :: sign_penalty_to_us props=C09
    requires psbt_output_paths(*psbt).len() > 0, (input as int) < psbt.inputs@.len(),
    ensures
        r.is_ok() ==> exists|sig: Signature| #[trigger] justice_done(*node, *channel_id, *tx, input as usize, secret_of_wire(*revocation_secret), script_of_bytes(wscript.bytes()),
                psbt_input_value(*psbt, input as int), psbt_output_paths(*psbt)[0], Ok(sig))                     //[C09.handler.justice-sweep-request-as-sent] [C09.handler.justice-amount-is-the-utxo-of-the-signed-input]
            && r->Ok_0 == reply_sig_all(sig),
//@sub /(?s)node\.with_channel\(&channel_id, \|chan\| \{.*?\n\s*\}\)\?/ => node.vx_with_channel_justice(channel_id, &tx, input, &revocation_secret, &redeemscript, &htlc_amount, &wallet_paths)?
//@proof before /let sig = /
    proof { assert(amount_sat(htlc_amount) == psbt_input_value(*psbt, input as int)); }
//@end

// ------------------------------------------------ sign_local_htlc_tx
//@fn vls-protocol-signer/src/handler.rs :: - :: sign_local_htlc_tx closure=1 as=holder_htlc_closure props=C09
//@sig fn holder_htlc_closure(chan: &mut VxChan, tx: &Transaction, commitment_number: u64, redeemscript: &ScriptBuf, htlc_amount: &Amount, output_witscript: &ScriptBuf) -> (r: Result<TypedSignature, Status>)
    ensures chan_signed_holder_htlc_tx(old(chan)@, *tx, commitment_number, *redeemscript, amount_sat(*htlc_amount), *output_witscript, r, final(chan)@),   //[C09.handler.holder-htlc-closure-one-call]
//@end
//@fn vls-protocol-signer/src/handler.rs :: - :: sign_local_htlc_tx props=C09
    requires (input as int) < psbt.inputs@.len(), psbt.outputs@.len() > 0,      // indexed by the code: abort otherwise
    ensures
        r.is_ok() ==> exists|sig: TypedSignature| #[trigger] holder_htlc_done(*node, *channel_id, *tx, commitment_number, script_of_bytes(wscript.bytes()),
                psbt_input_value(*psbt, input as int), psbt_output0_witscript(*psbt), Ok(sig))                   //[C09.handler.holder-htlc-request-as-sent]
            && r->Ok_0 == reply_typed_sig(sig),
//@sub /(?s)node\.with_channel\(channel_id, \|chan\| \{.*?\n\s*\}\)\?/ => node.vx_with_channel_holder_htlc(channel_id, &tx, commitment_number, &redeemscript, &htlc_amount, output_witscript)?
//@proof before /let sig = /
    proof { assert(amount_sat(htlc_amount) == psbt_input_value(*psbt, input as int)); assert(*output_witscript == psbt_output0_witscript(*psbt)); }
//@end

} // verus!
fn main() {}
