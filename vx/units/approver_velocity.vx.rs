//@unit approver_velocity
//@props C12
// Contracts on VelocityApprover (vls-protocol-signer/src/approver.rs): the approver that lets payments through
// automatically while its own velocity control accepts them and asks its delegate (a human, a rule) otherwise.
// From C12 ("with a velocity limit configured, the amounts approved within a window stay within the limit"): an invoice or
// keysend is approved WITHOUT the delegate only if the control accepted its amount at the clock's seconds and counted it
// (state after = the window step that VelocityControl::insert is proved equal to in unit velocity, so the window theorem of
// unit velocity_window applies to the automatic approvals); everything else is the delegate's explicit decision, and only
// such a decision clears the control.  Sequential mutex model (R11).
use vstd::prelude::*;
use vstd::std_specs::cmp::OrdSpec;
//@include prelude/core.rs
//@map /Arc<dyn Clock>/ => VxClock
//@map /Mutex<VelocityControl>/ => VxSeqMutex<VelocityControl>
//@map /let mut control = self\.control\.lock\(\)\.vx_expect\(\);/ =>
//@map /(?<![\w.])control\./ => self.control.val.
verus! {

//@@TAGS

pub struct VxSeqMutex<T> { pub val: T }
#[verifier::external_body] pub struct Invoice { _p: u8 }
#[verifier::external_body] pub struct Transaction { _p: u8 }
#[verifier::external_body] pub struct TxOut { _p: u8 }
pub struct PaymentHash(pub [u8; 32]);
impl Clone for PaymentHash { #[verifier::external_body] fn clone(&self) -> (r: Self) ensures r == *self { unimplemented!() } }
impl Copy for PaymentHash {}
#[verifier::external_body] pub struct VxDuration { _p: u8 }
#[verifier::external_body] pub struct VxClock { _p: u8 }
pub uninterp spec fn inv_amount(i: Invoice) -> u64;
impl Invoice {
    #[verifier::external_body] pub fn amount_milli_satoshis(&self) -> (r: u64) ensures r == inv_amount(*self) { unimplemented!() }
}
impl VxDuration {
    pub uninterp spec fn secs(&self) -> u64;
    #[verifier::external_body] pub fn as_secs(&self) -> (r: u64) ensures r == self.secs() { unimplemented!() }
}
// the rest of the time API a body may consult (declared so that such a body is decided): the invoice's own timestamp is the
// PAYEE's claim, not the signer's clock; core::cmp::max / min on durations (whole seconds modelled)
pub uninterp spec fn inv_timestamp_secs(i: Invoice) -> u64;
impl Invoice {
    #[verifier::external_body] pub fn duration_since_epoch(&self) -> (r: VxDuration) ensures r.secs() == inv_timestamp_secs(*self) { unimplemented!() }
}
#[verifier::external_body]
pub fn max(a: VxDuration, b: VxDuration) -> (r: VxDuration) ensures r.secs() == (if a.secs() >= b.secs() { a.secs() } else { b.secs() }) { unimplemented!() }
#[verifier::external_body]
pub fn min(a: VxDuration, b: VxDuration) -> (r: VxDuration) ensures r.secs() == (if a.secs() <= b.secs() { a.secs() } else { b.secs() }) { unimplemented!() }
impl VxClock {
    // the clock read of this request (one read per request in the code under contract)
    pub uninterp spec fn now_secs(&self) -> u64;
    #[verifier::external_body] pub fn now(&self) -> (r: VxDuration) ensures r.secs() == self.now_secs() { unimplemented!() }
}

//@type vls-core/src/util/velocity.rs :: VelocityControl
//@type vls-core/src/util/velocity.rs :: VelocityControlIntervalType
//@type vls-core/src/util/velocity.rs :: VelocityControlSpec
//@include frag/velocity_spec.rs

impl VelocityControl {
//@fn vls-core/src/util/velocity.rs :: impl VelocityControl :: insert mode=trusted
//@include frag/c/vc_insert.rs
//@end
//@fn vls-core/src/util/velocity.rs :: impl VelocityControl :: clear mode=trusted
//@include frag/c/vc_clear.rs
//@end
}

// the delegate's decisions are its own (outside the property): uninterpreted
pub trait Approve: Sized {
    spec fn says_invoice(&self, invoice: Invoice) -> bool;
    spec fn says_keysend(&self, payment_hash: PaymentHash, amount_msat: u64) -> bool;
    spec fn says_onchain(&self, tx: Transaction, prev_outs: Seq<TxOut>, unknown_indices: Seq<usize>) -> bool;
    fn approve_invoice(&self, invoice: &Invoice) -> (r: bool) ensures r == self.says_invoice(*invoice);
    fn approve_keysend(&self, payment_hash: PaymentHash, amount_msat: u64) -> (r: bool) ensures r == self.says_keysend(payment_hash, amount_msat);
    fn approve_onchain(&self, tx: &Transaction, prev_outs: &[TxOut], unknown_indices: &[usize]) -> (r: bool)
        ensures r == self.says_onchain(*tx, prev_outs@, unknown_indices@);
}

//@type vls-protocol-signer/src/approver.rs :: VelocityApprover

// what one request does to the approver's control: accepted and counted by the window step - approved without asking;
// otherwise the delegate decides, and only its yes clears the buckets
pub open spec fn auto_or_delegate(o: VelocityControl, f: VelocityControl, now: u64, amount: u64, delegate_yes: bool, r: bool) -> bool {
    if vc_accepts(vc_abs(o), now, amount) {
        r && vc_abs(f) == vc_step(vc_abs(o), now, amount)
    } else {
        r == delegate_yes
        && (if delegate_yes { f.buckets@ == zeros(o.buckets@.len()) && f.limit == o.limit && f.bucket_interval == o.bucket_interval }
            else { vc_abs(f) == vc_step(vc_abs(o), now, amount) })
    }
}

impl<A: Approve> VelocityApprover<A> {

//@fn vls-protocol-signer/src/approver.rs :: impl<A: Approve> Approve for VelocityApprover<A> :: approve_invoice props=C12
//@sigsub /&self/ => &mut self
    requires vc_wf(old(self).control.val), old(self).clock.now_secs() >= old(self).control.val.start_sec,
    ensures
        auto_or_delegate(old(self).control.val, final(self).control.val, old(self).clock.now_secs(), inv_amount(*invoice),
            old(self).delegate.says_invoice(*invoice), r),                                              //[C12.velocity-approver.invoice-auto-approval-is-counted]
        // an approval the delegate did not give is within the limit of the tracked window
        r && !old(self).delegate.says_invoice(*invoice) && old(self).control.val.limit < u64::MAX
            ==> vsum(final(self).control.val.buckets@) <= old(self).control.val.limit,                  //[C12.velocity-approver.invoice-auto-approval-within-limit]
        vc_wf(final(self).control.val), final(self).delegate == old(self).delegate, final(self).clock == old(self).clock,
//@end

//@fn vls-protocol-signer/src/approver.rs :: impl<A: Approve> Approve for VelocityApprover<A> :: approve_keysend props=C12
//@sigsub /&self/ => &mut self
    requires vc_wf(old(self).control.val), old(self).clock.now_secs() >= old(self).control.val.start_sec,
    ensures
        auto_or_delegate(old(self).control.val, final(self).control.val, old(self).clock.now_secs(), amount_msat,
            old(self).delegate.says_keysend(payment_hash, amount_msat), r),                             //[C12.velocity-approver.keysend-auto-approval-is-counted]
        r && !old(self).delegate.says_keysend(payment_hash, amount_msat) && old(self).control.val.limit < u64::MAX
            ==> vsum(final(self).control.val.buckets@) <= old(self).control.val.limit,                  //[C12.velocity-approver.keysend-auto-approval-within-limit]
        vc_wf(final(self).control.val), final(self).delegate == old(self).delegate, final(self).clock == old(self).clock,
//@end

//@fn vls-protocol-signer/src/approver.rs :: impl<A: Approve> Approve for VelocityApprover<A> :: approve_onchain props=C12
    ensures r == self.delegate.says_onchain(*tx, prev_outs@, unknown_indices@),      // on-chain spends are never auto-approved here
//@end

} // impl

} // verus!
fn main() {}
