//@unit velocity
//@props C12
// Contracts on vls-core/src/util/velocity.rs (VelocityControl), the window lemma of C12
// lives in lemmas/velocity_window.rs (included below) and talks about vc_step only.
use vstd::prelude::*;
use vstd::std_specs::cmp::OrdSpec;
use core::cmp::min;
//@include prelude/core.rs
verus! {

//@type vls-core/src/util/velocity.rs :: VelocityControl
//@type vls-core/src/util/velocity.rs :: VelocityControlIntervalType
//@type vls-core/src/util/velocity.rs :: VelocityControlSpec

// ---------------------------------------------------------------- spec side
// mathematical sum of a bucket vector
pub open spec fn vsum(s: Seq<u64>) -> nat
    decreases s.len()
{
    if s.len() == 0 { 0 } else { vsum(s.drop_last()) + s.last() as nat }
}

// saturating sum, as computed by `velocity()`
pub open spec fn sat(n: nat) -> u64 { if n > u64::MAX as nat { u64::MAX } else { n as u64 } }

pub open spec fn zeros(n: nat) -> Seq<u64> { Seq::new(n, |i: int| 0u64) }

// representation invariant
pub open spec fn vc_wf(vc: VelocityControl) -> bool {
    vc.bucket_interval > 0 && vc.buckets@.len() > 0
}

// abstract value of a control
pub struct VcAbs { pub start_sec: u64, pub bucket_interval: u32, pub buckets: Seq<u64>, pub limit: u64 }
pub open spec fn vc_abs(vc: VelocityControl) -> VcAbs {
    VcAbs { start_sec: vc.start_sec, bucket_interval: vc.bucket_interval, buckets: vc.buckets@, limit: vc.limit }
}
pub open spec fn abs_wf(vc: VcAbs) -> bool { vc.bucket_interval > 0 && vc.buckets.len() > 0 }

// The buckets after time advanced to `t`: `nshift` empty buckets are pushed in front,
// the oldest `nshift` fall out of the window.
pub open spec fn vc_nshift(vc: VcAbs, t: u64) -> nat {
    let d = ((t - vc.start_sec) / vc.bucket_interval as int) as nat;
    if d < vc.buckets.len() { d } else { vc.buckets.len() }
}
pub open spec fn vc_shifted(vc: VcAbs, t: u64) -> Seq<u64> {
    let n = vc_nshift(vc, t);
    zeros(n) + vc.buckets.take(vc.buckets.len() - n)
}
// acceptance rule taken from the property: the amount counted in the tracked interval plus
// the new amount must not exceed the limit
pub open spec fn vc_accepts(vc: VcAbs, t: u64, amt: u64) -> bool {
    sat(sat(vsum(vc_shifted(vc, t))) as nat + amt as nat) <= vc.limit
}
pub open spec fn vc_step(vc: VcAbs, t: u64, amt: u64) -> VcAbs {
    let sh = vc_shifted(vc, t);
    VcAbs {
        start_sec: (t - (t % vc.bucket_interval as u64)) as u64,
        bucket_interval: vc.bucket_interval,
        buckets: (if vc_accepts(vc, t, amt) { sh.update(0, sat(sh[0] as nat + amt as nat)) } else { sh }),
        limit: vc.limit,
    }
}

pub open spec fn spec_triple(spec: VelocityControlSpec) -> (u64, u32, usize) {
    match spec.interval_type {
        VelocityControlIntervalType::Hourly => (spec.limit_msat, 300u32, 12usize),
        VelocityControlIntervalType::Daily => (spec.limit_msat, 3600u32, 24usize),
        VelocityControlIntervalType::Unlimited => (u64::MAX, 300u32, 12usize),
    }
}
pub open spec fn spec_matches_spec(vc: VelocityControl, spec: VelocityControlSpec) -> bool {
    let t = spec_triple(spec);
    vc.limit == t.0 && vc.bucket_interval == t.1 && vc.buckets@.len() == t.2
}

pub proof fn lemma_vsum_push(s: Seq<u64>, x: u64)
    ensures vsum(s.push(x)) == vsum(s) + x as nat
{
    assert(s.push(x).drop_last() == s);
}
pub proof fn lemma_vsum_zeros(n: nat)
    ensures vsum(zeros(n)) == 0
    decreases n
{
    if n > 0 {
        assert(zeros(n).drop_last() == zeros((n - 1) as nat));
        lemma_vsum_zeros((n - 1) as nat);
    }
}
pub proof fn lemma_vsum_update(s: Seq<u64>, i: int, x: u64)
    requires 0 <= i < s.len()
    ensures vsum(s.update(i, x)) == vsum(s) - s[i] as nat + x as nat
    decreases s.len()
{
    if i == s.len() - 1 {
        assert(s.update(i, x).drop_last() == s.drop_last());
    } else {
        assert(s.update(i, x).drop_last() == s.drop_last().update(i, x));
        lemma_vsum_update(s.drop_last(), i, x);
    }
}

// ---------------------------------------------------------------- code side
impl VelocityControl {

//@fn vls-core/src/util/velocity.rs :: impl VelocityControl :: new_with_intervals props=C12
    ensures
        vc_wf(r), r.start_sec == 0, r.limit == limit_msat, r.bucket_interval == bucket_interval,  //[C12.new.shape]
        r.buckets@ == zeros(num_buckets as nat),                                               //[C12.new.empty]
//@end

//@fn vls-core/src/util/velocity.rs :: impl VelocityControl :: new_unlimited props=C12
    ensures
        vc_wf(r), r.start_sec == 0, r.limit == u64::MAX, r.bucket_interval == bucket_interval,
        r.buckets@ == zeros(num_buckets as nat),
//@end

//@fn vls-core/src/util/velocity.rs :: impl VelocityControl :: spec_to_triple props=C12
    ensures r == spec_triple(*spec), r.1 > 0, r.2 > 0,
//@end

//@fn vls-core/src/util/velocity.rs :: impl VelocityControl :: new props=C12
    ensures
        vc_wf(r), r.start_sec == 0, spec_matches_spec(r, spec),      //[C12.new.matches]
        r.buckets@ == zeros(spec_triple(spec).2 as nat),             //[C12.new.empty]
//@end

//@fn vls-core/src/util/velocity.rs :: impl VelocityControl :: spec_matches props=C12
    ensures r == spec_matches_spec(*self, *spec),                    //[C12.matches.exact]
//@end

//@fn vls-core/src/util/velocity.rs :: impl VelocityControl :: update_spec props=C12
    ensures
        // a control whose spec still matches keeps everything it has counted      [restart clause]
        spec_matches_spec(*old(self), *spec) ==> *final(self) == *old(self),       //[C12.update.keeps]
        !spec_matches_spec(*old(self), *spec) ==> (
            spec_matches_spec(*final(self), *spec) && final(self).start_sec == 0
            && final(self).buckets@ == zeros(spec_triple(*spec).2 as nat)),        //[C12.update.reset]
        vc_wf(*old(self)) ==> vc_wf(*final(self)),
//@end

//@fn vls-core/src/util/velocity.rs :: impl VelocityControl :: with_state props=C12
    ensures
        r.start_sec == state.0, r.buckets == state.1,                              //[C12.load.state]
        r.limit == self.limit, r.bucket_interval == self.bucket_interval,
//@end

//@fn vls-core/src/util/velocity.rs :: impl VelocityControl :: load_from_state props=C12
    ensures
        r.start_sec == state.0, r.buckets == state.1,                              //[C12.load.state]
        r.limit == spec_triple(spec).0, r.bucket_interval == spec_triple(spec).1,
//@end

//@fn vls-core/src/util/velocity.rs :: impl VelocityControl :: get_state props=C12
    ensures r.0 == self.start_sec, r.1@ == self.buckets@,                          //[C12.save.state]
//@end

//@fn vls-core/src/util/velocity.rs :: impl VelocityControl :: is_unlimited props=C12
    ensures r == (self.limit == u64::MAX),
//@end

//@fn vls-core/src/util/velocity.rs :: impl VelocityControl :: velocity props=C12
    ensures r == sat(vsum(self.buckets@)),                                         //[C12.velocity.sum]
//@loop 1 iter=it
        invariant sum == sat(vsum(self.buckets@.take(it.index@ as int))),
//@proof before /sum = sum\.saturating_add/
            proof {
                let s = self.buckets@.take(it.index@ as int + 1);
                assert(s.drop_last() == self.buckets@.take(it.index@ as int));
                assert(s.last() == *bucket);
            }
//@proof before /^\s*sum\s*$/
        proof { assert(self.buckets@.take(self.buckets@.len() as int) == self.buckets@); }
//@end

//@fn vls-core/src/util/velocity.rs :: impl VelocityControl :: insert props=C12,C10
    requires
        vc_wf(*old(self)),
        current_sec >= old(self).start_sec,          // property quantifier: non-decreasing timestamps
    ensures
        vc_abs(*final(self)) == vc_step(vc_abs(*old(self)), current_sec, velocity_msat),           //[C12.insert.step]
        r == vc_accepts(vc_abs(*old(self)), current_sec, velocity_msat),                   //[C12.insert.accept]
        // the headline bound: whatever is accepted keeps the tracked sum within the limit
        r && old(self).limit < u64::MAX ==> vsum(final(self).buckets@) <= old(self).limit,   //[C12.insert.bound]
        // a refused amount is not counted anywhere (C10: only time has advanced)
        !r ==> final(self).buckets@ == vc_shifted(vc_abs(*old(self)), current_sec),        //[C10.velocity.refused-not-counted]
        vc_wf(*final(self)),
//@loop 1 iter=it
        invariant
            self.buckets@ == zeros(it.index@ as nat) + old(self).buckets@.take(len - nshift),
            nshift <= len, len == old(self).buckets@.len(),
            it.snapshot.end == nshift,
            self.limit == old(self).limit, self.bucket_interval == old(self).bucket_interval,
            self.start_sec == old(self).start_sec,
//@proof before /self\.buckets\.insert\(0, 0\)/
            proof {
                let a = zeros(it.index@ as nat) + old(self).buckets@.take(len - nshift);
                assert(a.insert(0, 0u64) =~= zeros((it.index@ + 1) as nat) + old(self).buckets@.take(len - nshift));
            }
//@proof before /self\.start_sec = current_sec/
        proof {
            assert(current_sec % (self.bucket_interval as u64) <= current_sec) by {
                vstd::arithmetic::div_mod::lemma_mod_decreases(current_sec as nat, self.bucket_interval as nat);
            }
            assert(self.buckets@ =~= vc_shifted(vc_abs(*old(self)), current_sec));
        }
//@proof after /self\.buckets\.resize\(/
        proof {
            assert(self.buckets@ =~= zeros(0) + old(self).buckets@.take(len - nshift));
        }
//@proof before /if current_velocity\.saturating_add/
        proof {
            assert(self.buckets@ == vc_shifted(vc_abs(*old(self)), current_sec));
            let sh = self.buckets@;
            if sat(sat(vsum(sh)) as nat + velocity_msat as nat) <= self.limit && self.limit < u64::MAX {
                lemma_vsum_update(sh, 0, sat(sh[0] as nat + velocity_msat as nat));
                lemma_vsum_ge_elem(sh, 0);
            }
        }
//@end

// `clear` (iter_mut loop; manual-approval reset) is not under contract.

} // impl VelocityControl

pub proof fn lemma_vsum_ge_elem(s: Seq<u64>, i: int)
    requires 0 <= i < s.len()
    ensures vsum(s) >= s[i] as nat
    decreases s.len()
{
    if i < s.len() - 1 {
        lemma_vsum_ge_elem(s.drop_last(), i);
    }
}

//@include lemmas/velocity_window.rs

} // verus!
fn main() {}
