//@unit velocity
//@props C12
// Contracts on vls-core/src/util/velocity.rs (VelocityControl); the window lemma of C12 over histories
// lives in unit velocity_window (lemmas/velocity_window.rs) and talks about vc_step only.
use vstd::prelude::*;
use vstd::std_specs::cmp::OrdSpec;
use core::cmp::min;
//@include prelude/core.rs
verus! {

//@type vls-core/src/util/velocity.rs :: VelocityControl
//@type vls-core/src/util/velocity.rs :: VelocityControlIntervalType
//@type vls-core/src/util/velocity.rs :: VelocityControlSpec

//@include frag/velocity_spec.rs

// ---------------------------------------------------------------- code side
impl VelocityControl {

//@fn vls-core/src/util/velocity.rs :: impl VelocityControl :: new_with_intervals props=C12
    ensures
        vc_wf(r), r.start_sec == 0, r.limit == limit_msat, r.bucket_interval == bucket_interval,  //[C12.new.shape]
        r.buckets@ == zeros(num_buckets as nat),                                               //[C12.new.empty]
//@end

//@fn vls-core/src/util/velocity.rs :: impl VelocityControl :: new_unlimited props=C12
    ensures
        vc_wf(r), r.start_sec == 0, r.limit == u64::MAX, r.bucket_interval == bucket_interval,
        r.buckets@ == zeros(num_buckets as nat),
//@end

//@fn vls-core/src/util/velocity.rs :: impl VelocityControl :: spec_to_triple props=C12
    ensures r == spec_triple(*spec), r.1 > 0, r.2 > 0,
//@end

//@fn vls-core/src/util/velocity.rs :: impl VelocityControl :: new props=C12
    ensures
        vc_wf(r), r.start_sec == 0, spec_matches_spec(r, spec),      //[C12.new.matches]
        r.buckets@ == zeros(spec_triple(spec).2 as nat),             //[C12.new.empty]
//@end

//@fn vls-core/src/util/velocity.rs :: impl VelocityControl :: spec_matches props=C12
    ensures r == spec_matches_spec(*self, *spec),                    //[C12.matches.exact]
//@end

//@fn vls-core/src/util/velocity.rs :: impl VelocityControl :: update_spec props=C12
//@include frag/c/vc_update_spec.rs
//@end

//@fn vls-core/src/util/velocity.rs :: impl VelocityControl :: with_state props=C12
//@include frag/c/vc_with_state.rs
//@end

//@fn vls-core/src/util/velocity.rs :: impl VelocityControl :: load_from_state props=C12
//@include frag/c/vc_load_from_state.rs
//@end

//@fn vls-core/src/util/velocity.rs :: impl VelocityControl :: get_state props=C12
//@include frag/c/vc_get_state.rs
//@end

//@fn vls-core/src/util/velocity.rs :: impl VelocityControl :: is_unlimited props=C12
    ensures r == (self.limit == u64::MAX),
//@end

//@fn vls-core/src/util/velocity.rs :: impl VelocityControl :: velocity props=C12
    ensures r == sat(vsum(self.buckets@)),                                         //[C12.velocity.sum]
//@loop 1 iter=it
        invariant sum == sat(vsum(self.buckets@.take(it.index@ as int))),
//@proof before /sum = sum\.saturating_add/
            proof {
                let s = self.buckets@.take(it.index@ as int + 1);
                assert(s.drop_last() == self.buckets@.take(it.index@ as int));
                assert(s.last() == *bucket);
            }
//@proof before /^\s*sum\s*$/
        proof { assert(self.buckets@.take(self.buckets@.len() as int) == self.buckets@); }
//@end

//@fn vls-core/src/util/velocity.rs :: impl VelocityControl :: clear props=C12
//@include frag/c/vc_clear.rs
//@sub /(?s)for (\w+) in self\.buckets\.iter_mut\(\) \{\s*\*\1 = 0;\s*\}/ => let vx_n = self.buckets.len(); for vx_i in 0..vx_n { self.buckets.set(vx_i, 0); }
//@loop 1 iter=it
        invariant
            vx_n == old(self).buckets@.len(), self.buckets@.len() == vx_n, it.snapshot.end == vx_n,
            forall|j: int| 0 <= j < it.index@ ==> self.buckets@[j] == 0,
            self.start_sec == old(self).start_sec, self.bucket_interval == old(self).bucket_interval, self.limit == old(self).limit,
//@proof blockend /let vx_n = self\.buckets\.len\(\);/
        proof { assert(self.buckets@ =~= zeros(old(self).buckets@.len())); }
//@end

//@fn vls-core/src/util/velocity.rs :: impl VelocityControl :: insert props=C12,C10
//@include frag/c/vc_insert.rs
//@loop 1 iter=it
        invariant
            self.buckets@ == zeros(it.index@ as nat) + old(self).buckets@.take(len - nshift),
            nshift <= len, len == old(self).buckets@.len(),
            it.snapshot.end == nshift,
            self.limit == old(self).limit, self.bucket_interval == old(self).bucket_interval,
            self.start_sec == old(self).start_sec,
//@proof before /self\.buckets\.insert\(0, 0\)/
            proof {
                let a = zeros(it.index@ as nat) + old(self).buckets@.take(len - nshift);
                assert(a.insert(0, 0u64) =~= zeros((it.index@ + 1) as nat) + old(self).buckets@.take(len - nshift));
            }
//@proof before /self\.start_sec = current_sec/
        proof {
            assert(current_sec % (self.bucket_interval as u64) <= current_sec) by {
                vstd::arithmetic::div_mod::lemma_mod_decreases(current_sec as nat, self.bucket_interval as nat);
            }
            assert(self.buckets@ =~= vc_shifted(vc_abs(*old(self)), current_sec));
        }
//@proof after /self\.buckets\.resize\(/
        proof {
            assert(self.buckets@ =~= zeros(0) + old(self).buckets@.take(len - nshift));
        }
//@proof before /if current_velocity\.saturating_add/
        proof {
            assert(self.buckets@ == vc_shifted(vc_abs(*old(self)), current_sec));
            let sh = self.buckets@;
            if sat(sat(vsum(sh)) as nat + velocity_msat as nat) <= self.limit && self.limit < u64::MAX {
                lemma_vsum_update(sh, 0, sat(sh[0] as nat + velocity_msat as nat));
                lemma_vsum_ge_elem(sh, 0);
            }
        }
//@end

// `clear` (iter_mut loop; manual-approval reset) is not under contract.

} // impl VelocityControl

pub proof fn lemma_vsum_ge_elem(s: Seq<u64>, i: int)
    requires 0 <= i < s.len()
    ensures vsum(s) >= s[i] as nat
    decreases s.len()
{
    if i < s.len() - 1 {
        lemma_vsum_ge_elem(s.drop_last(), i);
    }
}

} // verus!
fn main() {}
