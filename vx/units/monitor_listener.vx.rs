//@unit monitor_listener
//@props C14
// The block scanner of the channel monitor (vls-core/src/monitor.rs: BlockDecodeState::add_change and the PushListener
// callbacks that turn the transactions of a block into the change list on_add_block_end / on_remove_block_end apply).
// The change algebra (unit monitor_changes) is proved abort-free only for changes that are APPLICABLE to the state they
// meet (fwd_applicable: an output can be marked spent only if the closing transaction recorded it).  Decided here: every
// change the scanner emits is applicable to its running copy of the state - so "processing a block never aborts" does not
// rest on a comment ("safe due to PushListener logic") - and what each callback emits is stated exactly.
// R7 exception (C14 "never aborts"): unwrap / assert stay proof obligations in these functions.
use vstd::prelude::*;
use vstd::std_specs::cmp::OrdSpec;
//@include prelude/core.rs
//@include prelude/deps.rs
//@include prelude/btc.rs
//@include prelude/chain.rs
//@map /Set<OutPoint>/ => VxOutPointSet
//@map /&'a mut BlockDecodeState/ => BlockDecodeState
//@map /&'a dyn CommitmentPointProvider/ => VxProvider
//@map /struct PushListener<'a>/ => struct PushListener
verus! {

#[verifier::external_body]
pub struct VxOutPointSet { _p: u8 }
impl Clone for VxOutPointSet { #[verifier::external_body] fn clone(&self) -> (r: Self) ensures r == *self { unimplemented!() } }

//@const vls-core/src/monitor.rs :: MIN_DEPTH
//@type vls-core/src/monitor.rs :: SecondLevelHTLCOutput derive=Clone
//@type vls-core/src/monitor.rs :: ClosingOutpoints derive=Clone
//@type vls-core/src/monitor.rs :: State derive=Clone
//@type vls-core/src/monitor.rs :: StateChange derive=Clone
//@type vls-core/src/monitor.rs :: BlockDecodeState derive=Clone

//@include frag/monitor_spec.rs


#[verifier::external_body] pub struct VxProvider { _p: u8 }
impl VxOutPointSet {
    pub uninterp spec fn view(&self) -> Set<OutPoint>;
    #[verifier::external_body]
    pub fn contains(&self, o: &OutPoint) -> (r: bool) ensures r == self@.contains(*o) { unimplemented!() }
}
impl LockTime { #[verifier::external_body] pub fn vx_zero() -> LockTime { unimplemented!() } }
#[verifier::external_body] pub struct VxSecpCtx { _p: u8 }
#[derive(Debug)] pub struct VxDbgErr;       // Status (Debug) in the result of get_spendable_htlc_indices
#[verifier::external_body] pub fn vx_secp_new() -> VxSecpCtx { unimplemented!() }
// what the channel says about a transaction that spends its funding outpoint (LDK decoding, channel state): uninterpreted
pub uninterp spec fn commitment_number_of(tx: Transaction, p: ChannelTransactionParameters) -> Option<u64>;
pub uninterp spec fn commitment_outputs_of(tx: Transaction, n: u64) -> (Option<u32>, Seq<u32>);
pub uninterp spec fn spendable_htlcs_of(tx: Transaction, n: u64) -> Seq<u32>;
impl VxProvider {
    pub uninterp spec fn params(&self) -> ChannelTransactionParameters;
    #[verifier::external_body] pub fn get_transaction_parameters(&self) -> (r: ChannelTransactionParameters) ensures r == self.params() { unimplemented!() }
    #[verifier::external_body] pub fn get_holder_commitment_point(&self, commitment_number: u64) -> PublicKey { unimplemented!() }
    #[verifier::external_body] pub fn get_counterparty_commitment_point(&self, commitment_number: u64) -> Option<PublicKey> { unimplemented!() }
    // answers for every decoded commitment transaction of this channel (the code relies on it: expect)
    #[verifier::external_body]
    pub fn get_spendable_htlc_indices(&self, tx: &Transaction, commitment_number: u64) -> (r: Result<Vec<u32>, VxDbgErr>)
        ensures r.is_ok(), r->Ok_0@ == spendable_htlcs_of(*tx, commitment_number) { unimplemented!() }
}
#[verifier::external_body]
pub fn decode_commitment_number(tx: &Transaction, params: &ChannelTransactionParameters) -> (r: Option<u64>)
    ensures r == commitment_number_of(*tx, *params) { unimplemented!() }
#[verifier::external_body]
pub fn decode_commitment_tx(tx: &Transaction, holder: &PublicKey, cp: &Option<PublicKey>, params: &ChannelTransactionParameters, secp: &VxSecpCtx) -> (r: (Option<u32>, Vec<u32>))
    ensures exists|n: u64| commitment_number_of(*tx, *params) == Some(n) && (r.0, r.1@) == commitment_outputs_of(*tx, n) { unimplemented!() }
// `funding_txids.iter().position(|i| *i == txid)`
pub uninterp spec fn txid_pos(v: Seq<Txid>, x: Txid) -> int;      // index of the first element equal to x (std `position`)
#[verifier::external_body]
pub fn vx_position_txid(v: &Vec<Txid>, x: Txid) -> (r: Option<usize>)
    ensures r.is_some() == v@.contains(x), r.is_some() ==> r->Some_0 < v@.len() && v@[r->Some_0 as int] == x && r->Some_0 as int == txid_pos(v@, x) { unimplemented!() }
// `spent_htlc_outputs.drain(..).map(|(spent_vout, input_index)| HTLCOutputSpent(spent_vout, OutPoint { txid, vout: input_index })).collect()`
pub open spec fn htlc_changes_of(rec: Seq<(u32, u32)>, txid: Txid) -> Seq<ChAbs> {
    rec.map_values(|p: (u32, u32)| ChAbs::HTLCOutputSpent(p.0, OutPoint { txid, vout: p.1 }))
}
#[verifier::external_body]
pub fn vx_htlc_changes(rec: &mut Vec<(u32, u32)>, txid: Txid) -> (r: Vec<StateChange>)
    ensures final(rec)@.len() == 0, chs_abs(r@) == htlc_changes_of(old(rec)@, txid), r@.len() == old(rec)@.len() { unimplemented!() }
#[verifier::external_body]
pub fn vx_vec1<T>(x: T) -> (r: Vec<T>) ensures r@ == seq![x] { vec![x] }
#[verifier::external_body]
pub fn vx_contains_u32(v: &Vec<u32>, x: u32) -> (r: bool) ensures r == v@.contains(x) { v.contains(&x) }
impl Clone for TxOut { #[verifier::external_body] fn clone(&self) -> (r: Self) ensures r == *self { unimplemented!() } }
impl Clone for TxIn { #[verifier::external_body] fn clone(&self) -> (r: Self) ensures r == *self { unimplemented!() } }
//@type vls-core/src/monitor.rs :: PushListener
//@const vls-core/src/monitor.rs :: MAX_COMMITMENT_OUTPUTS

// the running copy of the state keeps what the change algebra relies on (one spent flag per recorded HTLC output)
pub open spec fn scan_inv(s: State) -> bool {
    s.closing_outpoints.is_some() ==> co_wf(co_abs(s.closing_outpoints->Some_0))
}

pub open spec fn sec_has(s: Seq<SecondLevelHTLCOutput>, o: OutPoint) -> bool { exists|j: int| 0 <= j < s.len() && (#[trigger] s[j]).outpoint == o }
pub proof fn lemma_sec_has(s: Seq<SecondLevelHTLCOutput>, o: OutPoint) ensures sec_has(s, o) == second_contains(second_abs(s), o)
{
    if sec_has(s, o) {
        let j = choose|j: int| 0 <= j < s.len() && (#[trigger] s[j]).outpoint == o;
        assert(second_abs(s)[j].0 == o);
    }
    if second_contains(second_abs(s), o) {
        let i = choose|i: int| 0 <= i < second_abs(s).len() && (#[trigger] second_abs(s)[i]).0 == o;
        assert(s[i].outpoint == o);
    }
}
pub open spec fn input_emits(s: State, prev: OutPoint) -> Seq<ChAbs> {
    (if s.funding_inputs@.contains(prev) { seq![ChAbs::FundingInputSpent(prev)] } else { Seq::<ChAbs>::empty() })
    + (match s.closing_outpoints {
        Some(c) => {
            if c.txid == prev.txid && c.our_output.is_some() && c.our_output->Some_0.0 == prev.vout { seq![ChAbs::OurOutputSpent(prev.vout)] }
            else if c.txid == prev.txid && c.htlc_outputs@.contains(prev.vout) { Seq::<ChAbs>::empty() }
            else if second_contains(co_abs(c).second, prev) { seq![ChAbs::SecondLevelHTLCOutputSpent(prev)] }
            else { Seq::<ChAbs>::empty() }
        },
        None => Seq::<ChAbs>::empty(),
    })
}
pub open spec fn htlc_spend_record(s: State, prev: OutPoint, input_num: u32) -> Seq<(u32, u32)> {
    match s.closing_outpoints {
        Some(c) => if !(c.txid == prev.txid && c.our_output.is_some() && c.our_output->Some_0.0 == prev.vout)
            && c.txid == prev.txid && c.htlc_outputs@.contains(prev.vout) { seq![(prev.vout, input_num)] } else { Seq::<(u32, u32)>::empty() },
        None => Seq::<(u32, u32)>::empty(),
    }
}

// ---- from "each emitted change was applicable to the running state" to "the emitted list is an applicable chain" ----
// the scanner's running state is the start state with the emitted changes applied, and the list is an applicable chain from it
pub open spec fn scan_consistent(changes: Seq<StateChange>, state: State, a0: StAbs) -> bool {
    fwd_chain_ok(a0, chs_abs(changes)) && st_abs(state) == fold_fwd(a0, chs_abs(changes))
}
pub proof fn lemma_chain_push(a: StAbs, cs: Seq<ChAbs>, c: ChAbs)
    requires fwd_chain_ok(a, cs), fwd_applicable(fold_fwd(a, cs), c)
    ensures fwd_chain_ok(a, cs.push(c)), fold_fwd(a, cs.push(c)) == fwd_abs(fold_fwd(a, cs), c)
    decreases cs.len()
{
    reveal_with_fuel(fwd_chain_ok, 3);
    reveal_with_fuel(fold_fwd, 3);
    let p = cs.push(c);
    if cs.len() == 0 {
        assert(p.len() == 1 && p[0] == c);
        assert(p.drop_first() =~= Seq::<ChAbs>::empty());
        assert(fold_fwd(a, cs) == a);
        assert(fwd_chain_ok(fwd_abs(a, c), p.drop_first()));
        assert(fold_fwd(fwd_abs(a, c), p.drop_first()) == fwd_abs(a, c));
    } else {
        assert(p[0] == cs[0]);
        assert(p.drop_first() =~= cs.drop_first().push(c));
        assert(fold_fwd(a, cs) == fold_fwd(fwd_abs(a, cs[0]), cs.drop_first()));
        lemma_chain_push(fwd_abs(a, cs[0]), cs.drop_first(), c);
    }
}
// whether a change is applicable, and what it does to the recorded closing transaction, depends on that record only: a chain
// that is applicable from the scanner's copy is applicable from the monitor's state at the new height (on_add_block_end's
// precondition), which differs from the copy in height and saw_block only
pub proof fn lemma_chain_depends_on_closing_only(a: StAbs, b: StAbs, cs: Seq<ChAbs>)
    requires fwd_chain_ok(a, cs), a.closing == b.closing
    ensures fwd_chain_ok(b, cs), fold_fwd(a, cs).closing == fold_fwd(b, cs).closing
    decreases cs.len()
{
    if cs.len() > 0 {
        assert(fwd_abs(a, cs[0]).closing == fwd_abs(b, cs[0]).closing);
        lemma_chain_depends_on_closing_only(fwd_abs(a, cs[0]), fwd_abs(b, cs[0]), cs.drop_first());
    }
}
// C14 "never aborts", scanner side: a scan that started from a copy of the monitor's state hands on_add_block_end a list it
// can apply (its precondition fwd_chain_ok at the new height)
pub proof fn c14_scanned_block_is_applicable(d: BlockDecodeState, s: State)
    requires scan_consistent(d.changes@, d.state, st_abs(s))
    ensures fwd_chain_ok(StAbs { saw_block: true, height: (s.height + 1) as u32, ..st_abs(s) }, chs_abs(d.changes@))
{
    lemma_chain_depends_on_closing_only(st_abs(s), StAbs { saw_block: true, height: (s.height + 1) as u32, ..st_abs(s) }, chs_abs(d.changes@));
}

// every recorded HTLC spend names an HTLC output of the recorded closing transaction
pub open spec fn htlc_records_ok(s: State, rec: Seq<(u32, u32)>) -> bool {
    rec.len() > 0 ==> s.closing_outpoints.is_some() && forall|i: int| 0 <= i < rec.len() ==> s.closing_outpoints->Some_0.htlc_outputs@.contains((#[trigger] rec[i]).0)
}
pub open spec fn end_emits(d: BlockDecodeState, params: ChannelTransactionParameters, lock_time: LockTime, txid: Txid) -> Seq<ChAbs> {
    (if d.state.funding_txids@.contains(txid) {
        seq![ChAbs::FundingConfirmed(OutPoint { txid, vout: d.state.funding_vouts@[txid_pos(d.state.funding_txids@, txid)] })]
    } else { Seq::<ChAbs>::empty() })
    + (match d.closing_tx {
        Some(t) => {
            let tx = Transaction { lock_time, ..t };
            match commitment_number_of(tx, params) {
                Some(n) => seq![ChAbs::UnilateralCloseConfirmed(txid, t.input@[0].previous_output, commitment_outputs_of(tx, n).0,
                    (if commitment_outputs_of(tx, n).1.len() == 0 { Seq::<u32>::empty() } else { spendable_htlcs_of(tx, n) }))],
                None => seq![ChAbs::MutualCloseConfirmed(txid, t.input@[0].previous_output)],
            }
        },
        None => Seq::<ChAbs>::empty(),
    })
    + htlc_changes_of(d.spent_htlc_outputs@, txid)
}

impl State {
// the change algebra, under the contract proved in unit monitor_changes ([C14.forward.exact])
// read-only queries of the state, with the contracts proved in unit monitor_changes - declared so that a scanner that consults
// them is decided, not unknown
//@fn vls-core/src/monitor.rs :: impl State :: is_our_output_swept mode=trusted
    ensures r == abs_our_output_swept(st_abs(*self)),
//@end
//@fn vls-core/src/monitor.rs :: impl State :: is_closing_swept mode=trusted
    ensures r == abs_closing_swept(st_abs(*self)),
//@end
//@fn vls-core/src/monitor.rs :: impl State :: apply_forward_change mode=trusted
    requires fwd_applicable(st_abs(*old(self)), ch_abs(change)),
    ensures st_abs(*final(self)) == fwd_abs(st_abs(*old(self)), ch_abs(change)), st_frame(*final(self), *old(self)),
//@end
}

impl ClosingOutpoints {
//@fn vls-core/src/monitor.rs :: impl ClosingOutpoints :: includes_our_output props=C14 optclosures
    ensures r == (self.txid == outpoint.txid && self.our_output.is_some() && self.our_output->Some_0.0 == outpoint.vout),
//@end

//@fn vls-core/src/monitor.rs :: impl ClosingOutpoints :: includes_htlc_output props=C14
    ensures r == (self.txid == outpoint.txid && self.htlc_outputs@.contains(outpoint.vout)),
//@sub /self\.htlc_outputs\.contains\(&\(outpoint\.vout\)\)/ => vx_contains_u32(&self.htlc_outputs, outpoint.vout)
//@end

//@fn vls-core/src/monitor.rs :: impl ClosingOutpoints :: includes_second_level_htlc_output props=C14 optiters optclosures
    ensures r == sec_has(self.second_level_htlc_outputs@, *outpoint),
//@loop 1 iter=it kind=any
        invariant vx_recv1@ == self.second_level_htlc_outputs@, vx_acc1 == (exists|j: int| 0 <= j < it.index@ && (#[trigger] self.second_level_htlc_outputs@[j]).outpoint == *outpoint),
//@end
}
impl SecondLevelHTLCOutput {
//@fn vls-core/src/monitor.rs :: impl SecondLevelHTLCOutput :: matches_outpoint mode=trusted
    ensures r == (self.outpoint == *outpoint),
//@end
}

impl BlockDecodeState {

//@fn vls-core/src/monitor.rs :: impl BlockDecodeState :: new props=C14
    ensures
        // a scan starts from a copy of the monitor's state with nothing emitted: the empty list is an applicable chain from it
        r.changes@.len() == 0, r.state == *state, r.block_hash.is_none(), r.closing_tx.is_none(), r.spent_htlc_outputs@.len() == 0,
        scan_consistent(r.changes@, r.state, st_abs(*state)),                                         //[C14.scan.starts-from-a-copy-of-the-state]
//@end

//@fn vls-core/src/monitor.rs :: impl BlockDecodeState :: new_with_block_hash props=C14
    ensures
        r.changes@.len() == 0, r.state == *state, r.block_hash == Some(*block_hash), r.closing_tx.is_none(), r.spent_htlc_outputs@.len() == 0,
        scan_consistent(r.changes@, r.state, st_abs(*state)),                                         //[C14.scan.compact-block-scan-starts-from-a-copy]
//@end

//@fn vls-core/src/monitor.rs :: impl BlockDecodeState :: add_change props=C14 noabort
    requires fwd_applicable(st_abs(old(self).state), ch_abs(change)),                                //[C14.scan.only-applicable-changes-are-emitted]
    ensures
        final(self).changes@ == old(self).changes@.push(change),
        st_abs(final(self).state) == fwd_abs(st_abs(old(self).state), ch_abs(change)), st_frame(final(self).state, old(self).state),
        final(self).version == old(self).version, final(self).input_num == old(self).input_num, final(self).output_num == old(self).output_num,
        final(self).closing_tx == old(self).closing_tx, final(self).spent_htlc_outputs == old(self).spent_htlc_outputs,
        final(self).block_hash == old(self).block_hash,
        // the list stays an applicable chain from wherever the scan started
        forall|a0: StAbs| #[trigger] scan_consistent(old(self).changes@, old(self).state, a0) ==> scan_consistent(final(self).changes@, final(self).state, a0),      //[C14.scan.emitted-list-stays-an-applicable-chain]
//@proof before /self\.changes\.push\(change\.clone\(\)\);/
        let ghost vx_c = change;
//@proof blockend /self\.state\.apply_forward_change\(/
        proof {
            assert(self.changes@ == old(self).changes@.push(vx_c));
            assert(chs_abs(old(self).changes@.push(vx_c)) =~= chs_abs(old(self).changes@).push(ch_abs(vx_c)));
            assert forall|a0: StAbs| #[trigger] scan_consistent(old(self).changes@, old(self).state, a0) implies scan_consistent(self.changes@, self.state, a0) by {
                lemma_chain_push(a0, chs_abs(old(self).changes@), ch_abs(vx_c));
            }
        }
//@end

}

impl PushListener {

//@fn vls-core/src/monitor.rs :: impl<'a> PushListener<'a> :: is_not_ready_for_push props=C14 noabort
    requires self.saw_block == self.decode_state.block_hash.is_some(),
    ensures r == !self.saw_block,
//@end

//@fn vls-core/src/monitor.rs :: impl<'a> push_decoder::Listener for PushListener<'a> :: on_transaction_start props=C14 noabort
    requires old(self).saw_block == old(self).decode_state.block_hash.is_some(),
    ensures
        final(self).saw_block == old(self).saw_block, final(self).decode_state.block_hash == old(self).decode_state.block_hash,
        final(self).decode_state.changes == old(self).decode_state.changes, final(self).decode_state.state == old(self).decode_state.state,
        // a new transaction starts with no inputs and outputs counted and nothing gathered
        old(self).saw_block ==> final(self).decode_state.input_num == 0 && final(self).decode_state.output_num == 0
            && final(self).decode_state.closing_tx.is_none() && final(self).decode_state.spent_htlc_outputs@.len() == 0
            && final(self).decode_state.version == version,                                          //[C14.scan.transaction-start-resets-the-counters]
        !old(self).saw_block ==> final(self).decode_state == old(self).decode_state,
//@sub /let state = &mut self\.decode_state;/ => 
//@sub /\bstate\./ => self.decode_state.
//@end


//@fn vls-core/src/monitor.rs :: impl<'a> push_decoder::Listener for PushListener<'a> :: on_block_start props=C14 noabort
    requires old(self).decode_state.block_hash.is_none(),          // one block per decode state (asserted by the code)
    ensures
        final(self).saw_block, final(self).decode_state.block_hash == Some(hdr_hash(*header)),       //[C14.scan.block-start-records-the-block]
        final(self).decode_state.changes == old(self).decode_state.changes, final(self).decode_state.state == old(self).decode_state.state,
//@end

//@fn vls-core/src/monitor.rs :: impl<'a> push_decoder::Listener for PushListener<'a> :: on_transaction_output props=C14 noabort
    requires old(self).saw_block == old(self).decode_state.block_hash.is_some(),
        old(self).decode_state.output_num < MAX_COMMITMENT_OUTPUTS || old(self).decode_state.closing_tx.is_none() || !old(self).saw_block,   // more outputs than any commitment has: the code aborts
        old(self).decode_state.output_num < u32::MAX,
    ensures
        final(self).saw_block == old(self).saw_block, final(self).decode_state.block_hash == old(self).decode_state.block_hash,
        final(self).decode_state.changes == old(self).decode_state.changes, final(self).decode_state.state == old(self).decode_state.state,
        final(self).decode_state.input_num == old(self).decode_state.input_num, final(self).decode_state.spent_htlc_outputs == old(self).decode_state.spent_htlc_outputs,
        // every output is counted; the outputs of a closing transaction being gathered are collected in order
        old(self).saw_block ==> final(self).decode_state.output_num == old(self).decode_state.output_num + 1
            && (match old(self).decode_state.closing_tx {
                Some(t) => final(self).decode_state.closing_tx.is_some() && final(self).decode_state.closing_tx->Some_0.output@ == t.output@.push(*output)
                    && final(self).decode_state.closing_tx->Some_0.input == t.input && final(self).decode_state.closing_tx->Some_0.version == t.version,
                None => final(self).decode_state.closing_tx.is_none() }),                              //[C14.scan.outputs-counted-and-gathered]
        !old(self).saw_block ==> final(self).decode_state == old(self).decode_state,
//@sub /let decode_state = &mut self\.decode_state;/ => 
//@sub /\bdecode_state\./ => self.decode_state.
//@sub /if let Some\(closing_tx\) = &mut self\.decode_state\.closing_tx \{/ => if self.decode_state.closing_tx.is_some() { let mut closing_tx = self.decode_state.closing_tx.take().vx_expect();
//@proof blockend /closing_tx\.output\.push\(output\.clone\(\)\);/
            self.decode_state.closing_tx = Some(closing_tx);
//@end

//@fn vls-core/src/monitor.rs :: impl<'a> push_decoder::Listener for PushListener<'a> :: on_transaction_input props=C14 noabort
    requires old(self).saw_block == old(self).decode_state.block_hash.is_some(),
        old(self).decode_state.input_num < u32::MAX,
        // a transaction that spends the funding outpoint has that input first and no other (the code asserts it: both parties
        // must sign such a transaction and the signer signs only commitments and mutual closes, which have one input)
        old(self).saw_block ==> (old(self).decode_state.closing_tx.is_none()
            && (Some(input.previous_output) == old(self).decode_state.state.funding_outpoint ==> old(self).decode_state.input_num == 0)),
    ensures
        final(self).saw_block == old(self).saw_block, final(self).decode_state.block_hash == old(self).decode_state.block_hash,
        !old(self).saw_block ==> final(self).decode_state == old(self).decode_state,
        old(self).saw_block ==> final(self).decode_state.input_num == old(self).decode_state.input_num + 1
            && final(self).decode_state.output_num == old(self).decode_state.output_num && final(self).decode_state.version == old(self).decode_state.version,
        // what an input makes the scanner emit, in this order: a spent funding input (double-spend tracking), then at most one
        // of: our output of the recorded closing transaction spent / a second-level HTLC output spent.  Every emitted change
        // was applicable to the running state (precondition of add_change, checked at each call)
        old(self).saw_block ==> chs_abs(final(self).decode_state.changes@) == chs_abs(old(self).decode_state.changes@) + input_emits(old(self).decode_state.state, input.previous_output),   //[C14.scan.input-emits-exactly]
        // a spent HTLC output of the closing transaction is remembered with the index of the spending input
        old(self).saw_block ==> final(self).decode_state.spent_htlc_outputs@ == old(self).decode_state.spent_htlc_outputs@
            + htlc_spend_record(old(self).decode_state.state, input.previous_output, old(self).decode_state.input_num),   //[C14.scan.htlc-spend-recorded-with-input-index]
        // a transaction that spends the funding outpoint starts to be gathered as the closing transaction
        old(self).saw_block ==> final(self).decode_state.closing_tx.is_some() == (Some(input.previous_output) == old(self).decode_state.state.funding_outpoint),   //[C14.scan.spend-of-funding-outpoint-is-gathered]
        old(self).saw_block ==> scan_inv(old(self).decode_state.state) ==> scan_inv(final(self).decode_state.state),
        forall|a0: StAbs| #[trigger] scan_consistent(old(self).decode_state.changes@, old(self).decode_state.state, a0) ==> scan_consistent(final(self).decode_state.changes@, final(self).decode_state.state, a0),      //[C14.scan.input-keeps-the-list-an-applicable-chain]
//@sub /let decode_state = &mut self\.decode_state;/ => 
//@sub /\bdecode_state\b/ => self.decode_state
//@sub /LockTime::ZERO/ => LockTime::vx_zero()
//@sub /vec!\[input\.clone\(\)\]/ => vx_vec1(input.clone())
//@sub /vec!\[\]/ => Vec::new()
//@sub /if let Some\(ref c\) = self\.decode_state\.state\.closing_outpoints \{/ => if let Some(c) = &self.decode_state.state.closing_outpoints {
//@proof before /if c\.includes_our_output\(/
            proof { lemma_sec_has(c.second_level_htlc_outputs@, input.previous_output); }
//@end

// the closure that turns a recorded HTLC spend into a change (rewrite R26: its block is the real text, the signature - a
// closure has none - comes from here; `txid`, which it captures, is passed in): the second-level output a spent HTLC output
// creates is output `input_index` of the spending transaction
//@fn vls-core/src/monitor.rs :: impl<'a> push_decoder::Listener for PushListener<'a> :: on_transaction_end closure=1 as=htlc_change_of props=C14
//@sig fn htlc_change_of(spent_vout: u32, input_index: u32, txid: Txid) -> (r: StateChange)
    ensures ch_abs(r) == ChAbs::HTLCOutputSpent(spent_vout, OutPoint { txid, vout: input_index }),   //[C14.scan.second-level-outpoint-is-txid-and-input-index]
//@end

//@fn vls-core/src/monitor.rs :: impl<'a> push_decoder::Listener for PushListener<'a> :: on_transaction_end props=C14 noabort
    requires old(self).saw_block == old(self).decode_state.block_hash.is_some(),
        scan_inv(old(self).decode_state.state),
        old(self).decode_state.state.funding_vouts@.len() == old(self).decode_state.state.funding_txids@.len(),
        // a funding transaction has the funding output it was announced with (the code asserts it)
        forall|i: int| 0 <= i < old(self).decode_state.state.funding_txids@.len() && old(self).decode_state.state.funding_txids@[i] == txid
            ==> old(self).decode_state.state.funding_vouts@[i] < old(self).decode_state.output_num,
        // gathered by on_transaction_input: one input
        old(self).decode_state.closing_tx.is_some() ==> old(self).decode_state.closing_tx->Some_0.input@.len() == 1,
        // recorded by on_transaction_input: the spent HTLC outputs belong to the recorded closing transaction; a transaction that
        // spends the funding outpoint does not also spend outputs of an earlier close (the funding outpoint is spent once)
        htlc_records_ok(old(self).decode_state.state, old(self).decode_state.spent_htlc_outputs@),
        old(self).decode_state.closing_tx.is_some() ==> old(self).decode_state.spent_htlc_outputs@.len() == 0,
    ensures
        final(self).saw_block == old(self).saw_block, final(self).decode_state.block_hash == old(self).decode_state.block_hash,
        !old(self).saw_block ==> final(self).decode_state == old(self).decode_state,
        // what the end of a transaction makes the scanner emit, in this order: funding confirmed (if it is a funding
        // transaction), the close it is (unilateral with the outputs the channel decodes, else mutual) if it spent the funding
        // outpoint, then one HTLC-output-spent change per recorded spend, with the second-level outpoint (txid, input index)
        old(self).saw_block ==> chs_abs(final(self).decode_state.changes@) == chs_abs(old(self).decode_state.changes@)
            + end_emits(old(self).decode_state, old(self).commitment_point_provider.params(), lock_time, txid),     //[C14.scan.transaction-end-emits-exactly]
        old(self).saw_block ==> final(self).decode_state.closing_tx.is_none() && final(self).decode_state.spent_htlc_outputs@.len() == 0,
        old(self).saw_block ==> scan_inv(final(self).decode_state.state),
        forall|a0: StAbs| #[trigger] scan_consistent(old(self).decode_state.changes@, old(self).decode_state.state, a0) ==> scan_consistent(final(self).decode_state.changes@, final(self).decode_state.state, a0),      //[C14.scan.transaction-end-keeps-the-list-an-applicable-chain]
//@sub /let decode_state = &mut self\.decode_state;/ => 
//@sub /\bdecode_state\b/ => self.decode_state
//@sub /self\.decode_state\.state\.funding_txids\.iter\(\)\.position\(\|i\| \*i == txid\)/ => vx_position_txid(&self.decode_state.state.funding_txids, txid)
//@sub /let provider = self\.commitment_point_provider;/ => let provider = &self.commitment_point_provider;
//@sub /Secp256k1::new\(\)/ => vx_secp_new()
//@sub /(?s)let htlc_changes: Vec<StateChange> = self\.decode_state\s*\.spent_htlc_outputs\s*\.drain\(\.\.\)\s*\.map\(\|\(spent_vout, input_index\)\| \{.*?\}\)\s*\.collect\(\);/ => let htlc_changes: Vec<StateChange> = vx_htlc_changes(&mut self.decode_state.spent_htlc_outputs, txid);
//@proof before /if let Some\(ind\) = vx_position_txid/
        let ghost vx_chs0 = chs_abs(self.decode_state.changes@);
        let ghost vx_d0 = self.decode_state;
//@proof before /if let Some\(mut closing_tx\) = self\.decode_state\.closing_tx\.take\(\)/
        let ghost vx_chsf = chs_abs(self.decode_state.changes@);
        proof {
            assert(vx_chsf =~= vx_chs0 + (if vx_d0.state.funding_txids@.contains(txid) {
                seq![ChAbs::FundingConfirmed(OutPoint { txid, vout: vx_d0.state.funding_vouts@[txid_pos(vx_d0.state.funding_txids@, txid)] })] } else { Seq::<ChAbs>::empty() }));
        }
//@proof before /let htlc_changes: Vec<StateChange> = vx_htlc_changes/
        let ghost vx_rec0 = self.decode_state.spent_htlc_outputs@;
        let ghost vx_chs1 = chs_abs(self.decode_state.changes@);
//@proof before /^\s*for change in (it: )?htlc_changes/
        proof { assert(htlc_changes_of(vx_rec0, txid).take(0) =~= Seq::<ChAbs>::empty()); assert(vx_chs1 + Seq::<ChAbs>::empty() =~= vx_chs1); }
//@proof before /self\.decode_state\.add_change\(change\);/
            proof {
                let k = it.index@ as int;
                assert(chs_abs(htlc_changes@)[k] == ch_abs(change));
                assert(htlc_changes_of(vx_rec0, txid)[k] == ChAbs::HTLCOutputSpent(vx_rec0[k].0, OutPoint { txid, vout: vx_rec0[k].1 }));
                assert(htlc_changes_of(vx_rec0, txid).take(k + 1) =~= htlc_changes_of(vx_rec0, txid).take(k).push(ch_abs(change)));
            }
            let ghost vx_before = self.decode_state.changes@;
            let ghost vx_change = change;
//@proof after /self\.decode_state\.add_change\(change\);/
            proof {
                let k = it.index@ as int;
                assert(chs_abs(vx_before.push(vx_change)) =~= chs_abs(vx_before).push(ch_abs(vx_change)));
                assert(vx_chs1 + htlc_changes_of(vx_rec0, txid).take(k).push(ch_abs(vx_change)) =~= (vx_chs1 + htlc_changes_of(vx_rec0, txid).take(k)).push(ch_abs(vx_change)));
            }
//@loop 1 iter=it
            invariant
                self.saw_block == old(self).saw_block, self.decode_state.block_hash == old(self).decode_state.block_hash,
                self.decode_state.closing_tx.is_none(), self.decode_state.spent_htlc_outputs@.len() == 0,
                scan_inv(self.decode_state.state),
                chs_abs(htlc_changes@) == htlc_changes_of(vx_rec0, txid), htlc_changes@.len() == vx_rec0.len(),
                htlc_records_ok(self.decode_state.state, vx_rec0),
                chs_abs(self.decode_state.changes@) == vx_chs1 + htlc_changes_of(vx_rec0, txid).take(it.index@ as int),
                forall|a0: StAbs| #[trigger] scan_consistent(old(self).decode_state.changes@, old(self).decode_state.state, a0) ==> scan_consistent(self.decode_state.changes@, self.decode_state.state, a0),
//@end
}

} // verus!
fn main() {}
