//@unit hmac
//@props C17
// Contracts on the authentication of externally stored state: vls-core/src/persist/mod.rs
// (compute_shared_hmac, add_to_hmac, ExternalPersistHelper) and
// lightning-storage-server/lib/src/util.rs (compute_hmac, append_hmac_to_value, remove_and_check_hmac,
// compute_shared_hmac).  HMAC-SHA256 is an uninterpreted function of (key, message).
use vstd::prelude::*;
use vstd::std_specs::cmp::OrdSpec;
//@include prelude/core.rs
//@include prelude/hmac.rs
//@map /HmacEngine::<Sha256Hash>/ => HmacEngine
//@map /HmacEngine<Sha256Hash>/ => HmacEngine
//@map /key\.as_bytes\(\)/ => vx_str_bytes(key)
//@map /&dyn EntropySource/ => &VxEntropy
verus! {

#[verifier::external_body]
pub struct VxEntropy { _p: u8 }
impl VxEntropy {
    pub uninterp spec fn next_bytes(&self) -> [u8; 32];
    #[verifier::external_body]
    pub fn get_secure_random_bytes(&self) -> (r: [u8; 32]) ensures r == self.next_bytes() { unimplemented!() }
}

//@type vls-core/src/persist/mod.rs :: Mutations
//@type vls-core/src/persist/mod.rs :: ExternalPersistHelper derive=Clone
//@expectbody vls-core/src/persist/mod.rs :: impl Mutations :: iter :: self.0.iter()

//@include frag/hmac_spec.rs
pub open spec fn rec_of(e: (String, (u64, Vec<u8>))) -> Rec { Rec { key: str_bytes(e.0@), version: e.1.0, value: e.1.1@ } }
pub open spec fn recs_of(m: Mutations) -> Seq<Rec> { m.0@.map_values(|e: (String, (u64, Vec<u8>))| rec_of(e)) }

// ------------------------------------------------------------------ code side: vls-core
impl Mutations {
//@fn vls-core/src/persist/mod.rs :: impl Mutations :: new props=C17
    ensures r.0@.len() == 0,
//@end
//@fn vls-core/src/persist/mod.rs :: impl Mutations :: add props=C17
    ensures final(self).0@ == old(self).0@.push((key, (version, value))),
//@end
//@fn vls-core/src/persist/mod.rs :: impl Mutations :: inner props=C17
    ensures *r == self.0,
//@end
//@fn vls-core/src/persist/mod.rs :: impl Mutations :: is_empty props=C17
    ensures r == (self.0@.len() == 0),
//@end
//@fn vls-core/src/persist/mod.rs :: impl Mutations :: len props=C17
    ensures r == self.0@.len(),
//@end
}

//@fn vls-core/src/persist/mod.rs :: - :: add_to_hmac props=C17
    ensures
        final(hmac).key() == old(hmac).key(),
        final(hmac).msg() == old(hmac).msg() + rec_bytes(Rec { key: str_bytes(key@), version, value: value@ }),   //[C17.add-to-hmac.framing-shape?]
//@sub /&version\.to_be_bytes\(\)/ => &vx_be8_u64(version)
//@end

//@fn vls-core/src/persist/mod.rs :: - :: compute_shared_hmac props=C17
    ensures r@ == hmac_sha256(secret@, framing(secret@, nonce@, recs_of(*kvs))),                 //[C17.shared-hmac.framing-shape?]
//@sub /for \(key, \(version, value\)\) in kvs\.iter\(\)/ => for vx_e in kvs.0.iter()
//@sub /add_to_hmac\(key, \*version, value, &mut hmac_engine\);/ => add_to_hmac(&vx_e.0, vx_e.1.0, &vx_e.1.1, &mut hmac_engine);
//@loop 1 iter=it
        invariant
            hmac_engine.key() == secret@,
            hmac_engine.msg() == secret@ + nonce@ + recs_bytes(recs_of(*kvs).take(it.index@ as int)),
//@proof before /add_to_hmac\(&vx_e\.0/
        proof {
            let k = it.index@ as int;
            let rs = recs_of(*kvs);
            assert(rs.take(k + 1).drop_last() =~= rs.take(k));
            assert(rs.take(k + 1).last() == rec_of(kvs.0@[k]));
        }
//@proof before /Hmac::from_engine\(hmac_engine\)/
    proof { assert(recs_of(*kvs).take(recs_of(*kvs).len() as int) =~= recs_of(*kvs)); }
//@proof before /for vx_e in/
    proof { assert(recs_bytes(recs_of(*kvs).take(0)) =~= Seq::<u8>::empty()); assert(hmac_engine.msg() =~= secret@ + nonce@ + Seq::<u8>::empty()); }
//@end

impl ExternalPersistHelper {

//@fn vls-core/src/persist/mod.rs :: impl ExternalPersistHelper :: new_nonce props=C17
    ensures
        r == entropy_source.next_bytes(), final(self).last_nonce == r,                            //[C17.nonce.fresh-is-remembered]
        final(self).shared_secret == old(self).shared_secret,
//@end

//@fn vls-core/src/persist/mod.rs :: impl ExternalPersistHelper :: new props=C17
    ensures r.shared_secret == shared_secret, r.last_nonce@ == Seq::new(32, |i: int| 0u8),          //[C17.helper.new-keeps-the-secret]
//@end

//@fn vls-core/src/persist/mod.rs :: impl ExternalPersistHelper :: client_hmac props=C17
    ensures
        // the client tag is the shared MAC under the one-byte role nonce 0x01 ...
        r@ == hmac_sha256(self.shared_secret@, framing(self.shared_secret@, seq![1u8], recs_of(*kvs))),   //[C17.client-hmac.role-nonce-01]
// the role nonce is written in place (`&[0x01]`); another spelling of the one-byte slice makes this unit undecided
//@sub /&\[0x01\]/ => vx_role_nonce(0x01).as_slice()
//@end

//@fn vls-core/src/persist/mod.rs :: impl ExternalPersistHelper :: server_hmac props=C17
    ensures
        // ... and the server tag under 0x02: a tag made for one role is not the other role's tag of the same data
        r@ == hmac_sha256(self.shared_secret@, framing(self.shared_secret@, seq![2u8], recs_of(*kvs))),   //[C17.server-hmac.role-nonce-02]
//@sub /&\[0x02\]/ => vx_role_nonce(0x02).as_slice()
//@end

//@fn vls-core/src/persist/mod.rs :: impl ExternalPersistHelper :: check_hmac props=C17
    ensures
        // a read response is accepted only if it authenticates under the nonce of the last request
        r == (received_hmac@ == hmac_sha256(self.shared_secret@, framing(self.shared_secret@, self.last_nonce@, recs_of(*kvs)))),   //[C17.check-hmac.uses-last-nonce]
//@sub /received_hmac (!)?==? (hmac\b|compute_shared_hmac\(&self\.shared_secret, &self\.last_nonce, &?kvs\))/ => \1vx_vec_eq_arr(&received_hmac, &\2)
//@end

// client_hmac / server_hmac (one-byte role nonces 0x01 / 0x02 through the same compute_shared_hmac) are not under contract

} // impl

#[verifier::external_body]
pub fn vx_role_nonce(b: u8) -> (r: Vec<u8>) ensures r@ == seq![b] { vec![b] }

#[verifier::external_body]
pub fn vx_vec_eq_arr(a: &Vec<u8>, b: &[u8; 32]) -> (r: bool)
    ensures r == (a@ == b@)
{ a.as_slice() == &b[..] }

// ------------------------------------------------------------------ the property
// C17 asks that two different record lists never authenticate under the same tag.  With HMAC idealised as
// injective in its message this is injectivity of `framing` - which does NOT hold: keys are variable length
// and unframed.  The lemma below is a machine-checked witness of the defect (known finding, not repairable
// without changing the storage / wire format shared with the LSS server).
pub open spec fn collide(a: Seq<Rec>, b: Seq<Rec>) -> bool {
    a != b && (forall|s: Seq<u8>, n: Seq<u8>| #[trigger] framing(s, n, a) == framing(s, n, b))
}
pub proof fn c17_framing_collision()
    ensures exists|a: Seq<Rec>, b: Seq<Rec>| #[trigger] collide(a, b),
{
    // ("a", 0, [0,1])  vs  ("a\0", 0, [1])
    let ra = Rec { key: seq![0x61u8], version: 0, value: seq![0u8, 1u8] };
    let rb = Rec { key: seq![0x61u8, 0u8], version: 0, value: seq![1u8] };
    let a = seq![ra];
    let b = seq![rb];
    assert(be8(0) =~= seq![0u8, 0u8, 0u8, 0u8, 0u8, 0u8, 0u8, 0u8]) by {
        assert((0u64 >> 56) as u8 == 0 && (0u64 >> 48) as u8 == 0 && (0u64 >> 40) as u8 == 0 && (0u64 >> 32) as u8 == 0
            && (0u64 >> 24) as u8 == 0 && (0u64 >> 16) as u8 == 0 && (0u64 >> 8) as u8 == 0 && 0u64 as u8 == 0) by(bit_vector);
    }
    assert(rec_bytes(ra) =~= rec_bytes(rb));
    assert(a.drop_last() =~= Seq::<Rec>::empty() && b.drop_last() =~= Seq::<Rec>::empty());
    assert(recs_bytes(a) =~= recs_bytes(b)) by { reveal_with_fuel(recs_bytes, 3); }
    assert(a[0].key.len() != b[0].key.len());
    assert(a != b);
    assert forall|s: Seq<u8>, n: Seq<u8>| #[trigger] framing(s, n, a) == framing(s, n, b) by {}
    assert(collide(a, b));
}
// what does hold: for keys of equal length the framing of a single record is injective
pub proof fn c17_record_injective_for_equal_key_length(x: Rec, y: Rec)
    requires rec_bytes(x) == rec_bytes(y), x.key.len() == y.key.len(),
    ensures x.key == y.key && be8(x.version) == be8(y.version) && x.value == y.value,             //[C17.lemma.fixed-length-keys-ok]
{
    let kx = x.key; let ky = y.key;
    let bx = rec_bytes(x); let by_ = rec_bytes(y);
    assert(kx =~= bx.take(kx.len() as int));
    assert(ky =~= by_.take(ky.len() as int));
    assert(be8(x.version) =~= bx.subrange(kx.len() as int, (kx.len() + 8) as int));
    assert(be8(y.version) =~= by_.subrange(ky.len() as int, (ky.len() + 8) as int));
    assert(x.value =~= bx.skip((kx.len() + 8) as int));
    assert(y.value =~= by_.skip((ky.len() + 8) as int));
}

} // verus!
fn main() {}
