//@unit oracle
//@props C13
// Contract on policy::validator::validate_block (vls-core/src/policy/validator.rs): the TXOO proof must verify and
// attestations must come from at least half of the trusted oracles.
use vstd::prelude::*;
use vstd::std_specs::cmp::OrdSpec;
//@include prelude/core.rs
//@include prelude/deps.rs
//@include prelude/btc.rs
//@include prelude/chain.rs
//@map /Secp256k1::new\(\)/ => VxSecpAll::new()
verus! {

//@@TAGS

pub trait Validator: Sized {}

// ------------------------------------------------------------------ spec side (from the property)
pub open spec fn has_attestation(atts: Seq<(PublicKey, VxAttestation)>, k: PublicKey) -> bool {
    exists|i: int| 0 <= i < atts.len() && (#[trigger] atts[i]).0 == k
}
// number of trusted oracle keys (counted per entry of the trusted list) that have an attestation in the proof
pub open spec fn trusted_attesting(trusted: Seq<PublicKey>, atts: Seq<(PublicKey, VxAttestation)>) -> nat
    decreases trusted.len()
{
    if trusted.len() == 0 { 0 } else {
        trusted_attesting(trusted.drop_last(), atts) + (if has_attestation(atts, trusted.last()) { 1nat } else { 0nat })
    }
}
// "attestations from at least half of the trusted oracles"
pub open spec fn oracle_majority(trusted: Seq<PublicKey>, atts: Seq<(PublicKey, VxAttestation)>) -> bool {
    trusted_attesting(trusted, atts) >= (trusted.len() + 1) / 2
}

//@fn vls-core/src/policy/validator.rs :: - :: validate_block props=C13
    requires trusted_oracle_pubkeys@.len() < 0xffff_ffff,
    ensures
        r.is_ok() && vx_strict(T_policy_chain_validated) ==>
            txoo_proof_verifies(*proof, height, *header, (match external_block_hash { Some(h) => Some(*h), None => None }),
                *prev_filter_header, outpoint_watches@),                                                  //[C13.oracle.proof-verifies]
        r.is_ok() && vx_strict(T_policy_chain_validated) ==> oracle_majority(trusted_oracle_pubkeys@, proof.attestations@),   //[C13.oracle.majority]
// the iterator expression is desugared by hand into the two loops it denotes (R-manual):
//   trusted.iter().filter(|&k| proof.attestations.iter().find(|(a, _)| *a == *k).is_some()).count()
//@sub /(?s)let key_matches = trusted_oracle_pubkeys\s*\.iter\(\)\s*\.filter\(\|&trusted_key\| \{?\s*proof\.attestations\.iter\(\)\.(?:find\(\|\(a, _\)\| \*a == \*trusted_key\)\.is_some\(\)|any\(\|\(a, _\)\| \*a == \*trusted_key\))\s*\}?\)\s*\.count\(\);/ => let mut key_matches: usize = 0;\nfor trusted_key in trusted_oracle_pubkeys.iter() {\nlet mut vx_found = false;\nfor vx_att in proof.attestations.iter() {\nif vx_att.0 == *trusted_key { vx_found = true; }\n}\nif vx_found { key_matches += 1; }\n}
//@sub /(?s)Err\(VerifyError::InvalidAttestation\) => \{\s*for \(pubkey, attestation\) in &proof\.attestations \{\s*\}/ => Err(VerifyError::InvalidAttestation) => {
//@loop 1 iter=it
        invariant
            key_matches as nat == trusted_attesting(trusted_oracle_pubkeys@.take(it.index@ as int), proof.attestations@),
            key_matches <= it.index@, trusted_oracle_pubkeys@.len() < 0xffff_ffff,
            vx_strict(T_policy_chain_validated) ==> txoo_proof_verifies(*proof, height, *header, (match external_block_hash { Some(h) => Some(*h), None => None }),
                *prev_filter_header, outpoint_watches@),
            required_majority == (trusted_oracle_pubkeys@.len() + 1) / 2,
//@loop 2 iter=it2
        invariant
            vx_found == has_attestation(proof.attestations@.take(it2.index@ as int), *trusted_key),
//@proof before /if vx_att\.0 == \*trusted_key/
                proof {
                    let k = it2.index@ as int;
                    let a = proof.attestations@;
                    assert(*vx_att == a[k]);
                    if has_attestation(a.take(k), *trusted_key) {
                        let i = choose|i: int| 0 <= i < a.take(k).len() && (#[trigger] a.take(k)[i]).0 == *trusted_key;
                        assert(a.take(k + 1)[i].0 == *trusted_key);
                    }
                    if a[k].0 == *trusted_key { assert(a.take(k + 1)[k].0 == *trusted_key); }
                    if has_attestation(a.take(k + 1), *trusted_key) && a[k].0 != *trusted_key {
                        let i = choose|i: int| 0 <= i < a.take(k + 1).len() && (#[trigger] a.take(k + 1)[i]).0 == *trusted_key;
                        assert(i < k);
                        assert(a.take(k)[i].0 == *trusted_key);
                    }
                }
//@proof before /if vx_found \{ key_matches \+= 1; \}/
            proof {
                assert(proof.attestations@.take(proof.attestations@.len() as int) =~= proof.attestations@);
                let k = it.index@ as int;
                assert(trusted_oracle_pubkeys@.take(k + 1).drop_last() =~= trusted_oracle_pubkeys@.take(k));
                assert(trusted_oracle_pubkeys@.take(k + 1).last() == *trusted_key);
            }
//@proof before /if [^\n{]*key_matches\s*[<>=]/
    proof { assert(trusted_oracle_pubkeys@.take(trusted_oracle_pubkeys@.len() as int) =~= trusted_oracle_pubkeys@); }
//@end

} // verus!
fn main() {}
