//@unit node_allowlist_remove
//@props C10 C11
// Second half of unit node_allowlist (same model, frag/allowlist_model.rs): Node::remove_allowlist; update_allowlist is assumed
// here under the contract proved there.  Kept apart so that a change of the loop structure of one request leaves the
// others decided.
// Contracts on the allowlist requests of the node (vls-core/src/node.rs: Node::{add_allowlist, set_allowlist,
// remove_allowlist, update_allowlist}), under the sequential mutex model (R11).  From the properties:
//   C10 - a refused request (an entry that does not parse) leaves the allowlist and the stored list exactly as before;
//   C11 - when a request returns, the list in the store is the list of the running signer (so a restart sees the same
//         allowlist), given that it was so before the request.
// The set is the real `OrderedSet<Allowable>` seen as a mathematical set; an entry's text form and its parser are
// uninterpreted functions of (entry, network) / (text, network).
use vstd::prelude::*;
use vstd::std_specs::cmp::OrdSpec;
//@include prelude/core.rs
//@include prelude/deps.rs
//@map /\bString\b/ => VxStr
//@map /let mut state = self\.get_state\(\);/ =>
//@map /(?<![\w.])state\.allowlist\b/ => self.state.allowlist
//@map /self\.update_allowlist\(&state\)/ => self.update_allowlist()
//@map /\.map_err\(\|e\| invalid_argument\(vx_msg\(\)\)\)/ => .vx_or_invalid_argument()
verus! {

//@@TAGS
//@include frag/allowlist_model.rs
//@fn vls-core/src/node.rs :: impl Node :: update_allowlist mode=trusted
//@sigsub /&self, state: &MutexGuard<NodeState>/ => &mut self
//@include frag/c/node_update_allowlist.rs
//@end

//@fn vls-core/src/node.rs :: impl Node :: remove_allowlist props=C10,C11
//@sigsub /&self/ => &mut self
    requires allowlist_in_sync(*old(self)),
    ensures
        final(self).node_config == old(self).node_config,
        r.is_ok() == all_parse(removes@, old(self).node_config.network),                                 //[C10.allowlist.remove-refused-iff-unparsable]
        r.is_ok() ==> forall|a: Allowable| #[trigger] final(self).state.allowlist@.contains(a) <==> old(self).state.allowlist@.contains(a) && !in_parsed(removes@, old(self).node_config.network, removes@.len() as int, a),   //[C11.allowlist.remove-exact]
        r.is_err() ==> final(self).state.allowlist@ == old(self).state.allowlist@
            && final(self).persister.stored_allowlist() == old(self).persister.stored_allowlist(),       //[C10.allowlist.remove-err-frame]
        allowlist_in_sync(*final(self)),                                                                 //[C11.allowlist.remove-durable]
//@loop 1 iter=it
            invariant
                *self == *old(self), allowlist_in_sync(*old(self)), allowables@.len() == it.index@,
                forall|i: int| 0 <= i < it.index@ ==> #[trigger] allowable_parse(removes@[i], self.node_config.network) == Some(allowables@[i]),
//@proof before /for allowable in allowables\.iter\(\)/
        proof {
            assert forall|a: Allowable| allowables@.contains(a) <==> in_parsed(removes@, self.node_config.network, removes@.len() as int, a) by {
                if allowables@.contains(a) { let i = choose|i: int| 0 <= i < allowables@.len() && allowables@[i] == a; assert(allowable_parse(removes@[i], self.node_config.network) == Some(a)); }
                if in_parsed(removes@, self.node_config.network, removes@.len() as int, a) { let i = choose|i: int| 0 <= i < removes@.len() && #[trigger] allowable_parse(removes@[i], self.node_config.network) == Some(a); assert(allowables@[i] == a); }
            }
        }
//@loop 2 iter=it2
            invariant
                self.node_config == old(self).node_config, self.persister == old(self).persister, self.node_id == old(self).node_id,
                forall|a: Allowable| allowables@.contains(a) <==> in_parsed(removes@, self.node_config.network, removes@.len() as int, a),
                forall|a: Allowable| #[trigger] self.state.allowlist@.contains(a) <==> old(self).state.allowlist@.contains(a)
                    && !(exists|j: int| 0 <= j < it2.index@ && allowables@[j] == a),
//@proof before /self\.update_allowlist\(\)\?;/
        proof {
            assert forall|a: Allowable| #[trigger] self.state.allowlist@.contains(a) <==> old(self).state.allowlist@.contains(a)
                && !in_parsed(removes@, self.node_config.network, removes@.len() as int, a) by {
                if allowables@.contains(a) {
                    let j = choose|j: int| 0 <= j < allowables@.len() && allowables@[j] == a;
                    assert(0 <= j < allowables@.len() && allowables@[j] == a);
                }
                if exists|j: int| 0 <= j < allowables@.len() && allowables@[j] == a { assert(allowables@.contains(a)); }
            }
        }
//@end

} // impl

} // verus!
fn main() {}
