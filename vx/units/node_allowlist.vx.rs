//@unit node_allowlist
//@props C10 C11
// Contracts on the allowlist requests of the node (vls-core/src/node.rs: Node::{add_allowlist, set_allowlist,
// remove_allowlist, update_allowlist}), under the sequential mutex model (R11).  From the properties:
//   C10 - a refused request (an entry that does not parse) leaves the allowlist and the stored list exactly as before;
//   C11 - when a request returns, the list in the store is the list of the running signer (so a restart sees the same
//         allowlist), given that it was so before the request.
// The set is the real `OrderedSet<Allowable>` seen as a mathematical set; an entry's text form and its parser are
// uninterpreted functions of (entry, network) / (text, network).
use vstd::prelude::*;
use vstd::std_specs::cmp::OrdSpec;
//@include prelude/core.rs
//@include prelude/deps.rs
//@map /\bString\b/ => VxStr
//@map /let mut state = self\.get_state\(\);/ =>
//@map /(?<![\w.])state\.allowlist\b/ => self.state.allowlist
//@map /self\.update_allowlist\(&state\)/ => self.update_allowlist()
//@map /\.map_err\(\|e\| invalid_argument\(vx_msg\(\)\)\)/ => .vx_or_invalid_argument()
//@map /= allowables\.into_iter\(\)\.collect\(\);/ => = VxAllowSet::vx_collect(allowables);
verus! {

//@@TAGS
//@include frag/allowlist_model.rs
//@fn vls-core/src/node.rs :: impl Node :: update_allowlist props=C11
//@sigsub /&self, state: &MutexGuard<NodeState>/ => &mut self
//@include frag/c/node_update_allowlist.rs
//@sub /(?s)let wlvec = self\.state\.allowlist\.iter\(\)\.map\(\|a\| a\.to_string\(self\.network\(\)\)\)\.collect\(\);/ => let wlvec = self.state.allowlist.vx_texts(self.network());
//@sub /(?s)\.map_err\(\|\w+\| internal_error\("persist failed"\)\)/ => .vx_persist_failed()
//@end

//@fn vls-core/src/node.rs :: impl Node :: add_allowlist props=C10,C11
//@sigsub /&self/ => &mut self
    requires allowlist_in_sync(*old(self)),
    ensures
        final(self).node_config == old(self).node_config,
        // accepted exactly when every entry parses; the list then holds the old entries and the parsed ones
        r.is_ok() == all_parse(adds@, old(self).node_config.network),                                    //[C10.allowlist.add-refused-iff-unparsable]
        r.is_ok() ==> forall|a: Allowable| #[trigger] final(self).state.allowlist@.contains(a) <==> old(self).state.allowlist@.contains(a) || in_parsed(adds@, old(self).node_config.network, adds@.len() as int, a),   //[C11.allowlist.add-exact]
        // refused: the allowlist of the running signer and the stored list are what they were
        r.is_err() ==> final(self).state.allowlist@ == old(self).state.allowlist@
            && final(self).persister.stored_allowlist() == old(self).persister.stored_allowlist(),       //[C10.allowlist.add-err-frame]
        // whenever the request returns, the store holds the running signer's list
        allowlist_in_sync(*final(self)),                                                                 //[C11.allowlist.add-durable]
//@loop 1 iter=it
            invariant
                *self == *old(self), allowlist_in_sync(*old(self)), allowables@.len() == it.index@,
                forall|i: int| 0 <= i < it.index@ ==> #[trigger] allowable_parse(adds@[i], self.node_config.network) == Some(allowables@[i]),
//@proof before /self\.state\.allowlist\.extend\(/
        proof {
            assert forall|a: Allowable| allowables@.contains(a) <==> in_parsed(adds@, self.node_config.network, adds@.len() as int, a) by {
                if allowables@.contains(a) { let i = choose|i: int| 0 <= i < allowables@.len() && allowables@[i] == a; assert(allowable_parse(adds@[i], self.node_config.network) == Some(a)); }
                if in_parsed(adds@, self.node_config.network, adds@.len() as int, a) { let i = choose|i: int| 0 <= i < adds@.len() && #[trigger] allowable_parse(adds@[i], self.node_config.network) == Some(a); assert(allowables@[i] == a); }
            }
        }
//@end

//@fn vls-core/src/node.rs :: impl Node :: set_allowlist props=C10,C11
//@sigsub /&self/ => &mut self
    requires allowlist_in_sync(*old(self)),
    ensures
        final(self).node_config == old(self).node_config,
        r.is_ok() == all_parse(list@, old(self).node_config.network),                                    //[C10.allowlist.set-refused-iff-unparsable]
        r.is_ok() ==> forall|a: Allowable| #[trigger] final(self).state.allowlist@.contains(a) <==> in_parsed(list@, old(self).node_config.network, list@.len() as int, a),   //[C11.allowlist.set-exact]
        r.is_err() ==> final(self).state.allowlist@ == old(self).state.allowlist@
            && final(self).persister.stored_allowlist() == old(self).persister.stored_allowlist(),       //[C10.allowlist.set-err-frame]
        allowlist_in_sync(*final(self)),                                                                 //[C11.allowlist.set-durable]
//@loop 1 iter=it
            invariant
                *self == *old(self), allowlist_in_sync(*old(self)), allowables@.len() == it.index@,
                forall|i: int| 0 <= i < it.index@ ==> #[trigger] allowable_parse(list@[i], self.node_config.network) == Some(allowables@[i]),
//@proof before /self\.state\.allowlist = /
        proof {
            assert forall|a: Allowable| allowables@.contains(a) <==> in_parsed(list@, self.node_config.network, list@.len() as int, a) by {
                if allowables@.contains(a) { let i = choose|i: int| 0 <= i < allowables@.len() && allowables@[i] == a; assert(allowable_parse(list@[i], self.node_config.network) == Some(a)); }
                if in_parsed(list@, self.node_config.network, list@.len() as int, a) { let i = choose|i: int| 0 <= i < list@.len() && #[trigger] allowable_parse(list@[i], self.node_config.network) == Some(a); assert(allowables@[i] == a); }
            }
        }
//@end

} // impl

} // verus!
fn main() {}
