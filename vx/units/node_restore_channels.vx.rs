//@unit node_restore_channels
//@props C18 C11 C15 C05 C06 C13 C14 C10
// Contract on the channel part of a restart: Node::new_from_persistence (vls-core/src/node.rs).  For every persisted
// channel entry the channel registered again carries keys derived from the SAME id as at creation (its initial id
// `id0`, the key of the persisted entry), the persisted enforcement state and setup verbatim, and both of its ids.
use vstd::prelude::*;
use vstd::std_specs::cmp::OrdSpec;
//@include prelude/core.rs
//@include prelude/deps.rs
//@include prelude/btc.rs
//@include frag/enforcement_types.rs
//@include prelude/channel_deps.rs
//@include prelude/ldk_tx.rs
//@map /Weak<Node>/ => VxNodeRef
//@map /Secp256k1<All>/ => VxSecp
//@map /Secp256k1::new\(\)/ => VxSecp::new()
//@map /Arc<Node>/ => VxNode
//@map /Arc::downgrade\(&node\)/ => node.vx_downgrade()
//@map /Arc::new\(Mutex::new\(/ => vx_slot((
//@map /Arc::clone\(&slot\)/ => slot.clone()
//@map /Arc::new\(Self::new_full\(/ => (Self::vx_new_full(
//@map /Box::new\(ChannelCommitmentPointProvider::new\(/ => (VxProvider::new(
//@map /node\s*\.keys_manager\s*\./ => node.vx_keys_manager().
//@map /\bNode::channel_setup_to_channel_transaction_parameters/ => VxNode::channel_setup_to_channel_transaction_parameters
//@map /node\.channels\.lock\(\)\.vx_expect\(\)/ => node.vx_lock_channels()
//@map /services\s*\.persister\s*\.get_tracker\(/ => services.vx_get_tracker(
//@map /services\.persister\.clone\(\)/ => services.vx_persister()
//@map /services\.validator_factory\.clone\(\)/ => services.vx_validator_factory()
//@map /services\.trusted_oracle_pubkeys\.clone\(\)/ => services.vx_trusted_oracle_pubkeys()
//@map /self\s*\.keys_manager\s*\./ => self.vx_keys_manager().
//@map /self\.persister\s*\.new_channel\(/ => self.vx_persist_new_channel(
//@map /slot\.lock\(\)\.vx_expect\(\)\.clone\(\)/ => slot.vx_get()
//@map /Secp256k1::signing_only\(\)/ => VxSecp::signing_only()
//@map /\bkeys\.(funding_key|revocation_base_key|payment_key|delayed_payment_base_key|htlc_base_key|commitment_seed)\b/ => keys.vx_f_\1()
//@map /Arc<dyn Validator>/ => VxValidator
//@map /Weak::clone\(&stub\.node\)/ => stub.node.clone()
//@map /OrderedMap::from_iter\(listener_entries\.into_iter\(\)\.map\(\|e\| \(e\.0, e\.1\)\)\)/ => vx_listeners(listener_entries)
verus! {

//@@TAGS

//@include frag/enforcement_spec.rs
//@include frag/channel_types.rs
//@type vls-core/src/channel.rs :: ChannelSlot
//@type vls-core/src/persist/model.rs :: ChannelEntry

// ---- opaque carriers of what the restart path touches besides the channels (R5, R6, R11) ----
#[verifier::external_body] pub struct NodeConfig { _p: u8 }
#[verifier::external_body] pub struct NodeServices { _p: u8 }
#[verifier::external_body] pub struct NodeState { _p: u8 }
#[verifier::external_body] pub struct MyKeysManager { _p: u8 }
pub struct VxTracker { pub trusted_oracle_pubkeys: Vec<PublicKey>, pub rest: VxTrackerRest }
#[verifier::external_body] pub struct VxTrackerRest { _p: u8 }
#[verifier::external_body] pub struct VxPersist { _p: u8 }
#[verifier::external_body] pub struct VxValidatorFactory { _p: u8 }
#[verifier::external_body] pub struct VxListenerEntries { _p: u8 }
#[verifier::external_body] pub struct VxListeners { _p: u8 }
#[verifier::external_body] pub struct VxTrackerState { _p: u8 }
// tracker ListenSlot: the persisted txid watches, outpoint watches and outpoints already seen spent
pub struct VxTrackerSlot { pub txid_watches: VxTxidSet, pub watches: VxOutPointSet, pub seen: VxOutPointSet }
#[verifier::external_body] pub struct VxTxidSet { _p: u8 }
#[verifier::external_body] pub struct VxOutPointSet { _p: u8 }
#[verifier::external_body] pub struct VxProvider { _p: u8 }
#[verifier::external_body] pub struct VxMonitor { _p: u8 }
#[verifier::external_body] pub struct VxTrackerGuard { _p: u8 }

// Arc<Mutex<ChannelSlot>>: a shared cell; clones denote the same cell
#[verifier::external_body] pub struct VxSlot { _p: u8 }
impl VxSlot { pub uninterp spec fn view(&self) -> ChannelSlot; }
impl Clone for VxSlot { #[verifier::external_body] fn clone(&self) -> (r: Self) ensures r == *self { unimplemented!() } }
#[verifier::external_body]
pub fn vx_slot(s: ChannelSlot) -> (r: VxSlot) ensures r@ == s { unimplemented!() }
impl VxSlot {
    // slot.lock().unwrap().clone()
    #[verifier::external_body]
    pub fn vx_get(&self) -> (r: ChannelSlot) ensures r == self@ { unimplemented!() }
}
#[verifier::external_body] pub struct VxPolicy { _p: u8 }
impl VxPolicy { #[verifier::external_body] pub fn max_channels(&self) -> usize { unimplemented!() } }


// MutexGuard<OrderedMap<ChannelId, Arc<Mutex<ChannelSlot>>>> (sequential model, R11)
#[verifier::external_body] pub struct VxChannelsGuard { _p: u8 }
impl VxChannelsGuard {
    pub uninterp spec fn view(&self) -> Map<ChannelId, VxSlot>;
    #[verifier::external_body]
    pub fn len(&self) -> usize { unimplemented!() }
    #[verifier::external_body]
    pub fn get(&self, k: &ChannelId) -> (r: Option<&VxSlot>)
        ensures r.is_some() == self@.contains_key(*k), r.is_some() ==> *(r->Some_0) == self@[*k] { unimplemented!() }
    // representation invariant of the channel map, as a precondition of its only writer (C05: "a channel becomes usable
    // only with ..."): a READY channel enters the map only with a setup that validate_setup_channel accepted in this run
    // or that comes from the store (written by an earlier run under the same rule)
    #[verifier::external_body]
    pub fn insert(&mut self, k: ChannelId, v: VxSlot) -> (r: Option<VxSlot>)
        requires slot_admissible(v@),                                                               //[C05.channel-map.ready-only-with-validated-setup] [C10.channel-map.no-ready-slot-before-the-last-refusal-point]
        ensures final(self)@ == old(self)@.insert(k, v)
    { unimplemented!() }
}
pub uninterp spec fn setup_from_store(s: ChannelSetup) -> bool;
pub open spec fn slot_admissible(s: ChannelSlot) -> bool {
    s is Ready ==> setup_from_store(s->Ready_0.setup) || exists|p: DerivationPath| setup_validated(s->Ready_0.setup, p)
}

// LDK InMemorySigner: the six secrets it is built from are "the channel's keys" (basepoints, funding key and the
// per-commitment secrets / points are LDK's functions of these six values; lightning crate, TCB)
pub uninterp spec fn ldk_secrets(k: InMemorySigner) -> (SecretKey, SecretKey, SecretKey, SecretKey, SecretKey, Seq<u8>);
// the secrets MyKeysManager derives for a channel id: contract of get_channel_keys_with_id, proved in unit `keys`
// ([C18.km.secrets-function-of-seed-and-channel-id]: a function of style, seed, master key, seed base and the id)
pub uninterp spec fn km_secrets(km: MyKeysManager, id: ChannelId) -> (SecretKey, SecretKey, SecretKey, SecretKey, SecretKey, Seq<u8>);
pub uninterp spec fn km_native_or_ldk(km: MyKeysManager) -> bool;
impl MyKeysManager {
    #[verifier::external_body]
    pub fn get_channel_keys_with_id(&self, channel_id: ChannelId, channel_value_sat: u64) -> (r: InMemorySigner)
        ensures km_native_or_ldk(*self) ==> ldk_secrets(r) == km_secrets(*self, channel_id)
    { unimplemented!() }
    #[verifier::external_body]
    pub fn increment_channel_id_child_index(&self) -> u64 { unimplemented!() }
}
impl InMemorySigner {
    // lightning: installs the counterparty's parameters; the holder's secrets are untouched
    #[verifier::external_body]
    pub fn provide_channel_parameters(&mut self, p: &ChannelTransactionParameters)
        ensures ldk_secrets(*final(self)) == ldk_secrets(*old(self))
    { unimplemented!() }
    // (funding, revocation base, payment, delayed payment base, htlc base, commitment seed, value, keys id, entropy)
    #[verifier::external_body]
    pub fn new(secp: &VxSecp, funding_key: SecretKey, revocation_base_key: SecretKey, payment_key: SecretKey,
        delayed_payment_base_key: SecretKey, htlc_base_key: SecretKey, commitment_seed: [u8; 32], channel_value_satoshis: u64,
        channel_keys_id: [u8; 32], rand_bytes_unique_start: [u8; 32]) -> (r: InMemorySigner)
        ensures ldk_secrets(r) == (funding_key, revocation_base_key, payment_key, delayed_payment_base_key, htlc_base_key, commitment_seed@)
    { unimplemented!() }
    // the pub fields read by ChannelStub::channel_keys_with_channel_value
    #[verifier::external_body] pub fn vx_f_funding_key(&self) -> (r: SecretKey) ensures r == ldk_secrets(*self).0 { unimplemented!() }
    #[verifier::external_body] pub fn vx_f_revocation_base_key(&self) -> (r: SecretKey) ensures r == ldk_secrets(*self).1 { unimplemented!() }
    #[verifier::external_body] pub fn vx_f_payment_key(&self) -> (r: SecretKey) ensures r == ldk_secrets(*self).2 { unimplemented!() }
    #[verifier::external_body] pub fn vx_f_delayed_payment_base_key(&self) -> (r: SecretKey) ensures r == ldk_secrets(*self).3 { unimplemented!() }
    #[verifier::external_body] pub fn vx_f_htlc_base_key(&self) -> (r: SecretKey) ensures r == ldk_secrets(*self).4 { unimplemented!() }
    #[verifier::external_body] pub fn vx_f_commitment_seed(&self) -> (r: [u8; 32]) ensures r@ == ldk_secrets(*self).5 { unimplemented!() }
    #[verifier::external_body] pub fn channel_keys_id(&self) -> [u8; 32] { unimplemented!() }
    #[verifier::external_body] pub fn get_secure_random_bytes(&self) -> [u8; 32] { unimplemented!() }
}
impl VxValidatorFactory {
    #[verifier::external_body]
    pub fn make_validator(&self, n: VxNet, node_id: PublicKey, id: Option<ChannelId>) -> VxValidator { unimplemented!() }
}
#[verifier::external_body] pub struct VxNet { _p: u8 }
impl VxValidator {
    #[verifier::external_body] pub fn minimum_initial_balance(&self, to_holder_msat: u64) -> u64 { unimplemented!() }
    // SimpleValidator::validate_setup_channel is under contract in unit sv_setup (C05); here only its call matters
    // (`setup_validated` is an uninterpreted call marker: it can only be established by this call returning Ok)
    #[verifier::external_body]
    pub fn validate_setup_channel(&self, w: &VxNode, setup: &ChannelSetup, path: &DerivationPath) -> (r: Result<(), ValidationError>)
        ensures r.is_ok() ==> setup_validated(*setup, *path)
    { unimplemented!() }
}
pub uninterp spec fn setup_validated(setup: ChannelSetup, path: DerivationPath) -> bool;
impl EnforcementState {
    #[verifier::external_body] pub fn new(initial_holder_value: u64) -> EnforcementState { unimplemented!() }
}
#[verifier::external_body]
pub fn vx_setup_eq(a: &ChannelSetup, b: &ChannelSetup) -> (r: bool) ensures r == (*a == *b) { unimplemented!() }
impl VxSecp {
    #[verifier::external_body] pub fn new() -> VxSecp { unimplemented!() }
    #[verifier::external_body] pub fn signing_only() -> VxSecp { unimplemented!() }
}
impl VxProvider { #[verifier::external_body] pub fn new(s: VxSlot) -> VxProvider { unimplemented!() } }
impl ChainMonitorBase {
    // the monitor base is a function of the funding outpoint, the persisted monitor state and the channel id
    #[verifier::external_body]
    pub fn new_from_persistence(o: OutPoint, st: VxTrackerState, id: &ChannelId) -> (r: ChainMonitorBase)
        ensures r == monitor_base_of(o, st, *id)
    { unimplemented!() }
    #[verifier::external_body]
    pub fn new(o: OutPoint, height: u32, id: &ChannelId) -> ChainMonitorBase { unimplemented!() }
    #[verifier::external_body]
    pub fn add_funding_outpoint(&self, o: &OutPoint) { unimplemented!() }
    #[verifier::external_body]
    pub fn as_monitor(&self, p: VxProvider) -> (r: VxMonitor) ensures monitor_base(r) == *self { unimplemented!() }
}
impl VxTracker {
    #[verifier::external_body] pub fn set_allow_deep_reorgs(&mut self, b: bool)
        ensures final(self).trusted_oracle_pubkeys == old(self).trusted_oracle_pubkeys
    { unimplemented!() }
}
impl VxTrackerGuard {
    #[verifier::external_body] pub fn height(&self) -> u32 { unimplemented!() }
    // (`listener_restored` is an uninterpreted call marker: established only by this call with these arguments)
    #[verifier::external_body] pub fn restore_listener(&mut self, o: OutPoint, m: VxMonitor, s: VxTrackerSlot)
        ensures listener_restored(o, monitor_base(m), s)
    { unimplemented!() }
    // the registration path of NEW listeners (starts with empty `watches` / `seen`); restoring must not go through it
    #[verifier::external_body] pub fn add_listener(&mut self, m: VxMonitor, txid_watches: VxTxidSet) { unimplemented!() }
    #[verifier::external_body] pub fn add_listener_watches(&mut self, k: &OutPoint, watches: VxOutPointSet) { unimplemented!() }
    // tracker.add_listener(monitor, OrderedSet::from_iter(vec![txid]))
    #[verifier::external_body] pub fn vx_add_listener(&mut self, m: VxMonitor, txid: Txid) { unimplemented!() }
}
impl NodeConfig { #[verifier::external_body] pub fn vx_allow_deep_reorgs(&self) -> bool { unimplemented!() } }
impl NodeServices {
    #[verifier::external_body]
    pub fn vx_get_tracker(&self, node_id: PublicKey, f: VxValidatorFactory) -> Result<(VxTracker, VxListenerEntries), ()> { unimplemented!() }
    #[verifier::external_body] pub fn vx_persister(&self) -> VxPersist { unimplemented!() }
    #[verifier::external_body] pub fn vx_validator_factory(&self) -> VxValidatorFactory { unimplemented!() }
    pub uninterp spec fn oracles_spec(&self) -> Seq<PublicKey>;
    #[verifier::external_body] pub fn vx_trusted_oracle_pubkeys(&self) -> (r: Vec<PublicKey>) ensures r@ == self.oracles_spec() { unimplemented!() }
}
impl VxPersist {
    // Persist::get_node_channels: (initial channel id, entry) pairs as stored
    #[verifier::external_body]
    pub fn get_node_channels(&self, node_id: &PublicKey) -> (r: Result<Vec<(ChannelId, ChannelEntry)>, ()>)
        ensures r.is_ok() ==> forall|i: int| 0 <= i < r->Ok_0@.len() && (#[trigger] r->Ok_0@[i]).1.channel_setup.is_some() ==>
            setup_from_store(r->Ok_0@[i].1.channel_setup->Some_0)
    { unimplemented!() }
}
#[verifier::external_body]
pub fn vx_listeners(e: VxListenerEntries) -> VxListeners { unimplemented!() }
impl VxListeners {
    #[verifier::external_body] pub fn remove(&mut self, o: &OutPoint) -> (r: Option<(VxTrackerState, VxTrackerSlot)>)
        ensures r == listener_entry(*old(self), *o)
    { unimplemented!() }
    #[verifier::external_body] pub fn is_empty(&self) -> bool { unimplemented!() }
}
impl Channel {
    // Channel::restore_payments: re-registers in-flight payments with the node state (C06); reads the channel only
    // (`payments_restored` is an uninterpreted call marker)
    #[verifier::external_body] pub fn restore_payments(&self) ensures payments_restored(*self) { unimplemented!() }
}
pub uninterp spec fn payments_restored(c: Channel) -> bool;
pub uninterp spec fn monitor_base_of(o: OutPoint, st: VxTrackerState, id: ChannelId) -> ChainMonitorBase;
pub uninterp spec fn monitor_base(m: VxMonitor) -> ChainMonitorBase;
pub uninterp spec fn listener_restored(o: OutPoint, b: ChainMonitorBase, s: VxTrackerSlot) -> bool;
// the tracker listener entry persisted (with the node) under a funding outpoint
pub uninterp spec fn listener_entry(l: VxListeners, o: OutPoint) -> Option<(VxTrackerState, VxTrackerSlot)>;

impl ChannelStub {
//@fn vls-core/src/channel.rs :: impl ChannelStub :: channel_keys_with_channel_value props=C18
    ensures ldk_secrets(r) == ldk_secrets(self.keys),                                              //[C18.setup.same-secrets-after-setup]
//@end
}

impl VxNode {
    pub uninterp spec fn keys_manager(&self) -> MyKeysManager;
    pub uninterp spec fn tracker_oracles(&self) -> Seq<PublicKey>;      // trusted oracle keys of the node's chain tracker
    #[verifier::external_body]
    pub fn vx_keys_manager(&self) -> (r: &MyKeysManager) ensures *r == self.keys_manager() { unimplemented!() }
    #[verifier::external_body]
    pub fn vx_lock_channels(&self) -> VxChannelsGuard { unimplemented!() }
    pub uninterp spec fn channels(&self) -> Map<ChannelId, VxSlot>;     // contents of the channel map when the lock is taken
    #[verifier::external_body]
    pub fn get_channels(&self) -> (r: VxChannelsGuard) ensures r@ == self.channels() { unimplemented!() }
    #[verifier::external_body]
    pub fn policy(&self) -> VxPolicy { unimplemented!() }
    #[verifier::external_body]
    pub fn get_id(&self) -> PublicKey { unimplemented!() }
    // Persist::new_channel for a fresh stub
    #[verifier::external_body]
    pub fn vx_persist_new_channel(&self, node_id: &PublicKey, stub: &ChannelStub) -> Result<(), ()> { unimplemented!() }
    #[verifier::external_body] pub fn validator_factory(&self) -> VxValidatorFactory { unimplemented!() }
    #[verifier::external_body] pub fn network(&self) -> VxNet { unimplemented!() }
    // self.persister.update_tracker(..) / update_channel(..) with the error mapped to an internal error
    #[verifier::external_body] pub fn vx_persist_tracker(&self, t: &VxTrackerGuard) -> Result<(), Status> { unimplemented!() }
    #[verifier::external_body] pub fn vx_persist_channel(&self, c: &Channel) -> Result<(), Status> { unimplemented!() }
    #[verifier::external_body]
    pub fn vx_downgrade(&self) -> VxNodeRef { unimplemented!() }
    #[verifier::external_body]
    pub fn get_tracker(&self) -> VxTrackerGuard { unimplemented!() }
    #[verifier::external_body]
    pub fn make_keys_manager(c: &NodeConfig, seed: &[u8], s: &NodeServices) -> (MyKeysManager, PublicKey) { unimplemented!() }
    // Arc::new(Node::new_full(..)) (new_full is under contract in unit node_restore): the node holds the given keys manager
    #[verifier::external_body]
    pub fn vx_new_full(c: NodeConfig, s: NodeServices, st: NodeState, km: MyKeysManager, id: PublicKey, t: VxTracker) -> (r: VxNode)
        ensures r.keys_manager() == km, r.tracker_oracles() == t.trusted_oracle_pubkeys@
    { unimplemented!() }
    #[verifier::external_body]
    pub fn channel_setup_to_channel_transaction_parameters(setup: &ChannelSetup, k: &ChannelPublicKeys) -> ChannelTransactionParameters { unimplemented!() }

    // ------------------------------------------------------------------ spec side
    // what one persisted entry must look like once it is registered again
    pub open spec fn restored_slot(km: MyKeysManager, id0: ChannelId, e: ChannelEntry, s: ChannelSlot) -> bool {
        match e.channel_setup {
            None => s is Stub && s->Stub_0.id0 == id0 && (km_native_or_ldk(km) ==> ldk_secrets(s->Stub_0.keys) == km_secrets(km, id0)),
            Some(setup) => s is Ready
                && s->Ready_0.id0 == id0 && s->Ready_0.id == e.id
                && (km_native_or_ldk(km) ==> ldk_secrets(s->Ready_0.keys) == km_secrets(km, id0))
                && s->Ready_0.enforcement_state == e.enforcement_state
                && s->Ready_0.setup == setup,
        }
    }

//@fn vls-core/src/node.rs :: impl Node :: new_from_persistence props=C18,C11,C15,C06,C13,C14
//@sub /(?s)listeners\.remove\(&funding_outpoint\)\.unwrap_or_else\(\|\| \{.*?\}\)/ => listeners.remove(&funding_outpoint).vx_expect()
    ensures
        // C13: the restored tracker checks attestations against the oracles configured now
        r.tracker_oracles() == services.oracles_spec(),                                                //[C13.restore.oracles-from-config]
//@sub /node_config\.allow_deep_reorgs/ => node_config.vx_allow_deep_reorgs()
//@sub /(?s)for \(channel_id0, channel_entry\) in\s*persister\.get_node_channels\(&node_id\)\.vx_expect\(\)\s*\{/ => let ghost mut vx_done: int = 0; let vx_entries = persister.get_node_channels(&node_id).vx_expect(); for vx_entry in vx_entries { let (channel_id0, channel_entry) = vx_entry; let ghost vx_id0 = channel_id0; let ghost vx_e = channel_entry;
//@sub /monitor: monitor_base\.clone\(\),/ => monitor: monitor_base.clone(), persisted: Ghost(vx_e.enforcement_state),
//@loop 1 iter=it
            invariant
                // every stored channel record goes through one of the two registration blocks below (no record is skipped):
                // the blocks count, and the count keeps up with the records
                vx_done == it.index@,                                                                           //[C11.restore.no-stored-channel-skipped] [C15.restore.no-stored-channel-skipped]
                forall|i: int| 0 <= i < vx_entries@.len() && (#[trigger] vx_entries@[i]).1.channel_setup.is_some() ==>
                    setup_from_store(vx_entries@[i].1.channel_setup->Some_0),
//@proof blockend /let stub = ChannelStub \{/
                    proof {
                        // C18/C15: the stub registered again is the one created under id0, with the keys derived from id0
                        assert(channels@.contains_key(vx_id0) && channels@[vx_id0]@ == slot@);                                  //[C15.restore.stub-registered-under-id0]
                        assert(Self::restored_slot(node.keys_manager(), vx_id0, vx_e, slot@));                  //[C18.restore.stub-keys-from-id0]
                        assert(vx_e.id.is_some() ==> channels@.contains_key(vx_e.id->Some_0) && channels@[vx_e.id->Some_0]@ == slot@); //[C15.restore.stub-registered-under-permanent-id]
                        vx_done = vx_done + 1;
                    }
//@proof before /let \(tracker_state, tracker_slot\) =/
                    let ghost vx_l0 = listeners;
//@proof blockend /let channel_transaction_parameters =/
                    proof {
                        // C06: the channel's in-flight payments were registered again with the node's ledger
                        assert(payments_restored(slot@->Ready_0));                                              //[C06.restore.payments-reregistered]
                        // C11/C14: the channel's monitor is rebuilt from the listener entry persisted under its funding outpoint
                        // and registered again with the tracker for that outpoint
                        let ghost vx_fo = vx_e.channel_setup->Some_0.funding_outpoint;
                        let ghost vx_mid = match vx_e.id { Some(i) => i, None => vx_id0 };
                        assert(listener_entry(vx_l0, vx_fo).is_some() && ({
                            let ls = listener_entry(vx_l0, vx_fo)->Some_0;
                            slot@->Ready_0.monitor == monitor_base_of(vx_fo, ls.0, vx_mid)
                            && listener_restored(vx_fo, monitor_base_of(vx_fo, ls.0, vx_mid), ls.1)
                        }));                                                                                    //[C11.restore.monitor-from-persisted-listener] [C14.restore.monitor-from-persisted-listener]
                        assert(channels@.contains_key(vx_id0) && channels@[vx_id0]@ == slot@);                                  //[C15.restore.channel-registered-under-id0]
                        assert(vx_e.id.is_some() ==> channels@.contains_key(vx_e.id->Some_0) && channels@[vx_e.id->Some_0]@ == slot@); //[C15.restore.channel-registered-under-permanent-id]
                        // C18: same keys as at creation (derived from id0, not from the permanent id);
                        // C11: enforcement state and setup exactly as persisted; C15: both ids kept
                        assert(Self::restored_slot(node.keys_manager(), vx_id0, vx_e, slot@));                  //[C18.restore.channel-keys-from-id0] [C11.restore.channel-state-verbatim]
                        vx_done = vx_done + 1;
                    }
//@end

//@fn vls-core/src/node.rs :: impl Node :: find_or_create_channel props=C18,C15
    ensures
        r.is_ok() ==> r->Ok_0.0 == channel_id,
        // a freshly created stub carries the keys derived from its own (initial) id: the same derivation the
        // restart path uses (new_from_persistence above), whatever other channels exist
        r.is_ok() && self.channels().contains_key(channel_id) ==> r->Ok_0.1 == Some(self.channels()[channel_id]@),
        r.is_ok() && !self.channels().contains_key(channel_id) ==> r->Ok_0.1.is_some() && r->Ok_0.1->Some_0 is Stub
            && r->Ok_0.1->Some_0->Stub_0.id0 == channel_id
            && (km_native_or_ldk(self.keys_manager()) ==>
                ldk_secrets(r->Ok_0.1->Some_0->Stub_0.keys) == km_secrets(self.keys_manager(), channel_id)),             //[C18.create.stub-keys-from-id]
//@sub /Arc::downgrade\(arc_self\)/ => arc_self.vx_downgrade()
//@proof before /^\s*Ok\(\(channel_id(?:\.clone\(\))?, Some\(ChannelSlot::Stub\(stub\)\)\)\)\s*$/
        proof {
            // C15/C11: the new stub is in the channel map under its id when the lock is released
            assert(channels@.contains_key(channel_id) && channels@[channel_id]@ == ChannelSlot::Stub(stub));         //[C15.create.stub-registered]
        }
//@end

//@fn vls-core/src/node.rs :: impl Node :: setup_channel props=C18,C15,C05,C10 optclosures
    requires setup.channel_value_sat <= 0x40_0000_0000_0000,     // input range: `channel_value_sat * 1000` (msat) does not wrap
    ensures
        // the ready channel carries the stub's six secrets (the ones derived from id0 at creation), both ids and the setup
        r.is_ok() && self.channels().contains_key(channel_id0) && self.channels()[channel_id0]@ is Stub ==>
            ldk_secrets(r->Ok_0.keys) == ldk_secrets(self.channels()[channel_id0]@->Stub_0.keys)
            && r->Ok_0.id0 == channel_id0 && r->Ok_0.id == opt_channel_id && r->Ok_0.setup == setup,              //[C18.setup.keeps-stub-secrets] [C15.setup.keeps-both-ids]
        // C05: a stub becomes a usable channel only with a setup that passed validate_setup_channel (commitment type,
        // contest delays, shutdown script: unit sv_setup), for exactly this setup and shutdown key path
        r.is_ok() && self.channels().contains_key(channel_id0) && self.channels()[channel_id0]@ is Stub ==>
            setup_validated(setup, *holder_shutdown_key_path),                                                     //[C05.setup.validated-before-ready]
        // an already ready channel is handed back as it is (same setup required)
        r.is_ok() && self.channels().contains_key(channel_id0) && self.channels()[channel_id0]@ is Ready ==>
            r->Ok_0 == self.channels()[channel_id0]@->Ready_0,                                                     //[C18.setup.ready-channel-untouched]
        r.is_ok() ==> self.channels().contains_key(channel_id0),
//@proof before /let chan_arc = /
        let ghost vx_id0 = channel_id0;
//@proof before /^\s*Ok\(chan\)\s*$/
        proof {
            // C15: the ready channel replaces the stub under the node-assigned id AND is reachable under the permanent id
            // (state of the channel map when the lock is released)
            assert(channels@.contains_key(vx_id0) && channels@[vx_id0]@ == ChannelSlot::Ready(chan));               //[C15.setup.registered-under-id0]
            assert(opt_channel_id.is_some() ==> channels@.contains_key(opt_channel_id->Some_0)
                && channels@[opt_channel_id->Some_0]@ == ChannelSlot::Ready(chan));                                  //[C15.setup.registered-under-permanent-id]
        }
//@sub /let slot = arcobj\.lock\(\)\.vx_expect\(\);/ => let slot = arcobj.vx_get();
//@sub /match &\*slot \{/ => match &slot {
//@sub /if c\.setup != setup \{/ => if !vx_setup_eq(&c.setup, &setup) {
//@sub /monitor,\n(\s*)\}\n(\s*)\};/ => monitor, persisted: Ghost(enforcement_state),\n\1}\n\2};
//@sub /let commitment_point_provider = ChannelCommitmentPointProvider::new\(chan_arc\.clone\(\)\);/ => let commitment_point_provider = VxProvider::new(chan_arc.clone());
//@sub /(?s)tracker\.add_listener\(\s*chan\.monitor\.as_monitor\(Box::new\(commitment_point_provider\)\),\s*OrderedSet::from_iter\(vec!\[setup\.funding_outpoint\.txid\]\),\s*\);/ => tracker.vx_add_listener(chan.monitor.as_monitor(commitment_point_provider), setup.funding_outpoint.txid);
//@sub /(?s)self\.persister\s*\.update_tracker\(&self\.get_id\(\), &tracker\)\s*\.map_err\(\|\w+\| internal_error\([^)]*\)\)\?;/ => self.vx_persist_tracker(&tracker)?;
//@sub /(?s)self\.persister\s*\.update_channel\(&self\.get_id\(\), &chan\)\s*\.map_err\(\|\w+\| internal_error\([^)]*\)\)\?;/ => self.vx_persist_channel(&chan)?;
//@end

} // impl VxNode

} // verus!
fn main() {}
