//@unit node_prune
//@props C15 C11
// Contract on the place where channel state is actually discarded: Node::prune_channels (vls-core/src/node.rs), called on
// every heartbeat.  The decision "may this slot go?" lives in a closure (`filter_map(|(key, slot_arc)| { .. })`); rewrite R26
// lifts the closure's block, verbatim, into a function of its own so that it can carry a contract:
//   a READY channel is selected only if its monitor says is_done() (unit monitor_done proves what that means: the node asked
//   to forget it and a double-spend / mutual close / fully swept unilateral close is buried deep enough);
//   a stub only when it is older than the stub prune time.
// prune_channels then removes exactly selected keys, deletes them from the store, and leaves every other slot untouched.
use vstd::prelude::*;
use vstd::std_specs::cmp::OrdSpec;
//@include prelude/core.rs
//@include prelude/deps.rs
//@include prelude/btc.rs
//@include frag/enforcement_types.rs
//@include prelude/channel_deps.rs
//@include prelude/ldk_tx.rs
//@map /Weak<Node>/ => VxNodeRef
//@map /Secp256k1<All>/ => VxSecp
//@map /self\s*\.persister\s*\./ => self.vx_persister().
verus! {

//@@TAGS

//@include frag/enforcement_spec.rs
//@include frag/channel_types.rs
//@type vls-core/src/channel.rs :: ChannelSlot
//@const vls-core/src/node.rs :: CHANNEL_STUB_PRUNE_BLOCKS

pub enum Network { Bitcoin, Testnet, Signet, Regtest }

#[verifier::external_body] pub struct VxPersist { _p: u8 }

#[verifier::external_body] pub struct VxTracker { _p: u8 }          // ChainTracker<ChainMonitor>
#[verifier::external_body] pub struct VxSlot { _p: u8 }             // Arc<Mutex<ChannelSlot>>: a shared cell
impl VxSlot {
    pub uninterp spec fn view(&self) -> ChannelSlot;
    // slot.lock().unwrap() read-only
    #[verifier::external_body]
    pub fn vx_get(&self) -> (r: ChannelSlot) ensures r == self@ { unimplemented!() }
}


// what ChainMonitorBase::is_done() / State::is_done() answers (unit monitor_done: [C15.is-done.*])
pub uninterp spec fn monitor_done(m: ChainMonitorBase) -> bool;
impl ChainMonitorBase {
    #[verifier::external_body]
    pub fn is_done(&self) -> (r: bool) ensures r == monitor_done(*self) { unimplemented!() }
    #[verifier::external_body]
    pub fn vx_funding_outpoint(&self) -> OutPoint { unimplemented!() }
}
impl VxTracker {
    pub uninterp spec fn height_spec(&self) -> u32;
    #[verifier::external_body]
    pub fn height(&self) -> (r: u32) ensures r == self.height_spec() { unimplemented!() }
    #[verifier::external_body]
    pub fn remove_listener(&mut self, o: &OutPoint) ensures final(self).height_spec() == old(self).height_spec() { unimplemented!() }
}
// MutexGuard<OrderedMap<ChannelId, Arc<Mutex<ChannelSlot>>>> (sequential model, R11)
#[verifier::external_body] pub struct VxChannelsGuard { _p: u8 }
impl VxChannelsGuard {
    pub uninterp spec fn view(&self) -> Map<ChannelId, VxSlot>;
    #[verifier::external_body]
    pub fn remove(&mut self, k: &ChannelId) -> (r: Option<VxSlot>)
        ensures final(self)@ == old(self)@.remove(*k), r.is_some() == old(self)@.contains_key(*k), r.is_some() ==> r->Some_0 == old(self)@[*k]
    { unimplemented!() }
}
// (`channel_deleted` / `tracker_persisted` are uninterpreted call markers)
pub uninterp spec fn channel_deleted(id: ChannelId) -> bool;
pub uninterp spec fn tracker_persisted(t: VxTracker) -> bool;
impl VxPersist {
    #[verifier::external_body]
    pub fn delete_channel(&self, node_id: &PublicKey, id: &ChannelId) -> (r: Result<(), ()>) ensures r.is_ok() ==> channel_deleted(*id) { unimplemented!() }
    #[verifier::external_body]
    pub fn update_tracker(&self, node_id: &PublicKey, t: &VxTracker) -> (r: Result<(), ()>) ensures r.is_ok() ==> tracker_persisted(*t) { unimplemented!() }
}

pub open spec fn stub_prune_time(n: Network) -> int {
    if n == Network::Regtest { CHANNEL_STUB_PRUNE_BLOCKS + 100 } else { CHANNEL_STUB_PRUNE_BLOCKS as int }
}
// ------------------------------------------------------------------ spec side (from the property)
// a READY channel may be discarded only when its monitor reports done; a stub (never a ready channel) when it is stale
pub open spec fn may_prune(n: Network, height: u32, s: ChannelSlot) -> bool {
    match s {
        ChannelSlot::Ready(chan) => monitor_done(chan.monitor),
        ChannelSlot::Stub(stub) => (if height >= stub.blockheight { height - stub.blockheight } else { 0 }) > stub_prune_time(n),
    }
}

pub proof fn lemma_push_contains<T>(s: Seq<T>, a: T, k: T)
    ensures s.push(a).contains(k) <==> (s.contains(k) || a == k)
{
    if s.contains(k) {
        let j = choose|j: int| 0 <= j < s.len() && #[trigger] s[j] == k;
        assert(s.push(a)[j] == k);
    }
    if a == k { assert(s.push(a)[s.len() as int] == k); }
    if s.push(a).contains(k) {
        let j = choose|j: int| 0 <= j < s.push(a).len() && #[trigger] s.push(a)[j] == k;
        if j < s.len() { assert(s[j] == k); }
    }
}

impl VxNode {
    pub uninterp spec fn channels(&self) -> Map<ChannelId, VxSlot>;     // contents of the channel map when the lock is taken
    pub uninterp spec fn net_spec(&self) -> Network;
    #[verifier::external_body]
    pub fn get_channels(&self) -> (r: VxChannelsGuard) ensures r@ == self.channels() { unimplemented!() }
    #[verifier::external_body]
    pub fn network(&self) -> (r: Network) ensures r == self.net_spec() { unimplemented!() }
    #[verifier::external_body]
    pub fn get_id(&self) -> PublicKey { unimplemented!() }
    #[verifier::external_body]
    pub fn vx_persister(&self) -> VxPersist { unimplemented!() }
    // `channels.iter().filter_map(CLOSURE).collect()` with the lifted closure (std iterator semantics: the keys, each once,
    // for which the closure answers Some, and the closure returns the key it was given)
    #[verifier::external_body]
    pub fn vx_prune_candidates(&self, channels: &VxChannelsGuard, tracker: &VxTracker) -> (r: Vec<ChannelId>)
        ensures r@.no_duplicates(),
            forall|i: int| 0 <= i < r@.len() ==> channels@.contains_key(#[trigger] r@[i])
                && Self::prune_decision_spec(self.net_spec(), tracker.height_spec(), r@[i], channels@[r@[i]]@).is_some(),
    { unimplemented!() }

    pub open spec fn prune_decision_spec(n: Network, height: u32, key: ChannelId, s: ChannelSlot) -> Option<ChannelId> {
        if may_prune(n, height, s) { Some(key) } else { None }
    }

//@fn vls-core/src/node.rs :: impl Node :: prune_channels closure=1 as=prune_decision props=C15
//@sig fn prune_decision(&self, tracker: &VxTracker, key: &ChannelId, slot_arc: &VxSlot) -> (r: Option<ChannelId>)
    ensures r == Self::prune_decision_spec(self.net_spec(), tracker.height_spec(), *key, slot_arc@),       //[C15.prune.ready-only-when-done]
//@sub /let slot = slot_arc\.lock\(\)\.vx_expect\(\);/ => let slot = slot_arc.vx_get();
//@sub /match &\*slot \{/ => match &slot {
//@end

//@fn vls-core/src/node.rs :: impl Node :: prune_channels props=C15,C11
//@sigsub /tracker: &mut ChainTracker<ChainMonitor>/ => tracker: &mut VxTracker
//@sub /(?s)channels\s*\.iter\(\)\s*\.filter_map\(\|\(key, slot_arc\)\| \{.*?\n            \}\)\s*\.collect\(\);/ => self.vx_prune_candidates(&channels, tracker);
//@sub /match &\*slot\.lock\(\)\.vx_expect\(\) \{/ => match &slot.vx_get() {
//@sub /&chan\.monitor\.funding_outpoint/ => &chan.monitor.vx_funding_outpoint()
//@proof after /let keys_to_remove: Vec<_> = /
        let ghost vx_keys = keys_to_remove@;
//@loop 1 iter=it
            invariant
                vx_keys == keys_to_remove@, vx_keys.no_duplicates(),
                tracker.height_spec() == old(tracker).height_spec(),
                forall|i: int| 0 <= i < vx_keys.len() ==> self.channels().contains_key(#[trigger] vx_keys[i])
                    && may_prune(self.net_spec(), old(tracker).height_spec(), self.channels()[vx_keys[i]]@),
                // what is left is the map at lock time minus the keys handled so far
                forall|k: ChannelId| #[trigger] channels@.contains_key(k) <==> (self.channels().contains_key(k) && !vx_keys.take(it.index@ as int).contains(k)),
                forall|k: ChannelId| #[trigger] channels@.contains_key(k) ==> channels@[k] == self.channels()[k],
                forall|j: int| 0 <= j < it.index@ ==> channel_deleted(#[trigger] vx_keys[j]),
                forall|j: int| 0 <= j < it.index@ && self.channels()[#[trigger] vx_keys[j]]@ is Ready ==> tracker_modified,
//@proof blockend /let slot = channels\.remove\(&key\)\.vx_expect\(\);/
            proof {
                let i = it.index@ as int;
                assert(vx_keys.take(i + 1) =~= vx_keys.take(i).push(vx_keys[i]));
                assert forall|k: ChannelId| #[trigger] channels@.contains_key(k) <==> (self.channels().contains_key(k) && !vx_keys.take(i + 1).contains(k)) by {
                    lemma_push_contains(vx_keys.take(i), vx_keys[i], k);
                }
            }
//@proof blockend /let mut tracker_modified = false;/
        proof {
            // C11: when the listener of a pruned ready channel was taken out of the tracker, the tracker is stored again (a
            // restart that finds a listener without its channel aborts)
            assert(forall|j: int| 0 <= j < vx_keys.len() && self.channels()[#[trigger] vx_keys[j]]@ is Ready ==> tracker_persisted(*tracker));   //[C11.prune.tracker-stored-after-listener-removal]
        }
//@proof before /if tracker_modified \{/
        proof {
            assert(vx_keys.take(vx_keys.len() as int) =~= vx_keys);
            // C15: a slot that is gone was selected by the decision above - a READY channel only when its monitor is done -
            // and its record was deleted from the store (C11: the running signer and the store agree)
            assert forall|k: ChannelId| self.channels().contains_key(k) && !channels@.contains_key(k) implies     //[C15.prune.only-selected-slots-removed] [C11.prune.removal-is-persisted]
                may_prune(self.net_spec(), old(tracker).height_spec(), #[trigger] self.channels()[k]@) && channel_deleted(k) by {
                let j = choose|j: int| 0 <= j < vx_keys.len() && vx_keys[j] == k;
                assert(vx_keys[j] == k);
            }
            // every other slot is untouched
            assert forall|k: ChannelId| #[trigger] channels@.contains_key(k) implies                             //[C15.prune.other-slots-untouched]
                self.channels().contains_key(k) && channels@[k] == self.channels()[k] by { }
        }
//@end

} // impl VxNode

} // verus!
fn main() {}
