//@unit kvv_redb
//@props C16 C10
// Contracts on the redb-backed key-version-value store (vls-persist/src/kvv/redb.rs) under the sequential mutex model
// and a transactional model of the redb database (one table: key -> 8-byte big-endian version ++ value; a write
// transaction works on a private copy that `commit` installs and `abort` / drop discards).
use vstd::prelude::*;
use vstd::std_specs::cmp::OrdSpec;
//@include prelude/core.rs
//@include prelude/seqmutex.rs
//@map /Mutex<BTreeMap<String, u64>>/ => VxSeqMutex<VxVerMap>
//@map /key\.to_string\(\)/ => vx_to_string(key)
//@map /BTreeMap<String, u64>/ => VxVerMap
//@map /BTreeMap::new\(\)/ => VxVerMap::new()
//@map /let (mut )?versions = self\.versions\.lock\(\)\.vx_expect\(\);/ =>
//@map /(?<![\w.])versions\./ => self.versions.val.
//@map /\bSignerId\b/ => [u8; 16]
//@map /&version\.to_be_bytes\(\)/ => &vx_be8_u64(version)
verus! {

//@include frag/redb_model.rs

//@include frag/str_order.rs
impl Database {
    // begin_read + open_table(TABLE) + range(from..): the committed records whose key is not below `from`, ascending (redb)
    #[verifier::external_body]
    pub fn vx_range_from(&self, from: &str) -> (r: Vec<(String, Vec<u8>)>)
        ensures
            forall|i: int| 0 <= i < r@.len() ==> self@.dom().contains((#[trigger] r@[i]).0@) && r@[i].1@ == self@[r@[i].0@] && str_le(from@, r@[i].0@),
            forall|i: int, j: int| 0 <= i < j < r@.len() ==> str_lt((#[trigger] r@[i]).0@, (#[trigger] r@[j]).0@),
            forall|k: Seq<char>| #[trigger] self@.dom().contains(k) && str_le(from@, k) ==> exists|i: int| 0 <= i < r@.len() && (#[trigger] r@[i]).0@ == k,
    { unimplemented!() }
}
#[verifier::external_body]
pub fn vx_copied(o: Option<&u64>) -> (r: Option<u64>) ensures r == (match o { Some(v) => Some(*v), None => None }) { o.copied() }
pub struct VxIter(pub Vec<KVV>);
// what a prefix read must return: exactly the stored records whose key starts with the prefix, each once, with the
// indexed version and the bytes stored behind it
pub open spec fn prefix_read_ok(s: RedbKVVStore, prefix: Seq<char>, out: Seq<KVV>) -> bool {
    &&& forall|i: int| 0 <= i < out.len() ==> s.db@.dom().contains((#[trigger] out[i]).0@) && is_prefix(prefix, out[i].0@)
            && out[i].1.0 == s.versions.val@[out[i].0@] && out[i].1.1@ == s.db@[out[i].0@].skip(8)
    &&& forall|i: int, j: int| 0 <= i < j < out.len() ==> (#[trigger] out[i]).0@ != (#[trigger] out[j]).0@
    &&& forall|k: Seq<char>| #[trigger] s.db@.dom().contains(k) && is_prefix(prefix, k) ==> exists|i: int| 0 <= i < out.len() && (#[trigger] out[i]).0@ == k
}
// the plain write: the next version of the key (0 for a new key)
pub open spec fn next_version(s: RedbKVVStore, k: Seq<char>) -> u64 { if s.versions.val@.dom().contains(k) { (s.versions.val@[k] + 1) as u64 } else { 0 } }

// every entry is acceptable against the stored state: MemoryKVVStore::put_batch accepts exactly these batches
pub open spec fn batch_acceptable(s: RedbKVVStore, kvvs: Seq<KVV>) -> bool {
    forall|i: int| 0 <= i < kvvs.len() ==> write_ok(s, (#[trigger] kvvs[i]).0@, kvvs[i].1.0, kvvs[i].1.1@)
}
pub open spec fn keys_distinct(kvvs: Seq<KVV>) -> bool {
    forall|i: int, j: int| 0 <= i < j < kvvs.len() ==> (#[trigger] kvvs[i]).0@ != (#[trigger] kvvs[j]).0@
}

impl RedbKVVStore {

//@fn vls-persist/src/kvv/redb.rs :: impl RedbKVVStore :: encode_vv props=C16
    requires value@.len() + 8 <= usize::MAX,
    ensures r@ == enc(version, value@),                                                            //[C16.redb.encode]
//@end

//@fn vls-persist/src/kvv/redb.rs :: impl RedbKVVStore :: decode_vv props=C16
    ensures vv@.len() >= 8, r.0 == unbe8(vv@.take(8)), r.1@ == vv@.skip(8),                       //[C16.redb.decode]
//@sub /u64::from_be_bytes\(vv\[\.\.8\]\.try_into\(\)\.vx_expect\(\)\)/ => vx_u64_from_be8(vv)
//@sub /vv\[8\.\.\]\.to_vec\(\)/ => vx_skip8(vv)
//@end

//@fn vls-persist/src/kvv/redb.rs :: impl KVVStore for RedbKVVStore :: get props=C16
//@sigsub /&self/ => &mut self
    requires redb_inv(*old(self)),
    ensures
        *final(self) == *old(self),
        // reads return the last accepted write: the indexed version and the bytes stored behind it
        r.is_ok(), (match r->Ok_0 {
            Some(vv) => old(self).versions.val@.dom().contains(key@) && vv.0 == old(self).versions.val@[key@]
                && vv.1@ == old(self).db@[key@].skip(8),
            None => !old(self).versions.val@.dom().contains(key@) }),                               //[C16.redb.get-last-write]
//@sub /(?s)let tx = self\.db\.begin_read\(\)\.vx_expect\(\);\s*let table = tx\.open_table\(TABLE\)\.vx_expect\(\);\s*let result = table\.get\(key\)\.vx_expect\(\);/ => let result = self.db.vx_read_opt(key);
//@sub /Self::decode_vv\(vv\.value\(\)\)/ => Self::decode_vv(vv.as_slice())
//@proof before /(?:if let Some\(vv\) = result|match result \{)/
        proof {
            assert(self.versions.val@.dom().contains(key@) <==> self.db@.dom().contains(key@));
            if self.versions.val@.dom().contains(key@) { lemma_unbe8_be8(self.versions.val@[key@]); }
        }
//@end

//@fn vls-persist/src/kvv/redb.rs :: impl KVVStore for RedbKVVStore :: get_version props=C16
//@sigsub /&self/ => &mut self
    ensures
        *final(self) == *old(self),
        r.is_ok(), r->Ok_0 == (if old(self).versions.val@.dom().contains(key@) { Some(old(self).versions.val@[key@]) } else { None }),   //[C16.redb.get-version]
//@sub /Ok\(self\.versions\.lock\(\)\.vx_expect\(\)\.get\(key\)\.copied\(\)\)/ => Ok(match self.versions.val.get(key) { Some(v) => Some(*v), None => None })
//@end

//@fn vls-persist/src/kvv/redb.rs :: impl KVVStore for RedbKVVStore :: put_with_version props=C16,C10
//@sigsub /&self/ => &mut self
    requires redb_inv(*old(self)), value@.len() + 8 <= usize::MAX,
    ensures
        redb_inv(*final(self)),
        r.is_ok() == write_ok(*old(self), key@, version, value@),                                              //[C16.redb.put-rule]
        // an accepted write is what the index and the table hold afterwards; every other key is untouched
        r.is_ok() ==> final(self).versions.val@ == old(self).versions.val@.insert(key@, version)
            && final(self).db@ == old(self).db@.insert(key@, enc(version, value@)),                            //[C16.redb.put-frame]
        // a refused write changes nothing
        r.is_err() ==> final(self).versions.val@ == old(self).versions.val@ && final(self).db@ == old(self).db@,   //[C10.kvv-redb.put-err-frame]
        // versions never decrease
        forall|k: Seq<char>| old(self).versions.val@.dom().contains(k) ==> final(self).versions.val@.dom().contains(k)
            && final(self).versions.val@[k] >= old(self).versions.val@[k],                                      //[C16.redb.versions-never-decrease]
//@sub /(?s)let tx = self\.db\.begin_read\(\)\.vx_expect\(\);\s*\{\s*let table = tx\.open_table\(TABLE\)\.vx_expect\(\);\s*let existing = table\.get\(key\)\.vx_expect\(\)\.vx_expect\(\);\s*if existing\.value\(\) != &vv \{/ => { let existing = self.db.vx_read(key); if !vx_vec_eq(&existing, &vv) {
//@sub /(?s)let tx = self\.db\.begin_write\(\)\.vx_expect\(\);\s*\{\s*let mut table = tx\.open_table\(TABLE\)\.vx_expect\(\);\s*table\.insert\(key, vv\.as_slice\(\)\)\.vx_expect\(\);\s*\}/ => let mut tx = self.db.vx_begin_write(); tx.vx_insert(key, vv.as_slice());
//@sub /tx\.commit\(\)\.vx_expect\(\);/ => self.db.vx_commit(tx);
//@proof before /self\.db\.vx_commit\(tx\);/
        proof {
            assert(enc(version, value@).take(8) =~= be8(version));
        }
//@end

//@fn vls-persist/src/kvv/redb.rs :: impl KVVStore for RedbKVVStore :: put_batch props=C16,C10
//@sigsub /&self/ => &mut self
    requires redb_inv(*old(self)), forall|i: int| 0 <= i < kvvs@.len() ==> (#[trigger] kvvs@[i]).1.1@.len() + 8 <= usize::MAX,
    ensures
        redb_inv(*final(self)),
        // all or nothing
        r.is_err() ==> final(self).versions.val@ == old(self).versions.val@ && final(self).db@ == old(self).db@,   //[C16.redb.batch-atomic] [C10.kvv-redb.batch-err-frame]
        // an accepted batch never lowers a version (index and table move together: redb_inv)
        forall|k: Seq<char>| old(self).versions.val@.dom().contains(k) ==> final(self).versions.val@.dom().contains(k)
            && final(self).versions.val@[k] >= old(self).versions.val@[k],                                      //[C16.redb.batch-versions-never-decrease]
        r.is_ok() ==> forall|i: int| 0 <= i < kvvs@.len() ==> !old(self).versions.val@.dom().contains((#[trigger] kvvs@[i]).0@)
            || kvvs@[i].1.0 >= old(self).versions.val@[kvvs@[i].0@],                                            //[C16.redb.batch-rule]
        // a write at the current version is accepted only with the content that is stored
        r.is_ok() ==> forall|i: int| 0 <= i < kvvs@.len() && old(self).versions.val@.dom().contains((#[trigger] kvvs@[i]).0@)
            && kvvs@[i].1.0 == old(self).versions.val@[kvvs@[i].0@] ==> old(self).db@[kvvs@[i].0@] == enc(kvvs@[i].1.0, kvvs@[i].1.1@),   //[C16.redb.batch-same-version-same-content]
        // agreement with the in-memory backend: a batch of pairwise different keys is accepted exactly when every entry is
        // acceptable against the stored state, which is MemoryKVVStore::put_batch's rule ([C16.mem.batch-rule])
        batch_acceptable(*old(self), kvvs@) && keys_distinct(kvvs@) ==> r.is_ok(),                               //[C16.redb.batch-accepts-like-memory]
//@sub /let tx = self\.db\.begin_write\(\)\.vx_expect\(\);/ => let mut tx = self.db.vx_begin_write();
//@sub /let mut table = tx\.open_table\(TABLE\)\.vx_expect\(\);/ => 
//@sub /let existing = table\.get\(key\)\.vx_expect\(\)\.vx_expect\(\);/ => let existing = tx.vx_get(key);
//@sub /existing\.value\(\) != &vv/ => !vx_vec_eq(&existing, &vv)
//@sub /table\.insert\(key, vv\.as_slice\(\)\)\.vx_expect\(\);/ => tx.vx_insert(key, vv.as_slice());
//@sub /drop\(table\);/ => 
//@sub /tx\.abort\(\)\.vx_expect\(\);/ => tx.vx_abort();
//@sub /tx\.commit\(\)\.vx_expect\(\);/ => self.db.vx_commit(tx);
//@sub /(?s)for \(key, value\) in staged_versions\.into_iter\(\) \{\s*self\.versions\.val\.insert\(key, value\);\s*\}/ => self.versions.val.vx_extend(staged_versions);
//@loop 1 iter=it
            invariant
                *self == *old(self), redb_inv(*self),
                // what is staged was written by an earlier entry of the batch; with pairwise different keys and every entry
                // acceptable against the stored state no mismatch is ever flagged
                forall|k: Seq<char>| #[trigger] staged_versions@.dom().contains(k) ==> exists|j: int| 0 <= j < it.index@ && (#[trigger] kvvs@[j]).0@ == k,
                batch_acceptable(*old(self), kvvs@) && keys_distinct(kvvs@) ==> !found_version_mismatch,
                forall|i: int| 0 <= i < kvvs@.len() ==> (#[trigger] kvvs@[i]).1.1@.len() + 8 <= usize::MAX,
                // what is staged is in the transaction with its version in front; everything else is as committed
                forall|k: Seq<char>| #[trigger] tx@.dom().contains(k) ==> (if staged_versions@.dom().contains(k) {
                        tx@[k].len() >= 8 && tx@[k].take(8) == be8(staged_versions@[k])
                    } else { self.db@.dom().contains(k) && tx@[k] == self.db@[k] }),
                forall|k: Seq<char>| #[trigger] self.db@.dom().contains(k) ==> tx@.dom().contains(k),
                forall|k: Seq<char>| #[trigger] staged_versions@.dom().contains(k) ==> tx@.dom().contains(k),
                // unless a mismatch was flagged, every staged version is above the committed one and every entry seen so far
                // respects the committed version
                !found_version_mismatch ==> forall|k: Seq<char>| #[trigger] staged_versions@.dom().contains(k) ==>
                    !self.versions.val@.dom().contains(k) || staged_versions@[k] > self.versions.val@[k],
                !found_version_mismatch ==> forall|i: int| 0 <= i < it.index@ ==> !self.versions.val@.dom().contains((#[trigger] kvvs@[i]).0@)
                    || kvvs@[i].1.0 >= self.versions.val@[kvvs@[i].0@],
                !found_version_mismatch ==> forall|i: int| 0 <= i < it.index@ && self.versions.val@.dom().contains((#[trigger] kvvs@[i]).0@)
                    && kvvs@[i].1.0 == self.versions.val@[kvvs@[i].0@] ==> self.db@[kvvs@[i].0@] == enc(kvvs@[i].1.0, kvvs@[i].1.1@),
//@proof before /tx\.vx_insert\(key, vv\.as_slice\(\)\);/
            proof { assert(enc(version, value@).take(8) =~= be8(version)); }
//@proof before /vx_cont = true;/
                    proof {
                        // equal version and equal bytes in the transaction: the key cannot have been staged by an earlier
                        // entry of this batch (its version prefix would differ), so these are the committed bytes
                        assert(enc(version, value@).take(8) =~= be8(version));
                        if !found_version_mismatch && staged_versions@.dom().contains(key@) {
                            lemma_unbe8_be8(version); lemma_unbe8_be8(staged_versions@[key@]);
                            assert(false);
                        }
                    }
//@proof before /self\.db\.vx_commit\(tx\);/
        let ghost t_final = tx@;
        let ghost st_final = staged_versions@;
        let ghost v_old = self.versions.val@;
//@proof before /^\s*Ok\(\(\)\)\s*$/
        proof {
            assert(self.db@ == t_final);
            assert(self.versions.val@ == v_old.union_prefer_right(st_final));
            assert forall|k: Seq<char>| #[trigger] self.versions.val@.dom().contains(k) <==> self.db@.dom().contains(k) by {
                assert(v_old.dom().contains(k) <==> old(self).db@.dom().contains(k));
            }
            assert forall|k: Seq<char>| #[trigger] self.versions.val@.dom().contains(k) implies
                self.db@[k].len() >= 8 && self.db@[k].take(8) == be8(self.versions.val@[k]) by {
                assert(t_final.dom().contains(k));
                assert(v_old.dom().contains(k) <==> old(self).db@.dom().contains(k));
            }
        }
//@end

// the same body once more, under the clause "both backends give identical results" asks for: the batch is ACCEPTED whenever
// every entry is acceptable against the stored state - which is when MemoryKVVStore::put_batch accepts it (unit kvv_memory,
// [C16.mem.batch-rule]).  The real body refuses one such batch (known finding C16 / put_batch: an entry at the stored
// version after a higher entry of the same key); kept apart so that the contract above stays verified
//@fn vls-persist/src/kvv/redb.rs :: impl KVVStore for RedbKVVStore :: put_batch props=C16 as=put_batch_agreement_view
//@sigsub /&self/ => &mut self
    requires redb_inv(*old(self)), forall|i: int| 0 <= i < kvvs@.len() ==> (#[trigger] kvvs@[i]).1.1@.len() + 8 <= usize::MAX,
    ensures
        batch_acceptable(*old(self), kvvs@) ==> r.is_ok(),   //[C16.redb.batch-accepts-what-memory-accepts]
//@sub /let tx = self\.db\.begin_write\(\)\.vx_expect\(\);/ => let mut tx = self.db.vx_begin_write();
//@sub /let mut table = tx\.open_table\(TABLE\)\.vx_expect\(\);/ => 
//@sub /let existing = table\.get\(key\)\.vx_expect\(\)\.vx_expect\(\);/ => let existing = tx.vx_get(key);
//@sub /existing\.value\(\) != &vv/ => !vx_vec_eq(&existing, &vv)
//@sub /table\.insert\(key, vv\.as_slice\(\)\)\.vx_expect\(\);/ => tx.vx_insert(key, vv.as_slice());
//@sub /drop\(table\);/ => 
//@sub /tx\.abort\(\)\.vx_expect\(\);/ => tx.vx_abort();
//@sub /tx\.commit\(\)\.vx_expect\(\);/ => self.db.vx_commit(tx);
//@sub /(?s)for \(key, value\) in staged_versions\.into_iter\(\) \{\s*self\.versions\.val\.insert\(key, value\);\s*\}/ => self.versions.val.vx_extend(staged_versions);
//@loop 1 iter=it
            invariant
                *self == *old(self), redb_inv(*self),
                // (this view) what is staged was written by an earlier entry of the batch; with pairwise different keys and
                // every entry acceptable against the stored state no mismatch is ever flagged
                forall|k: Seq<char>| #[trigger] staged_versions@.dom().contains(k) ==> exists|j: int| 0 <= j < it.index@ && (#[trigger] kvvs@[j]).0@ == k,
                batch_acceptable(*old(self), kvvs@) && keys_distinct(kvvs@) ==> !found_version_mismatch,
                forall|i: int| 0 <= i < kvvs@.len() ==> (#[trigger] kvvs@[i]).1.1@.len() + 8 <= usize::MAX,
                // what is staged is in the transaction with its version in front; everything else is as committed
                forall|k: Seq<char>| #[trigger] tx@.dom().contains(k) ==> (if staged_versions@.dom().contains(k) {
                        tx@[k].len() >= 8 && tx@[k].take(8) == be8(staged_versions@[k])
                    } else { self.db@.dom().contains(k) && tx@[k] == self.db@[k] }),
                forall|k: Seq<char>| #[trigger] self.db@.dom().contains(k) ==> tx@.dom().contains(k),
                forall|k: Seq<char>| #[trigger] staged_versions@.dom().contains(k) ==> tx@.dom().contains(k),
                // unless a mismatch was flagged, every staged version is above the committed one and every entry seen so far
                // respects the committed version
                !found_version_mismatch ==> forall|k: Seq<char>| #[trigger] staged_versions@.dom().contains(k) ==>
                    !self.versions.val@.dom().contains(k) || staged_versions@[k] > self.versions.val@[k],
                !found_version_mismatch ==> forall|i: int| 0 <= i < it.index@ ==> !self.versions.val@.dom().contains((#[trigger] kvvs@[i]).0@)
                    || kvvs@[i].1.0 >= self.versions.val@[kvvs@[i].0@],
                !found_version_mismatch ==> forall|i: int| 0 <= i < it.index@ && self.versions.val@.dom().contains((#[trigger] kvvs@[i]).0@)
                    && kvvs@[i].1.0 == self.versions.val@[kvvs@[i].0@] ==> self.db@[kvvs@[i].0@] == enc(kvvs@[i].1.0, kvvs@[i].1.1@),
//@proof before /tx\.vx_insert\(key, vv\.as_slice\(\)\);/
            proof { assert(enc(version, value@).take(8) =~= be8(version)); }
//@proof before /vx_cont = true;/
                    proof {
                        // equal version and equal bytes in the transaction: the key cannot have been staged by an earlier
                        // entry of this batch (its version prefix would differ), so these are the committed bytes
                        assert(enc(version, value@).take(8) =~= be8(version));
                        if !found_version_mismatch && staged_versions@.dom().contains(key@) {
                            lemma_unbe8_be8(version); lemma_unbe8_be8(staged_versions@[key@]);
                            assert(false);
                        }
                    }
//@proof before /self\.db\.vx_commit\(tx\);/
        let ghost t_final = tx@;
        let ghost st_final = staged_versions@;
        let ghost v_old = self.versions.val@;
//@proof before /^\s*Ok\(\(\)\)\s*$/
        proof {
            assert(self.db@ == t_final);
            assert(self.versions.val@ == v_old.union_prefer_right(st_final));
            assert forall|k: Seq<char>| #[trigger] self.versions.val@.dom().contains(k) <==> self.db@.dom().contains(k) by {
                assert(v_old.dom().contains(k) <==> old(self).db@.dom().contains(k));
            }
            assert forall|k: Seq<char>| #[trigger] self.versions.val@.dom().contains(k) implies
                self.db@[k].len() >= 8 && self.db@[k].take(8) == be8(self.versions.val@[k]) by {
                assert(t_final.dom().contains(k));
                assert(v_old.dom().contains(k) <==> old(self).db@.dom().contains(k));
            }
        }
//@end

//@fn vls-persist/src/kvv/redb.rs :: impl KVVStore for RedbKVVStore :: put props=C16 optclosures
//@sigsub /&self/ => &mut self
    requires redb_inv(*old(self)), value@.len() + 8 <= usize::MAX,
        old(self).versions.val@.dom().contains(key@) ==> old(self).versions.val@[key@] < u64::MAX,     // v + 1 aborts (overflow check) at the last version
    ensures
        redb_inv(*final(self)),
        // always accepted, at the next version: index and table move together, every other key is untouched
        r.is_ok(), final(self).versions.val@ == old(self).versions.val@.insert(key@, next_version(*old(self), key@))
            && final(self).db@ == old(self).db@.insert(key@, enc(next_version(*old(self), key@), value@)),   //[C16.redb.put-next-version]
//@sub /self\.versions\.lock\(\)\.vx_expect\(\)\.get\(key\)/ => self.versions.val.get(key)
//@end

//@fn vls-persist/src/kvv/redb.rs :: impl KVVStore for RedbKVVStore :: delete props=C16
//@sigsub /&self/ => &mut self
    requires redb_inv(*old(self)),
        old(self).versions.val@.dom().contains(key@) ==> old(self).versions.val@[key@] < u64::MAX,
    ensures
        redb_inv(*final(self)),
        // a delete is a write of the empty value at the next version (a tombstone): the version is not lowered
        r.is_ok(), final(self).versions.val@ == old(self).versions.val@.insert(key@, next_version(*old(self), key@))
            && final(self).db@ == old(self).db@.insert(key@, enc(next_version(*old(self), key@), Seq::<u8>::empty())),   //[C16.redb.delete-is-a-tombstone]
//@end

//@fn vls-persist/src/kvv/redb.rs :: impl KVVStore for RedbKVVStore :: get_prefix props=C16
//@sigsub /&self/ => &mut self
//@sigsub /Self::Iter/ => VxIter
    requires redb_inv(*old(self)),
    ensures
        *final(self) == *old(self),
        r.is_ok(), prefix_read_ok(*old(self), prefix@, r->Ok_0.0@),                                   //[C16.redb.prefix-read-is-exactly-the-matching-records]
//@sub /(?s)let tx = self\.db\.begin_read\(\)\.vx_expect\(\);\s*let table = tx\.open_table\(TABLE\)\.vx_expect\(\);/ => let vx_rng = self.db.vx_range_from(prefix);
//@sub /let mut result = Vec::new\(\);/ => let mut result: Vec<KVV> = Vec::new();
//@sub /for item in table\.range\(prefix\.\.\)\.vx_expect\(\) \{/ => for item in it: vx_rng.iter() {
//@sub /let \(key, vv\) = item\.vx_expect\(\);/ => let key = &item.0; let vv = &item.1;
//@sub /key\.value\(\)/ => key.as_str()
//@sub /([\w.]+(?:\(\))?)\.starts_with\(prefix\)/ => vx_starts_with(\1, prefix)
//@sub /vv\.value\(\)/ => vv.as_slice()
//@sub /([\w.]+(?:\(\))?)\.to_string\(\)/ => vx_to_string(\1)
//@sub /Ok\(Iter\(result\.into_iter\(\)\)\)/ => Ok(VxIter(result))
//@loop 1
            invariant_except_break result@.len() == it.index@,
            invariant
                *self == *old(self), redb_inv(*self),
                result@.len() <= vx_rng@.len(),
                forall|i: int| 0 <= i < vx_rng@.len() ==> self.db@.dom().contains((#[trigger] vx_rng@[i]).0@) && vx_rng@[i].1@ == self.db@[vx_rng@[i].0@],
                forall|i: int| 0 <= i < result@.len() ==> (#[trigger] result@[i]).0@ == vx_rng@[i].0@ && result@[i].1.0 == self.versions.val@[vx_rng@[i].0@]
                    && result@[i].1.1@ == vx_rng@[i].1@.skip(8) && is_prefix(prefix@, result@[i].0@),
            ensures result@.len() < vx_rng@.len() ==> !is_prefix(prefix@, vx_rng@[result@.len() as int].0@),
//@proof before /let \(version, value\) = Self::decode_vv/
                proof {
                    let k = vx_rng@[it.index@ as int].0@;
                    assert(self.versions.val@.dom().contains(k) <==> self.db@.dom().contains(k));
                    lemma_unbe8_be8(self.versions.val@[k]);
                }
//@proof before /^\s*Ok\(VxIter\(result\)\)\s*$/
        proof {
            let out = result@; let n = out.len() as int;
            assert forall|k: Seq<char>| #[trigger] self.db@.dom().contains(k) && is_prefix(prefix@, k) implies
                exists|i: int| 0 <= i < out.len() && (#[trigger] out[i]).0@ == k by {
                axiom_str_order_prefix_first(prefix@, k);
                let j = choose|j: int| 0 <= j < vx_rng@.len() && (#[trigger] vx_rng@[j]).0@ == k;
                if j >= n {
                    if j > n { axiom_str_order_prefix_block(prefix@, vx_rng@[n].0@, vx_rng@[j].0@); }
                    assert(false);
                }
                assert(out[j].0@ == k);
            }
        }
//@end

} // impl RedbKVVStore

} // verus!
fn main() {}
