//@unit persist_keys
//@props C11 C15
// The keys records are stored under (vls-persist/src/kvv.rs): make_key / make_key2 build "<prefix>/<hex>" and
// "<prefix>/<hex>/<hex>", extract_key_suffix recovers the last component at a restart.  Decided here: the layout of the
// two builders (pieces, separators, order - rewrite R29 turns each format! into the concatenation it denotes), that
// extract_key_suffix is the inverse of appending a hex component to a prefix, and - lemma c15_channel_id_read_back_from_key
// - that the channel id Node::new_from_persistence is given for a stored record is the id the record was written under
// (units persist_channels / node_restore_channels name these keys `chan_key` / `key_channel_id`).
use vstd::prelude::*;
use vstd::std_specs::cmp::OrdSpec;
//@include prelude/core.rs
//@map /: &str = / => : &'static str = 
verus! {

//@@TAGS

// hex::encode / hex::decode (crate hex): an injective text encoding of byte strings (assumed)
pub uninterp spec fn hex(b: Seq<u8>) -> Seq<char>;
#[verifier::external_body]
pub proof fn axiom_hex_injective(a: Seq<u8>, b: Seq<u8>) requires hex(a) == hex(b) ensures a == b {}
pub struct VxHexError;
pub mod hex_mod {}
#[verifier::external_body]
pub fn vx_hex_encode(b: &[u8]) -> (r: String) ensures r@ == hex(b@) { unimplemented!() }
#[verifier::external_body]
pub fn vx_hex_decode(s: &str) -> (r: Result<Vec<u8>, VxHexError>)
    ensures r.is_ok() <==> (exists|b: Seq<u8>| hex(b) == s@), r.is_ok() ==> hex(r->Ok_0@) == s@
{ unimplemented!() }
// String building blocks of rewrite R29
#[verifier::external_body]
pub fn vx_empty_string() -> (r: String) ensures r@ == Seq::<char>::empty() { String::new() }
#[verifier::external_body]
pub fn vx_cat(a: String, b: &str) -> (r: String) ensures r@ == a@ + b@ { unimplemented!() }
// Display of a String / &str argument of format!: the text itself
#[verifier::external_body]
pub fn vx_disp(a: String) -> (r: String) ensures r@ == a@ { a }
// `prefix.into()` for `impl Into<String>` (callers pass &str constants): the same text
#[verifier::external_body]
pub fn vx_into_string(a: &str) -> (r: String) ensures r@ == a@ { unimplemented!() }
// str::strip_prefix / ends_with
#[verifier::external_body]
pub fn vx_strip_prefix<'a>(key: &'a str, prefix: &str) -> (r: Option<&'a str>)
    ensures r.is_some() <==> (prefix@.len() <= key@.len() && key@.subrange(0, prefix@.len() as int) == prefix@),
        r.is_some() ==> prefix@ + r->Some_0@ == key@
{ key.strip_prefix(prefix) }
#[verifier::external_body]
pub fn vx_ends_with(s: &str, suffix: &str) -> (r: bool)
    ensures r == (suffix@.len() <= s@.len() && s@.subrange(s@.len() - suffix@.len(), s@.len() as int) == suffix@)
{ s.ends_with(suffix) }

//@const vls-persist/src/kvv.rs :: SEPARATOR vis=pub
//@const vls-persist/src/kvv.rs :: CHANNEL_PREFIX vis=pub

//@fn vls-persist/src/kvv.rs :: - :: make_key props=C11,C15 fmtconcat
//@sigsub /prefix: impl Into<String>/ => prefix: &str
    ensures r@ == prefix@ + "/"@ + hex(key@),                                                        //[C11.keys.make-key-layout]
//@sub /prefix\.into\(\)/ => vx_into_string(prefix)
//@sub /hex::encode\(key\)/ => vx_hex_encode(key)
//@end

//@fn vls-persist/src/kvv.rs :: - :: make_key2 props=C11,C15 fmtconcat
//@sigsub /prefix: impl Into<String>/ => prefix: &str
    ensures r@ == prefix@ + "/"@ + hex(key1@) + "/"@ + hex(key2@),                                  //[C11.keys.make-key2-layout]
//@sub /prefix\.into\(\)/ => vx_into_string(prefix)
//@sub /hex::encode\(key1\)/ => vx_hex_encode(key1)
//@sub /hex::encode\(key2\)/ => vx_hex_encode(key2)
//@end

//@fn vls-persist/src/kvv.rs :: - :: extract_key_suffix props=C11,C15
    ensures
        // what comes back is the byte string whose hex text follows the prefix in the key (aborts on any other key)
        prefix@ + hex(r@) == key@,                                                                   //[C15.keys.suffix-is-the-component-after-the-prefix]
//@sub /(\w+)\.ends_with\((\w+)\)/ => vx_ends_with(\1, \2)
//@sub /(\w+)\.strip_prefix\((\w+)\)/ => vx_strip_prefix(\1, \2)
//@sub /hex::decode\(suffix\)/ => vx_hex_decode(suffix)
//@end

// C15 / C11: the id a stored channel record is restored under is the id it was written under.  update_channel / new_channel
// write under make_key2(CHANNEL_PREFIX, node, id0); get_node_channels scans the prefix make_key(CHANNEL_PREFIX, node) + SEPARATOR
// and hands ChannelId::new(extract_key_suffix(prefix, key)) to the restart path
pub proof fn c15_channel_id_read_back_from_key(node: Seq<u8>, id: Seq<u8>, got: Seq<u8>)
    requires
        (CHANNEL_PREFIX@ + "/"@ + hex(node) + SEPARATOR@) + hex(got) == CHANNEL_PREFIX@ + "/"@ + hex(node) + "/"@ + hex(id),
        SEPARATOR@ == "/"@,
    ensures got == id
{
    let p = CHANNEL_PREFIX@ + "/"@ + hex(node) + "/"@;
    assert((p + hex(got)).skip(p.len() as int) =~= hex(got));
    assert((p + hex(id)).skip(p.len() as int) =~= hex(id));
    assert(CHANNEL_PREFIX@ + "/"@ + hex(node) + SEPARATOR@ =~= p);
    assert(CHANNEL_PREFIX@ + "/"@ + hex(node) + "/"@ + hex(id) =~= p + hex(id));
    axiom_hex_injective(got, id);
}

} // verus!
fn main() {}
