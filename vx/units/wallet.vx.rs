//@unit wallet
//@props C08 C07 C09
// What "a destination the node controls" means (vls-core/src/node.rs, impl Wallet for Node).  The validators of C07 (mutual
// close), C08 (on-chain transactions) and C09 (sweeps) accept an output when Wallet::can_spend or Wallet::allowlist_contains
// says so; in those units the two are uninterpreted.  Decided here: can_spend says yes only for a non-empty derivation path
// and a script that is the P2WPKH, P2SH-P2WPKH or P2TR address of the wallet key at that path; allowlist_contains says yes
// only for a script on the allowlist or - with a non-empty path - an address (P2WPKH, P2PKH, P2TR) of a key derived at that
// path from an allowlisted xpub.  Address construction and key derivation are rust-bitcoin / secp256k1 (uninterpreted).
use vstd::prelude::*;
use vstd::std_specs::cmp::OrdSpec;
//@include prelude/core.rs
//@include prelude/deps.rs
//@include prelude/btc.rs
//@include prelude/chain.rs
verus! {

//@@TAGS

#[verifier::external_body] pub struct CompressedPublicKey { _p: u8 }
#[verifier::external_body] pub struct Xpub { _p: u8 }
#[verifier::external_body] pub struct Address { _p: u8 }
#[verifier::external_body] pub struct VxSecp { _p: u8 }
#[verifier::external_body] pub struct NodeRest { _p: u8 }
pub enum Allowable { Script(ScriptBuf), XPub(Xpub), Payee(PublicKey) }
pub uninterp spec fn path_len(p: DerivationPath) -> nat;
pub uninterp spec fn wallet_key(n: Node, p: DerivationPath) -> CompressedPublicKey;       // bip32 derivation from the node's account key
pub uninterp spec fn xpub_key(x: Xpub, p: DerivationPath) -> CompressedPublicKey;         // Xpub::derive_pub(path).public_key
pub uninterp spec fn p2wpkh_script(k: CompressedPublicKey, n: Network) -> ScriptBuf;
pub uninterp spec fn p2shwpkh_script(k: CompressedPublicKey, n: Network) -> ScriptBuf;
pub uninterp spec fn p2pkh_script(k: CompressedPublicKey, n: Network) -> ScriptBuf;
pub uninterp spec fn p2tr_script(k: CompressedPublicKey, n: Network) -> ScriptBuf;
pub uninterp spec fn script_is_empty(s: ScriptBuf) -> bool;
impl ScriptBuf {
    #[verifier::external_body] pub fn is_empty(&self) -> (r: bool) ensures r == script_is_empty(*self) { unimplemented!() }
}
impl DerivationPath {
    #[verifier::external_body] pub fn len(&self) -> (r: usize) ensures r == path_len(*self) { unimplemented!() }
    #[verifier::external_body] pub fn is_empty(&self) -> (r: bool) ensures r == (path_len(*self) == 0) { unimplemented!() }
}
// Address::p2wpkh(&key, network).script_pubkey() etc. (R5 helpers: constructor + script_pubkey in one)
#[verifier::external_body] pub fn vx_p2wpkh(k: &CompressedPublicKey, n: Network) -> (r: ScriptBuf) ensures r == p2wpkh_script(*k, n) { unimplemented!() }
#[verifier::external_body] pub fn vx_p2shwpkh(k: &CompressedPublicKey, n: Network) -> (r: ScriptBuf) ensures r == p2shwpkh_script(*k, n) { unimplemented!() }
#[verifier::external_body] pub fn vx_p2pkh(k: &CompressedPublicKey, n: Network) -> (r: ScriptBuf) ensures r == p2pkh_script(*k, n) { unimplemented!() }
#[verifier::external_body] pub fn vx_p2tr(k: &CompressedPublicKey, n: Network) -> (r: ScriptBuf) ensures r == p2tr_script(*k, n) { unimplemented!() }
#[verifier::external_body] pub fn vx_xpub_key(x: &Xpub, p: &DerivationPath) -> (r: CompressedPublicKey) ensures r == xpub_key(*x, *p) { unimplemented!() }

// Node as far as the wallet functions read it: network and the allowlist (NodeState.allowlist, read under the state lock)
pub struct Node { pub network: Network, pub allowlist: Vec<Allowable>, pub rest: NodeRest }
impl Node {
    #[verifier::external_body]
    pub fn get_wallet_pubkey(&self, child_path: &DerivationPath) -> (r: Result<CompressedPublicKey, Status>)
        ensures r.is_ok() ==> r->Ok_0 == wallet_key(*self, *child_path) { unimplemented!() }
    #[verifier::external_body]
    pub fn network(&self) -> (r: Network) ensures r == self.network { unimplemented!() }
    // state.allowlist.contains(&Allowable::Script(script.clone())): membership in the allowlist set
    #[verifier::external_body]
    pub fn vx_allowlist_has_script(&self, s: &ScriptBuf) -> (r: bool)
        ensures r == (exists|i: int| 0 <= i < self.allowlist@.len() && #[trigger] self.allowlist@[i] == Allowable::Script(*s)) { unimplemented!() }
}

// ------------------------------------------------------------------ spec side (from the properties: "wallet or allowlisted")
pub open spec fn wallet_spendable(n: Node, path: DerivationPath, script: ScriptBuf) -> bool {
    let k = wallet_key(n, path);
    path_len(path) > 0 && (script == p2wpkh_script(k, n.network) || script == p2shwpkh_script(k, n.network) || script == p2tr_script(k, n.network))
}
pub open spec fn xpub_allows(x: Xpub, net: Network, path: DerivationPath, script: ScriptBuf) -> bool {
    let k = xpub_key(x, path);
    script == p2wpkh_script(k, net) || script == p2pkh_script(k, net) || script == p2tr_script(k, net)
}
pub open spec fn allowlisted(n: Node, path: DerivationPath, script: ScriptBuf) -> bool {
    (exists|i: int| 0 <= i < n.allowlist@.len() && #[trigger] n.allowlist@[i] == Allowable::Script(script))
    || (path_len(path) > 0 && exists|i: int| 0 <= i < n.allowlist@.len() && (#[trigger] n.allowlist@[i]) is XPub
            && xpub_allows(n.allowlist@[i]->XPub_0, n.network, path, script))
}

impl Node {

//@fn vls-core/src/node.rs :: impl Wallet for Node :: can_spend props=C08,C07,C09
    ensures
        r.is_ok() ==> r->Ok_0 == wallet_spendable(*self, *child_path, *script_pubkey),               //[C08.wallet.can-spend-only-own-addresses]
//@sub /Address::p2wpkh\(&pubkey, ([\w.]+(?:\(\))?)\)/ => vx_p2wpkh(&pubkey, \1)
//@sub /Address::p2shwpkh\(&pubkey, ([\w.]+(?:\(\))?)\)/ => vx_p2shwpkh(&pubkey, \1)
//@sub /let untweaked_pubkey = UntweakedPublicKey::from\(pubkey\.0\);/ => 
//@sub /Address::p2tr\(&self\.secp_ctx, untweaked_pubkey, None, ([\w.]+(?:\(\))?)\)/ => vx_p2tr(&pubkey, \1)
//@sub /(\w+_addr)\.script_pubkey\(\)/ => \1
//@end

//@fn vls-core/src/node.rs :: impl Wallet for Node :: allowlist_contains props=C08,C07,C09
    ensures r == allowlisted(*self, *path, *script_pubkey),                                           //[C08.wallet.allowlist-only-listed-or-derived]
//@sub /let state = self\.get_state\(\);/ => 
//@sub /state\.allowlist\.contains\(&Allowable::Script\(script_pubkey\.clone\(\)\)\)/ => self.vx_allowlist_has_script(script_pubkey)
//@sub /for a in state\.allowlist\.iter\(\) \{/ => for a in it: self.allowlist.iter() {
//@sub /(?s)let pubkey =\s*CompressedPublicKey\(xp\.derive_pub\(&Secp256k1::new\(\), path\)\.vx_expect\(\)\.public_key\);/ => let pubkey = vx_xpub_key(xp, path);
//@sub /Address::p2wpkh\(&pubkey, self\.network\(\)\)\.script_pubkey\(\)/ => vx_p2wpkh(&pubkey, self.network())
//@sub /Address::p2pkh\(&pubkey, self\.network\(\)\)\.script_pubkey\(\)/ => vx_p2pkh(&pubkey, self.network())
//@sub /let untweaked_pubkey = UntweakedPublicKey::from\(pubkey\.0\);/ => 
//@sub /(?s)Address::p2tr\(&self\.secp_ctx, untweaked_pubkey, None, self\.network\(\)\)\s*\.script_pubkey\(\)/ => vx_p2tr(&pubkey, self.network())
//@loop 1
            invariant
                path_len(*path) > 0,
                !(exists|i: int| 0 <= i < self.allowlist@.len() && #[trigger] self.allowlist@[i] == Allowable::Script(*script_pubkey)),
                forall|i: int| 0 <= i < it.index@ ==> !((#[trigger] self.allowlist@[i]) is XPub
                    && xpub_allows(self.allowlist@[i]->XPub_0, self.network, *path, *script_pubkey)),
//@end

}

} // verus!
fn main() {}
