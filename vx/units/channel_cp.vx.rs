//@unit channel_cp
//@props C03 C04 C05 C06 C10 C11
// Contracts on the counterparty-commitment side of Channel (vls-core/src/channel.rs):
// counterparty revocation and phase-2 signing of counterparty commitments.
use vstd::prelude::*;
use vstd::std_specs::cmp::OrdSpec;
//@include prelude/core.rs
//@include prelude/deps.rs
//@include prelude/btc.rs
//@include prelude/hashes.rs
//@include frag/enforcement_types.rs
//@include prelude/channel_deps.rs
//@include prelude/ldk_tx.rs
//@map /Weak<Node>/ => VxNodeRef
//@map /Secp256k1<All>/ => VxSecp
//@map /Arc<dyn Validator>/ => VxValidator
//@map /Arc<Node>/ => VxNode
//@map /Map<PaymentHash, u64>/ => VxPayMap
//@map /&\*state\b/ => &state
//@map /&dyn Wallet/ => &VxNode
//@map /&self\.keys\.funding_key/ => self.keys.vx_funding_key()
//@map /Option<Address>/ => Option<VxAddress>
//@map /bitcoin::Transaction/ => Transaction
//@map /Vec<HTLCInfo>/ => Vec<VxHTLCInfo>
verus! {

//@@TAGS

//@include frag/enforcement_spec.rs
//@include frag/secrets_spec.rs
//@include frag/channel_types.rs
//@include frag/channel_spec.rs
//@include frag/channel_cp_spec.rs
//@include frag/channel_trusted.rs
//@include frag/channel_cp_trusted.rs

impl Channel {

//@fn vls-core/src/channel.rs :: impl Channel :: validate_counterparty_revocation props=C03,C10,C11
    requires revoke_num < INITIAL_COMMITMENT_NUMBER, chan_wf(*old(self)),
    ensures
        chan_static_eq(*final(self), *old(self)),
        // C03: accepted only for the point that was signed and a secret that chains
        r.is_ok() && cp_strict() ==> es_point_for(old(self).enforcement_state, revoke_num) == Some(pk_of(*old_secret)),   //[C03.cprevoke.point-match]
        r.is_ok() && cp_strict() && old(self).enforcement_state.counterparty_secrets.is_some() ==>
            secret_chains(old(self).enforcement_state.counterparty_secrets->Some_0.old_secrets@,
                (INITIAL_COMMITMENT_NUMBER - revoke_num) as u64, sk_bytes(*old_secret)),                  //[C03.cprevoke.secret-chains]
        r.is_ok() && cp_strict() ==> cp_revoke_guard(old(self).enforcement_state, (revoke_num + 1) as u64),      //[C03.cprevoke.guard]
        // the compact store never disappears (a missing store - old databases - switches the chaining check off), and an
        // accepted revocation changes only the slot of this index, to this secret
        old(self).enforcement_state.counterparty_secrets.is_some() ==> final(self).enforcement_state.counterparty_secrets.is_some(),   //[C03.cprevoke.store-kept]
        r.is_ok() && old(self).enforcement_state.counterparty_secrets.is_some() ==> ({
            let o = old(self).enforcement_state.counterparty_secrets->Some_0.old_secrets@;
            let f = final(self).enforcement_state.counterparty_secrets->Some_0.old_secrets@;
            let idx = (INITIAL_COMMITMENT_NUMBER - revoke_num) as u64;
            f == o || exists|pos: u8| place_spec(idx, pos) && (
                (pos < o.len() && f == o.update(pos as int, (sk_bytes(*old_secret), idx)))
                || (pos == o.len() && f == o.push((sk_bytes(*old_secret), idx))))
        }),                                                                                                          //[C03.cprevoke.store-step]
        // a secret that is new (below every index seen so far) is recorded in the store that later revocations are checked against
        r.is_ok() && cp_strict() && old(self).enforcement_state.counterparty_secrets.is_some()
            && ((INITIAL_COMMITMENT_NUMBER - revoke_num) as u64) < min_seen(old(self).enforcement_state.counterparty_secrets->Some_0.old_secrets@) ==> ({
            let f = final(self).enforcement_state.counterparty_secrets->Some_0.old_secrets@;
            let idx = (INITIAL_COMMITMENT_NUMBER - revoke_num) as u64;
            exists|pos: u8| place_spec(idx, pos) && pos < f.len() && f[pos as int] == (sk_bytes(*old_secret), idx)
        }),                                                                                                          //[C03.cprevoke.new-secret-stored]
        // only the revocation counter, the cleared previous info and the secret store may change
        r.is_ok() ==> final(self).enforcement_state == (EnforcementState {
            counterparty_secrets: final(self).enforcement_state.counterparty_secrets,
            ..es_set_cp_revoke(old(self).enforcement_state, (revoke_num + 1) as u64) }),                           //[C03.cprevoke.frame]
        r.is_ok() && cp_strict() && cp_inv(old(self).enforcement_state) ==> cp_inv(final(self).enforcement_state), //[C03.cprevoke.keeps-window]
        // C03: the revocation counter (what "revoked by a secret it verified" is read from when the next commitment is
        // signed) moves only when the revocation is accepted
        final(self).enforcement_state.next_counterparty_revoke_num != old(self).enforcement_state.next_counterparty_revoke_num ==> r.is_ok(),   //[C03.cprevoke.counter-moves-only-on-accept]
        r.is_err() ==> final(self).enforcement_state == old(self).enforcement_state
            && final(self).persisted == old(self).persisted,                                                       //[C10.cprevoke.err-frame]
        r.is_ok() ==> final(self).persisted@ == final(self).enforcement_state,                                     //[C11.cprevoke.persisted]
//@end

//@fn vls-core/src/channel.rs :: impl Channel :: build_counterparty_commitment_info props=C03,C04
    ensures r.is_ok(), info2_built(r->Ok_0, true, to_holder_value_sat, to_counterparty_value_sat, offered_htlcs@, received_htlcs@, feerate_per_kw),
//@end

//@fn vls-core/src/channel.rs :: impl Channel :: htlcs_info2_to_oic mode=trusted
    requires htlcs_msat_fit(offered_htlcs@), htlcs_msat_fit(received_htlcs@),
    ensures r@ == oic_spec(offered_htlcs@, received_htlcs@),
//@end

//@fn vls-core/src/channel.rs :: impl Channel :: sign_counterparty_commitment_tx_phase2 props=C03,C04,C05,C06,C10,C11
    requires
        commitment_number < INITIAL_COMMITMENT_NUMBER, chan_wf(*old(self)),
        htlcs_msat_fit(offered_htlcs@), htlcs_msat_fit(received_htlcs@),
    ensures
        chan_static_eq(*final(self), *old(self)),
        // C04: the signature is over the transaction rebuilt from the channel's own data and exactly this content
        r.is_ok() ==> (r->Ok_0.0, r->Ok_0.1@) == ldk_sign_cp_commitment(old(self).keys,
            cp_ctx_spec(old(self).keys, old(self).setup, *remote_per_commitment_point, commitment_number, feerate_per_kw,
                to_holder_value_sat, to_counterparty_value_sat, oic_spec(offered_htlcs@, received_htlcs@))),           //[C04.sign-cp-phase2.binds-rebuilt-tx]
        // C03: n is signed only if everything below n-1 is revoked; the counter moves by at most one
        // C05: no counterparty commitment is signed for a channel above the maximum size
        r.is_ok() && vx_strict(T_policy_funding_max) ==>
            old(self).setup.channel_value_sat <= chan_validator_of(old(self).id0).vp_max_channel_size_sat(),             //[C05.sign-cp.channel-size-max]
        r.is_ok() && cp_strict() ==> commitment_number <= old(self).enforcement_state.next_counterparty_revoke_num + 1,   //[C03.sign-cp.revoked-prefix]
        r.is_ok() && cp_strict() ==> cp_commit_guard(old(self).enforcement_state, (commitment_number + 1) as u64),        //[C03.sign-cp.guard]
        r.is_ok() && cp_strict() && vx_strict(T_policy_commitment_retry_same)
            && commitment_number + 1 == old(self).enforcement_state.next_counterparty_commit_num ==>
            old(self).enforcement_state.current_counterparty_point == Some(*remote_per_commitment_point)
            && final(self).enforcement_state == old(self).enforcement_state,                                        //[C03.sign-cp.retry-same]
        r.is_ok() ==> exists|info2: CommitmentInfo2|
            info2_built(info2, true, to_holder_value_sat, to_counterparty_value_sat, offered_htlcs@, received_htlcs@, feerate_per_kw)
            && final(self).enforcement_state == es_set_cp_commit(old(self).enforcement_state, (commitment_number + 1) as u64,
                *remote_per_commitment_point, info2)                                                               //[C03.sign-cp.frame]
            // C06: the update was validated against, and then recorded in, the node's payment ledger under this channel's
            // id with the summaries of this state and the new commitment
            && node_validated(old(self).id0, pay_in_spec(old(self).enforcement_state, None, Some(info2)),
                pay_out_spec(old(self).enforcement_state, None, Some(info2)))                                       //[C06.sign-cp.node-validated]
            && node_applied(old(self).id0, pay_in_spec(old(self).enforcement_state, None, Some(info2)),
                pay_out_spec(old(self).enforcement_state, None, Some(info2)), Some(info2)),                         //[C06.sign-cp.node-applied]
        r.is_ok() && cp_strict() && cp_inv(old(self).enforcement_state) ==> cp_inv(final(self).enforcement_state), //[C03.sign-cp.keeps-window]
        r.is_err() ==> final(self).enforcement_state == old(self).enforcement_state
            && final(self).persisted == old(self).persisted,                                                       //[C10.sign-cp.err-frame]
        r.is_ok() ==> final(self).persisted@ == final(self).enforcement_state,                                     //[C11.sign-cp.persisted]
//@end

//@fn vls-core/src/channel.rs :: impl Channel :: sign_counterparty_commitment_tx props=C03,C04,C05,C06,C10,C11
    requires
        commitment_number < INITIAL_COMMITMENT_NUMBER, chan_wf(*old(self)),
        htlcs_msat_fit(offered_htlcs@), htlcs_msat_fit(received_htlcs@),
    ensures
        chan_static_eq(*final(self), *old(self)),
        // C04: the raw entry point accepts a transaction only if it is exactly the canonical transaction rebuilt from the
        // channel's own parameters and the validated content, and signs that transaction (never the supplied bytes)
        r.is_ok() ==> exists|info2: CommitmentInfo2| info2.is_counterparty_broadcaster
            && info2.offered_htlcs@.to_multiset() == offered_htlcs@.to_multiset() && info2.received_htlcs@.to_multiset() == received_htlcs@.to_multiset()
            && info2.feerate_per_kw == feerate_per_kw
            && ({
                let ctx = cp_ctx_spec(old(self).keys, old(self).setup, *remote_per_commitment_point, commitment_number, feerate_per_kw,
                    info2.to_countersigner_value_sat, info2.to_broadcaster_value_sat, oic_spec(info2.offered_htlcs@, info2.received_htlcs@));
                (vx_strict(T_policy_commitment) ==> ctx_built_tx(ctx) == *tx)                                          //[C04.sign-cp-phase1.raw-equals-canonical]
                && r->Ok_0 == ecdsa_sign(message_of_digest(sighash_p2wsh(ctx_built_tx(ctx), 0,
                        funding_redeemscript(ldk_pubkeys(old(self).keys).funding_pubkey, old(self).setup.counterparty_points.funding_pubkey),
                        old(self).setup.channel_value_sat, EcdsaSighashType::All)), ldk_funding_key(old(self).keys))   //[C04.sign-cp-phase1.signs-rebuilt-tx]
                && final(self).enforcement_state == es_set_cp_commit(old(self).enforcement_state, (commitment_number + 1) as u64,
                    *remote_per_commitment_point, info2)                                                            //[C03.sign-cp-phase1.frame]
                // C06: the update was validated against, and then recorded in, the node's payment ledger under this
                // channel's id with the summaries of this state and the new commitment
                && node_validated(old(self).id0, pay_in_spec(old(self).enforcement_state, None, Some(info2)),
                    pay_out_spec(old(self).enforcement_state, None, Some(info2)))                                   //[C06.sign-cp-phase1.node-validated]
                && node_applied(old(self).id0, pay_in_spec(old(self).enforcement_state, None, Some(info2)),
                    pay_out_spec(old(self).enforcement_state, None, Some(info2)), Some(info2))                      //[C06.sign-cp-phase1.node-applied]
            }),
        r.is_ok() && vx_strict(T_policy_funding_max) ==>
            old(self).setup.channel_value_sat <= chan_validator_of(old(self).id0).vp_max_channel_size_sat(),             //[C05.sign-cp-phase1.channel-size-max]
        r.is_ok() && cp_strict() ==> commitment_number <= old(self).enforcement_state.next_counterparty_revoke_num + 1,   //[C03.sign-cp-phase1.revoked-prefix]
        r.is_ok() && cp_strict() ==> cp_commit_guard(old(self).enforcement_state, (commitment_number + 1) as u64),        //[C03.sign-cp-phase1.guard]
        r.is_err() ==> final(self).enforcement_state == old(self).enforcement_state
            && final(self).persisted == old(self).persisted,                                                       //[C10.sign-cp-phase1.err-frame]
        r.is_ok() ==> final(self).persisted@ == final(self).enforcement_state,                                     //[C11.sign-cp-phase1.persisted]
//@proof before /let htlcs = Self::htlcs_info2_to_oic/
        proof {
            lemma_msat_fit_multiset(offered_htlcs@, info2.offered_htlcs@);
            lemma_msat_fit_multiset(received_htlcs@, info2.received_htlcs@);
        }
//@end

} // impl Channel

#[verifier::external_body] pub struct VxAddress { _p: u8 }
#[verifier::external_body] pub struct VxHTLCInfo { _p: u8 }
//@type vls-core/src/tx/tx.rs :: CommitmentInfo
//@const vls-core/src/util/transaction_utils.rs :: MIN_CHAN_DUST_LIMIT_SATOSHIS

} // verus!
fn main() {}
