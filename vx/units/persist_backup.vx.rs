//@unit persist_backup
//@props C11
// BackupPersister (vls-persist/src/backup_persister.rs): the composite persister that writes to a main and a backup store.
// For C11 ("every acknowledged state change is already durable") the composite must not acknowledge a write that one of the
// stores it is responsible for has not taken: an acknowledged write reached the backup store and - unless the main store is
// still waiting for its recovery - the main store, with the very arguments of the request; reads come from the main store
// when it is ready and from the backup otherwise.  The two underlying persisters are any implementations of Persist (the
// KVV persister is under contract in units persist_*): their methods are call markers with the exact arguments.
use vstd::prelude::*;
use vstd::std_specs::cmp::OrdSpec;
//@include prelude/core.rs
//@map /\bString\b/ => VxStr
//@map /AtomicBool/ => VxFlag
//@map /\.load\(Ordering::Relaxed\)/ => .vx_load()
//@map /ChainTracker<ChainMonitor>/ => VxTracker
//@map /Arc<dyn ValidatorFactory>/ => VxValidatorFactory
//@map /CoreChannelEntry/ => VxChannelEntry
//@map /CoreNodeEntry/ => VxNodeEntry
//@map /allowlist\.clone\(\)/ => vx_clone_texts(&allowlist)
verus! {

//@@TAGS

#[verifier::external_body] pub struct VxStr { _p: u8 }
#[verifier::external_body] pub struct PublicKey { _p: u8 }
#[verifier::external_body] pub struct NodeState { _p: u8 }
#[verifier::external_body] pub struct NodeConfig { _p: u8 }
#[verifier::external_body] pub struct ChannelStub { _p: u8 }
#[verifier::external_body] pub struct Channel { _p: u8 }
#[verifier::external_body] pub struct ChannelId { _p: u8 }
#[verifier::external_body] pub struct VxTracker { _p: u8 }
#[verifier::external_body] pub struct VxValidatorFactory { _p: u8 }
#[verifier::external_body] pub struct VxChannelEntry { _p: u8 }
#[verifier::external_body] pub struct VxNodeEntry { _p: u8 }
#[verifier::external_body] pub struct Error { _p: u8 }
#[verifier::external_body] pub struct VxFlag { _p: u8 }
impl VxFlag {
    pub uninterp spec fn val(&self) -> bool;
    #[verifier::external_body] pub fn vx_load(&self) -> (r: bool) ensures r == self.val() { unimplemented!() }
}
impl Clone for VxStr { #[verifier::external_body] fn clone(&self) -> (r: Self) ensures r == *self { unimplemented!() } }
// `allowlist.clone()` of a Vec<String>: the same texts
#[verifier::external_body]
pub fn vx_clone_texts(v: &Vec<VxStr>) -> (r: Vec<VxStr>) ensures r@ == v@ { unimplemented!() }

// lightning_signer::persist::Persist as far as the composite uses it
pub trait Persist: Sized {
    spec fn recovery_required_spec(&self) -> bool;
    spec fn node_written(&self, node_id: PublicKey, state: NodeState) -> bool;
    spec fn stub_written(&self, node_id: PublicKey, stub: ChannelStub) -> bool;
    spec fn channel_written(&self, node_id: PublicKey, channel: Channel) -> bool;
    spec fn channel_deleted(&self, node_id: PublicKey, channel_id: ChannelId) -> bool;
    spec fn tracker_written(&self, node_id: PublicKey, tracker: VxTracker) -> bool;
    spec fn allowlist_written(&self, node_id: PublicKey, allowlist: Seq<VxStr>) -> bool;
    spec fn channels_answer(&self, node_id: PublicKey) -> Result<Vec<(ChannelId, VxChannelEntry)>, Error>;
    spec fn nodes_answer(&self) -> Result<Vec<(PublicKey, VxNodeEntry)>, Error>;
    spec fn allowlist_answer(&self, node_id: PublicKey) -> Result<Vec<VxStr>, Error>;
    fn recovery_required(&self) -> (r: bool) ensures r == self.recovery_required_spec();
    fn update_node(&self, node_id: &PublicKey, state: &NodeState) -> (r: Result<(), Error>) ensures r.is_ok() ==> self.node_written(*node_id, *state);
    fn new_channel(&self, node_id: &PublicKey, stub: &ChannelStub) -> (r: Result<(), Error>) ensures r.is_ok() ==> self.stub_written(*node_id, *stub);
    fn update_channel(&self, node_id: &PublicKey, channel: &Channel) -> (r: Result<(), Error>) ensures r.is_ok() ==> self.channel_written(*node_id, *channel);
    fn delete_channel(&self, node_id: &PublicKey, channel_id: &ChannelId) -> (r: Result<(), Error>) ensures r.is_ok() ==> self.channel_deleted(*node_id, *channel_id);
    fn update_tracker(&self, node_id: &PublicKey, tracker: &VxTracker) -> (r: Result<(), Error>) ensures r.is_ok() ==> self.tracker_written(*node_id, *tracker);
    fn update_node_allowlist(&self, node_id: &PublicKey, allowlist: Vec<VxStr>) -> (r: Result<(), Error>) ensures r.is_ok() ==> self.allowlist_written(*node_id, allowlist@);
    fn get_node_channels(&self, node_id: &PublicKey) -> (r: Result<Vec<(ChannelId, VxChannelEntry)>, Error>) ensures r == self.channels_answer(*node_id);
    fn get_nodes(&self) -> (r: Result<Vec<(PublicKey, VxNodeEntry)>, Error>) ensures r == self.nodes_answer();
    fn get_node_allowlist(&self, node_id: &PublicKey) -> (r: Result<Vec<VxStr>, Error>) ensures r == self.allowlist_answer(*node_id);
}

//@type vls-persist/src/backup_persister.rs :: BackupPersister

impl<M: Persist, B: Persist> BackupPersister<M, B> {
    // the main store takes part unless it still waits for its recovery from the backup
    pub open spec fn main_ready(&self) -> bool { !self.main.recovery_required_spec() || self.initial_restore_complete.val() }

//@fn vls-persist/src/backup_persister.rs :: impl<M: Persist, B: Persist> BackupPersister<M, B> :: main_is_ready props=C11
    ensures r == self.main_ready(),
//@end

//@fn vls-persist/src/backup_persister.rs :: impl<M: Persist, B: Persist> Persist for BackupPersister<M, B> :: update_node props=C11
    ensures r.is_ok() ==> self.backup.node_written(*node_id, *state) && (self.main_ready() ==> self.main.node_written(*node_id, *state)),   //[C11.backup.node-write-reaches-both-stores]
//@end

//@fn vls-persist/src/backup_persister.rs :: impl<M: Persist, B: Persist> Persist for BackupPersister<M, B> :: new_channel props=C11
    ensures r.is_ok() ==> self.backup.stub_written(*node_id, *stub) && (self.main_ready() ==> self.main.stub_written(*node_id, *stub)),   //[C11.backup.stub-write-reaches-both-stores]
//@end

//@fn vls-persist/src/backup_persister.rs :: impl<M: Persist, B: Persist> Persist for BackupPersister<M, B> :: update_channel props=C11
    ensures r.is_ok() ==> self.backup.channel_written(*node_id, *channel) && (self.main_ready() ==> self.main.channel_written(*node_id, *channel)),   //[C11.backup.channel-write-reaches-both-stores]
//@end

//@fn vls-persist/src/backup_persister.rs :: impl<M: Persist, B: Persist> Persist for BackupPersister<M, B> :: delete_channel props=C11
    ensures r.is_ok() ==> self.backup.channel_deleted(*node_id, *channel_id) && (self.main_ready() ==> self.main.channel_deleted(*node_id, *channel_id)),   //[C11.backup.channel-delete-reaches-both-stores]
//@end

//@fn vls-persist/src/backup_persister.rs :: impl<M: Persist, B: Persist> Persist for BackupPersister<M, B> :: update_tracker props=C11
    ensures r.is_ok() ==> self.backup.tracker_written(*node_id, *tracker) && (self.main_ready() ==> self.main.tracker_written(*node_id, *tracker)),   //[C11.backup.tracker-write-reaches-both-stores]
//@end

//@fn vls-persist/src/backup_persister.rs :: impl<M: Persist, B: Persist> Persist for BackupPersister<M, B> :: update_node_allowlist props=C11
    ensures r.is_ok() ==> self.backup.allowlist_written(*node_id, allowlist@) && (self.main_ready() ==> self.main.allowlist_written(*node_id, allowlist@)),   //[C11.backup.allowlist-write-reaches-both-stores]
//@end

//@fn vls-persist/src/backup_persister.rs :: impl<M: Persist, B: Persist> Persist for BackupPersister<M, B> :: get_node_channels props=C11
    ensures r == (if self.main_ready() { self.main.channels_answer(*node_id) } else { self.backup.channels_answer(*node_id) }),   //[C11.backup.channels-read-from-the-current-store]
//@end

//@fn vls-persist/src/backup_persister.rs :: impl<M: Persist, B: Persist> Persist for BackupPersister<M, B> :: get_nodes props=C11
    ensures r == (if self.main_ready() { self.main.nodes_answer() } else { self.backup.nodes_answer() }),   //[C11.backup.nodes-read-from-the-current-store]
//@end

//@fn vls-persist/src/backup_persister.rs :: impl<M: Persist, B: Persist> Persist for BackupPersister<M, B> :: get_node_allowlist props=C11
    ensures r == (if self.main_ready() { self.main.allowlist_answer(*node_id) } else { self.backup.allowlist_answer(*node_id) }),   //[C11.backup.allowlist-read-from-the-current-store]
//@end

} // impl

} // verus!
fn main() {}
