//@unit tx_decoder
//@props C04
// The output handlers of the phase-1 commitment decoder (vls-core/src/tx/tx.rs, CommitmentInfo::handle_*_output): what the raw
// entry point of C04 learns from each output of the supplied transaction once the script template matched.  A decoder slip in
// the PERMISSIVE direction is harmless (the transaction rebuilt from the decoded content must equal the supplied one, units
// channel_cp / channel_holder); a slip in the RESTRICTIVE direction breaks the other half of C04 - "on every commitment the
// semantic entry point accepts, the raw entry point accepts the canonical transaction".  So each handler gets its acceptance
// rule as an EQUIVALENCE, and the content it records is pinned:
//   to-broadcaster output   accepted iff it is the first one, the script's delay is within [0, 2016] (2016 is also the largest
//                           contest delay setup validation admits under the default policy) and both keys are well formed;
//   delayed to-countersigner (anchors) accepted iff it is the first to-countersigner output and the key is well formed;
//   HTLC outputs            accepted iff the payment hash field has 20 bytes (received: and the CLTV is not negative); the HTLC
//                           recorded carries the output's value, that hash and (received) that expiry.
// The script template parsers (bitcoin script instructions) and handle_output's dispatch stay outside: trusted.
use vstd::prelude::*;
use vstd::std_specs::cmp::OrdSpec;
//@include prelude/core.rs
//@include prelude/deps.rs
//@include prelude/btc.rs
//@map /Option<Address>/ => Option<VxAddress>
verus! {

//@@TAGS

#[verifier::external_body] pub struct VxAddress { _p: u8 }
//@const vls-core/src/tx/tx.rs :: MAX_DELAY
//@type vls-core/src/tx/tx.rs :: HTLCInfo derive=Clone
//@type vls-core/src/tx/tx.rs :: CommitmentInfo

// PublicKey::from_slice(bytes): Some for the 33 / 65 byte encodings of a curve point (secp256k1, uninterpreted)
pub uninterp spec fn key_of_bytes(b: Seq<u8>) -> Option<PublicKey>;
#[verifier::external_body] pub struct VxKeyErr { _p: u8 }
#[verifier::external_body]
pub fn vx_pubkey_from_slice(b: &Vec<u8>) -> (r: Result<PublicKey, VxKeyErr>)
    ensures r.is_ok() == key_of_bytes(b@).is_some(), r.is_ok() ==> Some(r->Ok_0) == key_of_bytes(b@)
{ unimplemented!() }
pub trait VxKeyErrMap: Sized { fn vx_mismatch(self) -> (r: Result<PublicKey, ValidationError>) ensures r.is_ok() == self.vx_kok(), r.is_ok() ==> Some(r->Ok_0) == self.vx_kval(); spec fn vx_kok(self) -> bool; spec fn vx_kval(self) -> Option<PublicKey>; }
impl VxKeyErrMap for Result<PublicKey, VxKeyErr> {
    open spec fn vx_kok(self) -> bool { self.is_ok() }
    open spec fn vx_kval(self) -> Option<PublicKey> { match self { Ok(k) => Some(k), Err(_) => None } }
    #[verifier::external_body] fn vx_mismatch(self) -> (r: Result<PublicKey, ValidationError>) { unimplemented!() }
}
// `payment_hash_vec.as_slice().try_into()` into [u8; 20]: Ok exactly for 20 bytes, with those bytes
#[verifier::external_body]
pub fn vx_hash160_of(v: &Vec<u8>) -> (r: Result<[u8; 20], VxKeyErr>)
    ensures r.is_ok() == (v@.len() == 20), r.is_ok() ==> r->Ok_0@ == v@
{ unimplemented!() }

impl CommitmentInfo {

//@fn vls-core/src/tx/tx.rs :: impl CommitmentInfo :: has_to_broadcaster props=C04
    ensures r == self.to_broadcaster_delayed_pubkey.is_some(),
//@end

//@fn vls-core/src/tx/tx.rs :: impl CommitmentInfo :: has_to_countersigner props=C04
    ensures r == (self.to_countersigner_address.is_some() || self.to_countersigner_pubkey.is_some()),
//@end

//@fn vls-core/src/tx/tx.rs :: impl CommitmentInfo :: handle_to_broadcaster_output props=C04
    ensures
        // acceptance rule, both directions: in particular EVERY delay from 0 to 2016 is accepted
        r.is_ok() == (old(self).to_broadcaster_delayed_pubkey.is_none() && 0 <= vals.1 <= 2016
            && key_of_bytes(vals.2@).is_some() && key_of_bytes(vals.0@).is_some()),                       //[C04.decode.to-broadcaster-accepted-iff-first-and-delay-within-0-2016]
        // what is learnt: the delay, the value and the two keys of this output; nothing else moves
        r.is_ok() ==> *final(self) == (CommitmentInfo {
            to_self_delay: vals.1 as u16, to_broadcaster_value_sat: amount_sat(out.value),
            to_broadcaster_delayed_pubkey: key_of_bytes(vals.2@), revocation_pubkey: key_of_bytes(vals.0@), ..*old(self) }),   //[C04.decode.to-broadcaster-content]
//@sub /PublicKey::from_slice\(delayed_pubkey\.as_slice\(\)\)/ => vx_pubkey_from_slice(&delayed_pubkey)
//@sub /PublicKey::from_slice\(revocation_pubkey\.as_slice\(\)\)/ => vx_pubkey_from_slice(&revocation_pubkey)
//@end

//@fn vls-core/src/tx/tx.rs :: impl CommitmentInfo :: handle_to_countersigner_delayed_output props=C04
    ensures
        r.is_ok() == (old(self).to_countersigner_address.is_none() && old(self).to_countersigner_pubkey.is_none()
            && key_of_bytes(to_countersigner_delayed_pubkey_data@).is_some()),                             //[C04.decode.to-countersigner-delayed-accepted-iff-first-and-key-ok]
        r.is_ok() ==> *final(self) == (CommitmentInfo {
            to_countersigner_pubkey: key_of_bytes(to_countersigner_delayed_pubkey_data@), to_countersigner_value_sat: amount_sat(out.value), ..*old(self) }),
//@sub /PublicKey::from_slice\(to_countersigner_delayed_pubkey_data\.as_slice\(\)\)/ => vx_pubkey_from_slice(&to_countersigner_delayed_pubkey_data)
//@end

//@fn vls-core/src/tx/tx.rs :: impl CommitmentInfo :: handle_received_htlc_output props=C04
    ensures
        r.is_ok() == (vals.2@.len() == 20 && vals.4 >= 0),                                                 //[C04.decode.received-htlc-accepted-iff-hash160-and-cltv-nonnegative]
        r.is_ok() ==> final(self).received_htlcs@.len() == old(self).received_htlcs@.len() + 1
            && final(self).received_htlcs@.drop_last() == old(self).received_htlcs@
            && final(self).received_htlcs@.last().value_sat == amount_sat(out.value)
            && final(self).received_htlcs@.last().payment_hash_hash@ == vals.2@
            && final(self).received_htlcs@.last().cltv_expiry == vals.4 as u32,                            //[C04.decode.received-htlc-content]
        r.is_ok() ==> final(self).offered_htlcs == old(self).offered_htlcs && final(self).to_self_delay == old(self).to_self_delay
            && final(self).to_broadcaster_value_sat == old(self).to_broadcaster_value_sat && final(self).to_countersigner_value_sat == old(self).to_countersigner_value_sat,
//@sub /(?s)payment_hash_vec\s*\.as_slice\(\)\s*\.try_into\(\)/ => vx_hash160_of(&payment_hash_vec)
//@end

//@fn vls-core/src/tx/tx.rs :: impl CommitmentInfo :: handle_offered_htlc_output props=C04
    ensures
        r.is_ok() == (vals.3@.len() == 20),                                                                //[C04.decode.offered-htlc-accepted-iff-hash160]
        r.is_ok() ==> final(self).offered_htlcs@.len() == old(self).offered_htlcs@.len() + 1
            && final(self).offered_htlcs@.drop_last() == old(self).offered_htlcs@
            && final(self).offered_htlcs@.last().value_sat == amount_sat(out.value)
            && final(self).offered_htlcs@.last().payment_hash_hash@ == vals.3@
            && final(self).offered_htlcs@.last().cltv_expiry == 0,                                         //[C04.decode.offered-htlc-content]
        r.is_ok() ==> final(self).received_htlcs == old(self).received_htlcs && final(self).to_self_delay == old(self).to_self_delay,
//@sub /(?s)payment_hash_vec\s*\.as_slice\(\)\s*\.try_into\(\)/ => vx_hash160_of(&payment_hash_vec)
//@end

} // impl

} // verus!
fn main() {}
