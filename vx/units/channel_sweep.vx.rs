//@unit channel_sweep
//@props C09 C10
// Contracts on the sweep and second-level HTLC signing requests of Channel (vls-core/src/channel.rs): a signature
// is produced only after the validator accepted exactly this transaction, for an input that exists.
use vstd::prelude::*;
use vstd::std_specs::cmp::OrdSpec;
//@include prelude/core.rs
//@include prelude/deps.rs
//@include prelude/btc.rs
//@include frag/enforcement_types.rs
//@include prelude/channel_deps.rs
//@include prelude/ldk_tx.rs
//@include prelude/sv_deps.rs
//@include prelude/wallet.rs
//@map /Weak<Node>/ => VxNodeRef
//@map /Secp256k1<All>/ => VxSecp
//@map /Arc<dyn Validator>/ => VxValidator
//@map /Arc<Node>/ => VxWallet
//@map /Map<PaymentHash, u64>/ => VxPayMap
//@map /&\*self\.get_node\(\)/ => &self.get_node()
//@map /&dyn Wallet/ => &VxWallet
//@map /\bPolicyFilter\b/ => VxPolicyFilter
//@map /redeemscript: &Script\b/ => redeemscript: &ScriptBuf
//@map /&self\.keys\.delayed_payment_base_key/ => self.keys.vx_delayed_payment_base_key()
//@map /&self\.keys\.htlc_base_key/ => self.keys.vx_htlc_base_key()
//@map /&self\.keys\.revocation_base_key/ => self.keys.vx_revocation_base_key()
//@map /chan_utils::derive_private_revocation_key/ => derive_private_revocation_key
verus! {

//@@TAGS

//@include frag/enforcement_spec.rs
//@include frag/channel_types.rs
//@include frag/channel_spec.rs
//@include frag/sv_types.rs
//@include frag/sv_spec.rs
//@include frag/sweep_spec.rs

pub uninterp spec fn sv_policy(v: VxValidator) -> SimplePolicy;
pub uninterp spec fn chan_wallet(c: Channel) -> VxWallet;
pub uninterp spec fn ldk_delayed_base(k: InMemorySigner) -> SecretKey;
pub uninterp spec fn ldk_htlc_base(k: InMemorySigner) -> SecretKey;
pub uninterp spec fn ldk_revocation_base(k: InMemorySigner) -> SecretKey;
pub uninterp spec fn derived_private_key(point: PublicKey, base: SecretKey) -> SecretKey;
pub uninterp spec fn derived_private_revocation_key(secret: SecretKey, base: SecretKey) -> SecretKey;
impl InMemorySigner {
    #[verifier::external_body] pub fn vx_delayed_payment_base_key(&self) -> (r: &SecretKey) ensures *r == ldk_delayed_base(*self) { unimplemented!() }
    #[verifier::external_body] pub fn vx_htlc_base_key(&self) -> (r: &SecretKey) ensures *r == ldk_htlc_base(*self) { unimplemented!() }
    #[verifier::external_body] pub fn vx_revocation_base_key(&self) -> (r: &SecretKey) ensures *r == ldk_revocation_base(*self) { unimplemented!() }
}
#[verifier::external_body]
pub fn derive_private_key(secp: &VxSecp, point: &PublicKey, base: &SecretKey) -> (r: SecretKey) ensures r == derived_private_key(*point, *base) { unimplemented!() }
#[verifier::external_body]
pub fn derive_private_revocation_key(secp: &VxSecp, secret: &SecretKey, base: &SecretKey) -> (r: SecretKey) ensures r == derived_private_revocation_key(*secret, *base) { unimplemented!() }
//@type vls-core/src/channel.rs :: TypedSignature

impl Channel {
    // the validator the node's factory makes for this channel (deterministic per channel)
//@fn vls-core/src/channel.rs :: impl ChannelBase for Channel :: validator mode=trusted
    ensures r == chan_validator(*self),
//@end
//@fn vls-core/src/channel.rs :: impl Channel :: get_node mode=trusted
    ensures r == chan_wallet(*self),
//@end
//@fn vls-core/src/channel.rs :: impl Channel :: get_chain_state mode=trusted
    ensures height_sane(r),
//@end
//@fn vls-core/src/channel.rs :: impl ChannelBase for Channel :: get_per_commitment_point mode=trusted
//@end
//@fn vls-core/src/channel.rs :: impl Channel :: make_holder_tx_keys mode=trusted
//@end
//@fn vls-core/src/channel.rs :: impl Channel :: make_counterparty_tx_keys mode=trusted
//@end
}

impl VxValidator {
//@fn vls-core/src/policy/simple_validator.rs :: impl Validator for SimpleValidator :: validate_delayed_sweep mode=trusted
//@include frag/c/sv_validate_delayed_sweep.rs
//@end
//@fn vls-core/src/policy/simple_validator.rs :: impl Validator for SimpleValidator :: validate_counterparty_htlc_sweep mode=trusted
//@include frag/c/sv_validate_counterparty_htlc_sweep.rs
//@end
//@fn vls-core/src/policy/simple_validator.rs :: impl Validator for SimpleValidator :: validate_justice_sweep mode=trusted
//@include frag/c/sv_validate_justice_sweep.rs
//@end
//@fn vls-core/src/policy/simple_validator.rs :: impl Validator for SimpleValidator :: decode_and_validate_htlc_tx mode=trusted
//@include frag/c/sv_decode_and_validate_htlc_tx.rs
//@end
//@fn vls-core/src/policy/simple_validator.rs :: impl Validator for SimpleValidator :: validate_htlc_tx mode=trusted
//@include frag/c/sv_validate_htlc_tx.rs
//@end
}

pub uninterp spec fn chan_validator(c: Channel) -> VxValidator;
pub open spec fn htlc_ty(c: Channel) -> EcdsaSighashType {
    if setup_is_anchors(c.setup) { EcdsaSighashType::SinglePlusAnyoneCanPay } else { EcdsaSighashType::All }
}
// the supplied transaction has the sighash of the BOLT-3 HTLC transaction rebuilt for (rate, htlc), and rate is in range
pub open spec fn htlc_rebuilt_ok(c: Channel, tx: Transaction, redeemscript: ScriptBuf, amount_sat: u64, is_counterparty: bool,
    txkeys: TxCreationKeys, rate: u32, htlc: HTLCOutputInCommitment) -> bool
{
    let delay = if is_counterparty { c.setup.holder_selected_contest_delay } else { c.setup.counterparty_selected_contest_delay };
    &&& sighash_p2wsh(tx, 0, redeemscript, amount_sat, htlc_ty(c))
        == sighash_p2wsh(htlc_tx(tx.input@[0].previous_output.txid, rate, delay, htlc, setup_features(c.setup),
            txkeys.broadcaster_delayed_payment_key, txkeys.revocation_key), 0, redeemscript, amount_sat, htlc_ty(c))
    &&& (vx_strict(T_policy_htlc_fee_range) ==> rate <= sv_policy(chan_validator(c)).max_feerate_per_kw)
}

impl Channel {

//@fn vls-core/src/channel.rs :: impl Channel :: sign_delayed_sweep props=C09
    ensures
        r.is_ok() ==> input < tx.input@.len(),                                                              //[C09.sign-delayed.input-exists]
        r.is_ok() && vx_strict(T_policy_sweep_destination_allowlisted) ==> sweep_pays_node(chan_wallet(*self), *tx, *wallet_path),   //[C09.sign-delayed.destinations]
        r.is_ok() ==> tx.input@[0].sequence.0 == self.setup.counterparty_selected_contest_delay as u32,      //[C09.sign-delayed.sequence]
        r.is_ok() ==> exists|sk: SecretKey| r->Ok_0 == ecdsa_sign(message_of_digest(sighash_p2wsh(*tx, input as nat, *redeemscript, amount_sat,
            EcdsaSighashType::All)), sk),                                                                    //[C09.sign-delayed.signs-this-tx]
//@end

//@fn vls-core/src/channel.rs :: impl Channel :: sign_counterparty_htlc_sweep props=C09
    ensures
        r.is_ok() ==> input < tx.input@.len(),                                                              //[C09.sign-cp-htlc.input-exists]
        r.is_ok() && vx_strict(T_policy_sweep_destination_allowlisted) ==> sweep_pays_node(chan_wallet(*self), *tx, *wallet_path),   //[C09.sign-cp-htlc.destinations]
        r.is_ok() ==> seq_in(tx.input@[0].sequence.0, if setup_is_anchors(self.setup) { anchor_seqs() } else { non_anchor_seqs() }),   //[C09.sign-cp-htlc.sequence]
//@end

//@fn vls-core/src/channel.rs :: impl Channel :: sign_justice_sweep props=C09
    ensures
        r.is_ok() ==> input < tx.input@.len(),                                                              //[C09.sign-justice.input-exists]
        r.is_ok() && vx_strict(T_policy_sweep_destination_allowlisted) ==> sweep_pays_node(chan_wallet(*self), *tx, *wallet_path),   //[C09.sign-justice.destinations]
        r.is_ok() ==> seq_in(tx.input@[0].sequence.0, non_anchor_seqs()),                                    //[C09.sign-justice.sequence]
//@end

//@fn vls-core/src/channel.rs :: impl Channel :: sign_htlc_tx props=C09
    requires tx.input@.len() > 0, tx.output@.len() > 0, htlc_amount_sat * 1000 <= u64::MAX,   // indexing [0] panics otherwise (abort)
    ensures
        // only the BOLT-3 HTLC transaction for this HTLC with the negotiated delay and the channel's keys is signed,
        // and only with an in-range fee rate
        r.is_ok() ==> exists|rate: u32, htlc: HTLCOutputInCommitment|
            #[trigger] htlc_rebuilt_ok(*self, *tx, *redeemscript, htlc_amount_sat, is_counterparty, txkeys, rate, htlc),   //[C09.sign-htlc.only-rebuilt-tx]
        r.is_ok() ==> r->Ok_0.sig == ecdsa_sign(message_of_digest(sighash_p2wsh(*tx, 0, *redeemscript, htlc_amount_sat, htlc_ty(*self))),
            derived_private_key(*per_commitment_point, ldk_htlc_base(self.keys))),                           //[C09.sign-htlc.signs-that-sighash]
//@proof before /let htlc_privkey =/
        proof { assert(htlc_rebuilt_ok(*self, *tx, *redeemscript, htlc_amount_sat, is_counterparty, txkeys, feerate_per_kw, htlc)); }
//@end

} // impl

} // verus!
fn main() {}
