//@unit node_ids
//@props C15
// Contracts on the node-assigned channel id discipline (vls-core/src/node.rs), under the sequential mutex model:
// Node::new_channel refuses ids at or below the high-water mark, Node::forget_channel raises the mark to the
// forgotten id - so a forgotten id (or a lower one) is never used again.
use vstd::prelude::*;
use vstd::std_specs::cmp::OrdSpec;
//@include prelude/core.rs
//@include prelude/deps.rs
//@include prelude/btc.rs
//@map /Map<PaymentHash, PaymentState>/ => VxInvoiceMap
//@map /Map<PaymentHash, RoutedPayment>/ => VxPaymentMap
//@map /OrderedSet<Allowable>/ => VxAllowSet
//@map /\bString\b/ => VxStr
//@map /Secp256k1<secp256k1::All>/ => VxSecp
//@map /Mutex<OrderedMap<ChannelId, Arc<Mutex<ChannelSlot>>>>/ => VxSeqMutex<VxChannelMap>
//@map /Mutex<Arc<dyn ValidatorFactory>>/ => VxSeqMutex<VxValidatorFactory>
//@map /Arc<dyn Persist>/ => VxPersist
//@map /Arc<dyn Clock>/ => VxClock
//@map /Mutex<ChainTracker<ChainMonitor>>/ => VxSeqMutex<VxTracker>
//@map /Mutex<NodeState>/ => VxSeqMutex<NodeState>
//@map /&Arc<Node>/ => &VxArcNode
//@map /\(ChannelId, Option<ChannelSlot>\)/ => (ChannelId, Option<VxSlotValue>)
//@map /let mut node_state(: MutexGuard<'_, NodeState>)? = self\.get_state\(\);/ => 
//@map /(?<![\w.])node_state\./ => self.state.val.
//@map /&node_state\b/ => &self.state.val
//@map /self\.get_state\(\)\./ => self.state.val.
//@map /let mut channels = self\.get_channels\(\);/ => 
//@map /(?<![\w.])channels\./ => self.channels.val.
verus! {

//@@TAGS

#[verifier::external_body] pub struct VxInvoiceMap { _p: u8 }
#[verifier::external_body] pub struct VxPaymentMap { _p: u8 }
#[verifier::external_body] pub struct VxAllowSet { _p: u8 }
#[verifier::external_body] pub struct VxStr { _p: u8 }
#[verifier::external_body] pub struct VxSecp { _p: u8 }
#[verifier::external_body] pub struct VxValidatorFactory { _p: u8 }
#[verifier::external_body] pub struct VxClock { _p: u8 }
#[verifier::external_body] pub struct VxTracker { _p: u8 }
#[verifier::external_body] pub struct VxArcNode { _p: u8 }
#[verifier::external_body] pub struct VxSlotValue { _p: u8 }
#[verifier::external_body] pub struct MyKeysManager { _p: u8 }
#[verifier::external_body] pub struct KeyDerivationStyle { _p: u8 }
#[verifier::external_body] pub struct Network { _p: u8 }
#[verifier::external_body] pub struct VelocityControl { _p: u8 }
#[verifier::external_body] pub struct PersistError { _p: u8 }
pub struct VxSeqMutex<T> { pub val: T }

// the channel map: ChannelId -> slot; a slot is either a stub or a ready channel
#[verifier::external_body] pub struct VxChannelMap { _p: u8 }
#[verifier::external_body] pub struct VxSlotRef { _p: u8 }
pub enum ChannelSlotView { Stub, Ready }
pub uninterp spec fn oid_of(id: ChannelId) -> u64;
impl ChannelId {
    #[verifier::external_body]
    pub fn oid(&self) -> (r: u64) ensures r == oid_of(*self) { unimplemented!() }
    #[verifier::external_body]
    pub fn new_from_peer_id_and_oid(peer_id: &[u8; 33], oid: u64) -> (r: ChannelId) ensures oid_of(r) == oid { unimplemented!() }   // proved by Kani: c15_oid_roundtrip_cln
}
impl VxChannelMap {
    pub uninterp spec fn view(&self) -> Map<ChannelId, ChannelSlotView>;
    #[verifier::external_body]
    pub fn get(&self, id: &ChannelId) -> (r: Option<&VxSlotRef>)
        ensures r.is_some() == self@.dom().contains(*id), r.is_some() ==> r->Some_0.kind() == self@[*id] && *r->Some_0 == self.slot(*id)
    { unimplemented!() }
    // the slot (the shared Arc<Mutex<ChannelSlot>>) registered under this id
    pub uninterp spec fn slot(&self, id: ChannelId) -> VxSlotRef;
    #[verifier::external_body]
    pub fn remove(&mut self, id: &ChannelId) -> (r: Option<VxSlotRef>)
        ensures final(self)@ == old(self)@.remove(*id), r.is_some() == old(self)@.dom().contains(*id)
    { unimplemented!() }
}
impl VxSlotRef {
    pub uninterp spec fn kind(&self) -> ChannelSlotView;
    // `slot.lock().unwrap()` followed by `match &*channel`: the kind of slot; a ready channel can be asked to forget itself
    #[verifier::external_body]
    pub fn vx_is_stub(&self) -> (r: bool) ensures r == (self.kind() is Stub) { unimplemented!() }
    #[verifier::external_body]
    pub fn vx_forget(&self) -> Result<(), Status> { unimplemented!() }
    // Arc::clone(slot_arc): another handle on the same slot
    #[verifier::external_body]
    pub fn vx_arc_clone(&self) -> (r: VxSlotRef) ensures r == *self { unimplemented!() }
}
#[verifier::external_body] pub struct VxPersist { _p: u8 }
impl VxPersist {
    // ghost: the high-water mark the store holds (what a restarted signer will see), R10-style
    pub uninterp spec fn persisted_hwm(&self) -> u64;
    #[verifier::external_body]
    pub fn update_node(&mut self, id: &PublicKey, st: &NodeState) -> (r: Result<(), PersistError>)
        ensures r.is_ok() ==> final(self).persisted_hwm() == st.dbid_high_water_mark,
                r.is_err() ==> final(self).persisted_hwm() == old(self).persisted_hwm(),
    { unimplemented!() }
    #[verifier::external_body]
    pub fn delete_channel(&mut self, id: &PublicKey, cid: &ChannelId) -> (r: Result<(), PersistError>)
        ensures final(self).persisted_hwm() == old(self).persisted_hwm(),
            r.is_ok() ==> final(self).record_deleted(*cid),
            forall|c: ChannelId| old(self).record_deleted(c) ==> final(self).record_deleted(c),
    { unimplemented!() }
    // call marker: the stored record of this channel was deleted (KVVPersister::delete_channel, unit persist_channels)
    pub uninterp spec fn record_deleted(&self, cid: ChannelId) -> bool;
}

//@type vls-core/src/node.rs :: NodeState
//@type vls-core/src/node.rs :: NodeConfig
//@type vls-core/src/node.rs :: Node

impl Node {

//@fn vls-core/src/node.rs :: impl Node :: get_id props=C15
    ensures r == self.node_id,
//@end

    #[verifier::external_body]
    fn find_or_create_channel(&mut self, channel_id: ChannelId, arc_self: &VxArcNode) -> (r: Result<(ChannelId, Option<VxSlotValue>), Status>)
        ensures final(self).state == old(self).state,
            r.is_ok() ==> r->Ok_0.0 == channel_id,
    { unimplemented!() }

//@fn vls-core/src/node.rs :: impl Node :: get_channel props=C15,C01,C03 optclosures
//@sigsub /Result<Arc<Mutex<ChannelSlot>>, Status>/ => Result<VxSlotRef, Status>
    ensures
        // a request that names a channel id is served by the slot registered under exactly this id, and refused when there is none
        // (Node::with_channel / with_channel_base - what every per-channel request of the protocol handler goes through - start here)
        r.is_ok() == self.channels.val@.dom().contains(*channel_id),                                     //[C15.get-channel.known-ids-only]
        r.is_ok() ==> r->Ok_0 == self.channels.val.slot(*channel_id) && r->Ok_0.kind() == self.channels.val@[*channel_id],   //[C15.get-channel.slot-registered-under-exactly-this-id] [C01.node.request-served-by-the-slot-of-its-channel-id] [C03.node.request-served-by-the-slot-of-its-channel-id]
//@sub /let mut guard = self\.get_channels\(\);/ => 
//@sub /guard\.get_mut\(/ => self.channels.val.get(
//@sub /Arc::clone\((\w+)\)/ => \1.vx_arc_clone()
//@end

//@fn vls-core/src/node.rs :: impl Node :: new_channel props=C15
//@sigsub /&self/ => &mut self
    ensures
        // an id at or below the high-water mark is never accepted again
        r.is_ok() ==> dbid > old(self).state.val.dbid_high_water_mark && oid_of(r->Ok_0.0) == dbid,    //[C15.new-channel.above-high-water-mark]
        final(self).state.val.dbid_high_water_mark == old(self).state.val.dbid_high_water_mark,
//@end

//@fn vls-core/src/node.rs :: impl Node :: forget_channel props=C15,C11
//@sigsub /&self/ => &mut self
    requires old(self).persister.persisted_hwm() == old(self).state.val.dbid_high_water_mark,    // the store is in sync between requests
    ensures
        // ... also after a restart: the store holds the raised mark when the request returns (C11 for the mark)
        final(self).persister.persisted_hwm() == final(self).state.val.dbid_high_water_mark,             //[C15.forget.mark-durable] [C11.forget.mark-durable]
        // forgetting a known channel raises the mark to at least its id; the mark never decreases
        final(self).state.val.dbid_high_water_mark >= old(self).state.val.dbid_high_water_mark,          //[C15.forget.mark-monotone]
        r.is_ok() && old(self).channels.val@.dom().contains(*channel_id) ==>
            final(self).state.val.dbid_high_water_mark >= oid_of(*channel_id),                           //[C15.forget.mark-covers-forgotten-id]
        // only a stub is dropped from the map here; a ready channel stays until the monitor says it is done (prune_channels)
        forall|id: ChannelId| old(self).channels.val@.dom().contains(id) && !(old(self).channels.val@[id] is Stub)
            ==> final(self).channels.val@.dom().contains(id),                                            //[C15.forget.ready-channel-survives]
        // a forgotten STUB is gone for good: dropped from the map and its stored record deleted, so a restart does not bring a
        // channel with this id back
        r.is_ok() && old(self).channels.val@.dom().contains(*channel_id) && old(self).channels.val@[*channel_id] is Stub
            ==> !final(self).channels.val@.dom().contains(*channel_id) && final(self).persister.record_deleted(*channel_id),   //[C15.forget.stub-record-deleted]
//@sub /(?s)let channel = slot\.lock\(\)\.vx_expect\(\);\s*match &\*channel \{.*?ChannelSlot::Stub\(_\) => \{(.*?)\}\s*ChannelSlot::Ready\(chan\) => \{\s*chan\.forget\(\)\?;\s*\}\s*\};/ => if slot.vx_is_stub() {\1} else { slot.vx_forget()?; }
//@sub /self\.channels\.val\.remove\(&channel_id\)/ => self.channels.val.remove(channel_id)
//@end

} // impl

// the two contracts together: after forgetting id x, every accepted new id is above x
pub proof fn c15_no_reuse(mark_after_forget: u64, forgotten: u64, later_mark: u64, new_id: u64)
    requires mark_after_forget >= forgotten, later_mark >= mark_after_forget, new_id > later_mark,
    ensures new_id > forgotten,                                                                          //[C15.lemma.forgotten-id-never-reused]
{}

} // verus!
fn main() {}
