//@unit velocity_window
//@props C12
// C12 over histories: any sequence of insert requests with non-decreasing times, run through the step function that
// VelocityControl::insert is proved equal to (unit velocity, [C12.insert.step] / [C12.insert.accept]), approves within
// any time window no longer than the tracked interval minus one bucket at most the limit.  Pure spec + proofs.
use vstd::prelude::*;
use vstd::std_specs::cmp::OrdSpec;
//@include prelude/core.rs
verus! {

//@type vls-core/src/util/velocity.rs :: VelocityControl
//@type vls-core/src/util/velocity.rs :: VelocityControlIntervalType
//@type vls-core/src/util/velocity.rs :: VelocityControlSpec

//@include frag/velocity_spec.rs

//@include lemmas/velocity_window.rs

} // verus!
fn main() {}
