//@unit persist_channels
//@props C11 C15
// Contracts on the store side of the channel records (vls-persist/src/kvv.rs, vls-persist/src/model.rs): what
// KVVPersister::update_channel writes for a channel and what get_node_channels hands back at a restart.  Unit
// node_restore_channels proves what Node::new_from_persistence makes of the entries it is given; this unit pins that an
// entry is written under the channel's node-assigned id with exactly the channel's setup, permanent id and enforcement
// state, and read back field by field under the id its key carries.
use vstd::prelude::*;
use vstd::std_specs::cmp::OrdSpec;
//@include prelude/core.rs
//@map /\bString\b/ => VxStr
verus! {

//@@TAGS

#[verifier::external_body] pub struct VxStr { _p: u8 }
#[verifier::external_body] pub struct PublicKey { _p: u8 }
#[verifier::external_body] pub struct Error { _p: u8 }
#[verifier::external_body] pub struct ChannelSetup { _p: u8 }
#[verifier::external_body] pub struct EnforcementState { _p: u8 }
#[verifier::external_body] pub struct ChannelId { _p: u8 }
#[verifier::external_body] pub struct ChannelRest { _p: u8 }
impl Clone for ChannelSetup { #[verifier::external_body] fn clone(&self) -> (r: Self) ensures r == *self { unimplemented!() } }
impl Clone for EnforcementState { #[verifier::external_body] fn clone(&self) -> (r: Self) ensures r == *self { unimplemented!() } }
impl Clone for ChannelId { #[verifier::external_body] fn clone(&self) -> (r: Self) ensures r == *self { unimplemented!() } }
pub uninterp spec fn setup_value_sat(s: ChannelSetup) -> u64;
impl ChannelSetup {
    // the pub field `channel_value_sat`
    #[verifier::external_body] pub fn vx_channel_value_sat(&self) -> (r: u64) ensures r == setup_value_sat(*self) { unimplemented!() }
}

//@type vls-persist/src/model.rs :: ChannelEntry
//@type vls-core/src/persist/model.rs :: ChannelEntry as=CoreChannelEntry

// Channel as far as update_channel reads it
pub struct Channel { pub id0: ChannelId, pub id: Option<ChannelId>, pub setup: ChannelSetup, pub enforcement_state: EnforcementState, pub rest: ChannelRest }

// ChannelStub as far as new_channel reads it
pub struct ChannelStub { pub id0: ChannelId, pub blockheight: u32, pub rest: ChannelRest }
pub uninterp spec fn fresh_enforcement_state() -> EnforcementState;      // EnforcementState::new(0)
impl EnforcementState {
    #[verifier::external_body] pub fn new(n: u64) -> (r: EnforcementState) requires n == 0 ensures r == fresh_enforcement_state() { unimplemented!() }
}

impl Channel {
// Channel::id(): the permanent id if there is one, else the node-assigned id (NOT what records are keyed by)
//@fn vls-core/src/channel.rs :: impl Channel :: id props=C15
    ensures r == (match self.id { Some(i) => i, None => self.id0 }),
//@end
}
impl CoreChannelEntry {
//@fn vls-persist/src/model.rs :: impl From<ChannelEntry> for CoreChannelEntry :: from props=C11
    ensures r.channel_value_satoshis == e.channel_value_satoshis && r.channel_setup == e.channel_setup && r.id == e.id
        && r.enforcement_state == e.enforcement_state && r.blockheight == e.blockheight,                          //[C11.model.channel-entry-read-back-fieldwise]
//@end
}
pub open spec fn to_core_entry(e: ChannelEntry) -> CoreChannelEntry {
    CoreChannelEntry { channel_value_satoshis: e.channel_value_satoshis, channel_setup: e.channel_setup, id: e.id,
        enforcement_state: e.enforcement_state, blockheight: e.blockheight }
}

// ---- the persister: keys, (de)serialisation (serde, assumed a round trip), key-value store (units kvv_*) ----
#[verifier::external_body] pub struct VxKvvPersister { _p: u8 }
pub uninterp spec fn chan_key(node_id: PublicKey, id: ChannelId) -> VxStr;      // "channel/<node id hex>/<channel id hex>"
pub uninterp spec fn ser_channel_entry(e: ChannelEntry) -> Seq<u8>;
pub uninterp spec fn de_channel_entry(b: Seq<u8>) -> ChannelEntry;
pub uninterp spec fn key_channel_id(prefix: VxStr, key: VxStr) -> ChannelId;     // ChannelId::new(extract_key_suffix(prefix, key))
pub uninterp spec fn kv_put(p: VxKvvPersister, key: VxStr, value: Seq<u8>) -> bool;   // call marker: this key/value was handed to the store
#[verifier::external_body]
pub fn vx_chan_key(node_id: &PublicKey, id: &ChannelId) -> (r: VxStr) ensures r == chan_key(*node_id, *id) { unimplemented!() }
#[verifier::external_body]
pub fn vx_chan_prefix(node_id: &PublicKey) -> VxStr { unimplemented!() }
#[verifier::external_body]
pub fn vx_ser_channel_entry(e: &ChannelEntry) -> (r: Result<Vec<u8>, Error>) ensures r.is_ok() ==> r->Ok_0@ == ser_channel_entry(*e) { unimplemented!() }
#[verifier::external_body]
pub fn vx_de_channel_entry(v: &Vec<u8>) -> (r: Result<ChannelEntry, Error>) ensures r.is_ok() ==> r->Ok_0 == de_channel_entry(v@) { unimplemented!() }
#[verifier::external_body]
pub fn vx_key_channel_id(prefix: &VxStr, key: &VxStr) -> (r: ChannelId) ensures r == key_channel_id(*prefix, *key) { unimplemented!() }
impl VxKvvPersister {
    #[verifier::external_body]
    pub fn put(&self, key: &VxStr, value: Vec<u8>) -> (r: Result<(), Error>) ensures r.is_ok() ==> kv_put(*self, *key, value@) { unimplemented!() }
    // KVVStore::delete (units kvv_*: a tombstone at the next version) and KVVStore::get
    pub uninterp spec fn kv_deleted(&self, key: VxStr) -> bool;      // call marker
    #[verifier::external_body]
    pub fn delete(&self, key: &VxStr) -> (r: Result<(), Error>) ensures r.is_ok() ==> self.kv_deleted(*key) { unimplemented!() }
    pub uninterp spec fn stored(&self, key: VxStr) -> Option<(u64, Vec<u8>)>;
    #[verifier::external_body]
    pub fn get_version(&self, key: &VxStr) -> (r: Result<Option<u64>, Error>)
        ensures r.is_ok() ==> r->Ok_0 == (match self.stored(*key) { Some(vv) => Some(vv.0), None => None }) { unimplemented!() }
    #[verifier::external_body]
    pub fn get(&self, key: &VxStr) -> (r: Result<Option<(u64, Vec<u8>)>, Error>) ensures r.is_ok() ==> r->Ok_0 == self.stored(*key) { unimplemented!() }
    // self.get_prefix(prefix)? with KVV::into_inner applied: (key, value) pairs under the prefix, tombstones included
    pub uninterp spec fn under_prefix(&self, prefix: VxStr) -> Seq<(VxStr, Vec<u8>)>;
    #[verifier::external_body]
    pub fn vx_get_prefix(&self, prefix: &VxStr) -> (r: Result<Vec<(VxStr, Vec<u8>)>, Error>) ensures r.is_ok() ==> r->Ok_0@ == self.under_prefix(*prefix) { unimplemented!() }

//@fn vls-persist/src/kvv.rs :: impl<S: KVVStore, F: ValueFormat> Persist for KVVPersister<S, F> :: update_channel props=C11,C15
    ensures
        // the record is written under the channel's NODE-ASSIGNED id (id0, the id its keys are derived from) and holds exactly
        // the channel's setup, permanent id and enforcement state
        r.is_ok() ==> kv_put(*self, chan_key(*node_id, channel.id0), ser_channel_entry(ChannelEntry {
            channel_value_satoshis: setup_value_sat(channel.setup), channel_setup: Some(channel.setup), id: channel.id,
            enforcement_state: channel.enforcement_state, blockheight: None })),                                   //[C11.store.channel-record-verbatim-under-id0]
//@sub /make_key2\(CHANNEL_PREFIX, &node_id\.serialize\(\), ([\w.()]+?)\.as_slice\(\)\)/ => vx_chan_key(node_id, &\1)
//@sub /channel\.setup\.channel_value_sat/ => channel.setup.vx_channel_value_sat()
//@sub /F::ser_value\(&entry\)\?/ => vx_ser_channel_entry(&entry)?
//@end

//@fn vls-persist/src/kvv.rs :: impl<S: KVVStore, F: ValueFormat> Persist for KVVPersister<S, F> :: new_channel props=C11,C15
    ensures
        // a new stub is recorded under its node-assigned id with its birth height and no setup: the restart path rebuilds a
        // stub (not a ready channel) from it
        r.is_ok() ==> kv_put(*self, chan_key(*node_id, stub.id0), ser_channel_entry(ChannelEntry {
            channel_value_satoshis: 0, channel_setup: None, id: None,
            enforcement_state: fresh_enforcement_state(), blockheight: Some(stub.blockheight) })),                  //[C11.store.stub-record-under-id0]
//@sub /make_key2\(CHANNEL_PREFIX, &node_id\.serialize\(\), ([\w.()]+?)\.as_slice\(\)\)/ => vx_chan_key(node_id, &\1)
//@sub /F::ser_value\(&entry\)\?/ => vx_ser_channel_entry(&entry)?
//@end

//@fn vls-persist/src/kvv.rs :: impl<S: KVVStore, F: ValueFormat> Persist for KVVPersister<S, F> :: delete_channel props=C15,C11
    ensures
        // exactly the record of this node and this id is deleted
        r.is_ok() ==> self.kv_deleted(chan_key(*node_id, *channel_id)),                                            //[C15.store.delete-removes-this-channel-record]
//@sub /make_key2\(CHANNEL_PREFIX, &node_id\.serialize\(\), ([\w.()]+?)\.as_slice\(\)\)/ => vx_chan_key(node_id, \1)
//@end

//@fn vls-persist/src/kvv.rs :: impl<S: KVVStore, F: ValueFormat> Persist for KVVPersister<S, F> :: get_channel props=C11
//@sigsub /CoreChannelEntry/ => CoreChannelEntry
    ensures
        // the record read back is the one stored under this node and this id, field by field
        r.is_ok() ==> self.stored(chan_key(*node_id, *channel_id)).is_some()
            && r->Ok_0 == to_core_entry(de_channel_entry(self.stored(chan_key(*node_id, *channel_id))->Some_0.1@)),   //[C11.store.channel-record-read-back-by-id]
//@sub /make_key2\(CHANNEL_PREFIX, &node_id\.serialize\(\), ([\w.()]+?)\.as_slice\(\)\)/ => vx_chan_key(node_id, \1)
//@sub /let entry: ChannelEntry = F::de_value\(&value\)\?;/ => let entry: ChannelEntry = vx_de_channel_entry(&value)?;
//@sub /entry\.into\(\)/ => CoreChannelEntry::from(entry)
//@end

// what one stored pair becomes at a restart
    pub open spec fn restored_pair(prefix: VxStr, kv: (VxStr, Vec<u8>)) -> (ChannelId, CoreChannelEntry) {
        (key_channel_id(prefix, kv.0), to_core_entry(de_channel_entry(kv.1@)))
    }

    // the stored pairs in order, tombstones (empty values) dropped, each turned into its restart entry
    pub open spec fn restored_all(prefix: VxStr, s: Seq<(VxStr, Vec<u8>)>) -> Seq<(ChannelId, CoreChannelEntry)>
        decreases s.len()
    {
        if s.len() == 0 { Seq::empty() } else {
            let r = Self::restored_all(prefix, s.drop_last());
            if s.last().1@.len() > 0 { r.push(Self::restored_pair(prefix, s.last())) } else { r }
        }
    }

//@fn vls-persist/src/kvv.rs :: impl<S: KVVStore, F: ValueFormat> Persist for KVVPersister<S, F> :: get_node_channels props=C11,C15
//@sigsub /CoreChannelEntry/ => CoreChannelEntry
    ensures
        // every entry handed to the restart path is a stored, non-empty record: its id is the id in the record's key, its
        // contents are the stored contents field by field; no stored non-empty record is left out, none appears twice
        r.is_ok() ==> exists|pfx: VxStr| r->Ok_0@ == Self::restored_all(pfx, self.under_prefix(pfx)),           //[C11.store.channel-records-read-back-verbatim] [C15.store.channel-id-from-key]
//@sub /let prefix = make_key\(CHANNEL_PREFIX, &node_id\.serialize\(\)\) \+ SEPARATOR;/ => let prefix = vx_chan_prefix(node_id);
//@sub /let mut res = Vec::new\(\);/ => let mut res: Vec<(ChannelId, CoreChannelEntry)> = Vec::new();
//@sub /for kvv in self\.get_prefix\(&prefix\)\? \{/ => let vx_kvvs = self.vx_get_prefix(&prefix)?; for kvv in vx_kvvs {
//@sub /let \(key, \(_r, value\)\) = kvv\.into_inner\(\);/ => let (key, value) = kvv;
//@sub /(?s)let suffix = extract_key_suffix\(&prefix, &key\);\s*let channel_id = ChannelId::new\(&suffix\);/ => let channel_id = vx_key_channel_id(&prefix, &key);
//@sub /let entry: ChannelEntry = F::de_value\(&value\)\?;/ => let entry: ChannelEntry = vx_de_channel_entry(&value)?;
//@sub /entry\.into\(\)/ => CoreChannelEntry::from(entry)
//@loop 1 iter=it
        invariant
            vx_kvvs@ == self.under_prefix(prefix),
            res@ == Self::restored_all(prefix, vx_kvvs@.take(it.index@ as int)),
//@proof after /let \(key, value\) = kvv;/
            proof {
                let i = it.index@ as int;
                assert(vx_kvvs@.take(i + 1).drop_last() =~= vx_kvvs@.take(i));
                assert(vx_kvvs@.take(i + 1).last() == vx_kvvs@[i]);
            }
//@proof before /^\s*Ok\(res\)\s*$/
        proof { assert(vx_kvvs@.take(vx_kvvs@.len() as int) =~= vx_kvvs@); }
//@end
}

} // verus!
fn main() {}
