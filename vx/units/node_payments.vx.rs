//@unit node_payments
//@props C06 C12 C10 C11
// Contracts on the node-wide payment ledger (vls-core/src/node.rs): RoutedPayment::{updated_incoming_outgoing, apply,
// get_cltv_bounds} and NodeState::validate_payments.  Together with unit pay_summary (what a channel reports) and
// SimpleValidator::validate_payment_balance (unit sv_commit) they give the per-update step of C06: an accepted update
// leaves, for every hash it touches, the node-wide outgoing total covered by the node-wide incoming total plus the
// approved amount plus the fee allowance.
use vstd::prelude::*;
use vstd::std_specs::cmp::OrdSpec;
//@include prelude/core.rs
//@include prelude/deps.rs
//@include prelude/btc.rs
//@include frag/enforcement_types.rs
//@map /Map<PaymentHash, PaymentState>/ => VxInvoiceMap
//@map /Map<PaymentHash, RoutedPayment>/ => VxPaymentMap
//@map /Map<PaymentHash, u64>/ => VxPayMap
//@map /OrderedMap<ChannelId, u64>/ => VxChanMap
//@map /OrderedMap::new\(\)/ => VxChanMap::new()
//@map /OrderedSet<Allowable>/ => VxAllowSet
//@map /\bString\b/ => VxStr
//@map /Arc<dyn Validator>/ => VxValidator
//@map /\.values\(\)\.sum::<u64>\(\)/ => .vx_sum()
//@map /\.values\(\)\.into_iter\(\)\.sum::<u64>\(\)/ => .vx_sum()
//@map /(\w+(?:\.\w+)*)\.payments\.entry\((\w+)\)\.or_insert_with\(RoutedPayment::new\);/ => \1.payments.vx_ensure(\2);
//@map /\bDuration::from_secs\(/ => VxDuration::from_secs(
//@map /\bDuration\b/ => VxDuration
//@map /UnorderedSet<&PaymentHash>/ => VxHashSet
//@map /UnorderedSet::new\(\)/ => VxHashSet::new()
//@macro defer => {}
verus! {

//@@TAGS

// ---- opaque carriers (R5, R6) ----
#[verifier::external_body] pub struct VxAllowSet { _p: u8 }
#[verifier::external_body] pub struct VxStr { _p: u8 }
#[verifier::external_body] pub struct VxDuration { _p: u8 }
//@type vls-core/src/node.rs :: PaymentType
pub struct PaymentPreimage(pub [u8; 32]);
#[verifier::external_body] pub struct VxValidator { _p: u8 }
impl Clone for VxValidator { #[verifier::external_body] fn clone(&self) -> (r: Self) ensures r == *self { unimplemented!() } }

// sum of the values of a finite map (TCB: the two facts used are the defining equations of a finite sum)
pub uninterp spec fn map_total(m: Map<ChannelId, u64>) -> nat;
pub open spec fn get0(m: Map<ChannelId, u64>, k: ChannelId) -> nat { if m.contains_key(k) { m[k] as nat } else { 0 } }
#[verifier::external_body]
pub proof fn axiom_map_total_insert(m: Map<ChannelId, u64>, k: ChannelId, v: u64) ensures map_total(m.insert(k, v)) == map_total(m) - get0(m, k) + v, get0(m, k) <= map_total(m) {}

// alloc::collections::BTreeMap<ChannelId, u64>
#[verifier::external_body] pub struct VxChanMap { _p: u8 }
impl Clone for VxChanMap { #[verifier::external_body] fn clone(&self) -> (r: Self) ensures r == *self { unimplemented!() } }
impl VxChanMap {
    pub uninterp spec fn view(&self) -> Map<ChannelId, u64>;
    #[verifier::external_body]
    pub fn new() -> (r: VxChanMap) ensures r@ == Map::<ChannelId, u64>::empty() { unimplemented!() }
    // `.values().sum::<u64>()`: aborts (debug) or wraps (release) beyond u64; the contract speaks about the case that fits
    #[verifier::external_body]
    pub fn vx_sum(&self) -> (r: u64) ensures map_total(self@) <= u64::MAX ==> r == map_total(self@) { unimplemented!() }
    #[verifier::external_body]
    pub fn get(&self, k: &ChannelId) -> (r: Option<&u64>)
        ensures r.is_some() == self@.contains_key(*k), r.is_some() ==> *(r->Some_0) == self@[*k] { unimplemented!() }
    #[verifier::external_body]
    pub fn insert(&mut self, k: ChannelId, v: u64) -> (r: Option<u64>) ensures final(self)@ == old(self)@.insert(k, v) { unimplemented!() }
    // the rest of the map API a body may use (std semantics)
    #[verifier::external_body]
    pub fn remove(&mut self, k: &ChannelId) -> (r: Option<u64>)
        ensures final(self)@ == old(self)@.remove(*k), r.is_some() == old(self)@.contains_key(*k), r.is_some() ==> r->Some_0 == old(self)@[*k] { unimplemented!() }
    #[verifier::external_body]
    pub fn clear(&mut self) ensures final(self)@ == Map::<ChannelId, u64>::empty() { unimplemented!() }
    #[verifier::external_body]
    pub fn contains_key(&self, k: &ChannelId) -> (r: bool) ensures r == self@.contains_key(*k) { unimplemented!() }
    #[verifier::external_body]
    pub fn is_empty(&self) -> (r: bool) ensures r == (self@ == Map::<ChannelId, u64>::empty()) { unimplemented!() }
}
// hashbrown maps keyed by payment hash
#[verifier::external_body] pub struct VxPayMap { _p: u8 }
impl VxPayMap {
    pub uninterp spec fn view(&self) -> Map<PaymentHash, u64>;
    #[verifier::external_body]
    pub fn get(&self, k: &PaymentHash) -> (r: Option<&u64>)
        ensures r.is_some() == self@.contains_key(*k), r.is_some() ==> *(r->Some_0) == self@[*k] { unimplemented!() }
}
#[verifier::external_body] pub struct VxInvoiceMap { _p: u8 }
impl VxInvoiceMap {
    pub uninterp spec fn view(&self) -> Map<PaymentHash, PaymentState>;
    #[verifier::external_body]
    pub fn get(&self, k: &PaymentHash) -> (r: Option<&PaymentState>)
        ensures r.is_some() == self@.contains_key(*k), r.is_some() ==> *(r->Some_0) == self@[*k] { unimplemented!() }
}
#[verifier::external_body] pub struct VxPaymentMap { _p: u8 }
impl VxPaymentMap {
    pub uninterp spec fn view(&self) -> Map<PaymentHash, RoutedPayment>;
    #[verifier::external_body]
    pub fn get(&self, k: &PaymentHash) -> (r: Option<&RoutedPayment>)
        ensures r.is_some() == self@.contains_key(*k), r.is_some() ==> *(r->Some_0) == self@[*k] { unimplemented!() }
}
impl VxPaymentMap {
    // `self.payments.entry(hash).or_insert_with(|| RoutedPayment::new())`, the result only read
    #[verifier::external_body]
    pub fn vx_entry_or_new(&mut self, k: PaymentHash) -> (r: &RoutedPayment)
        ensures
            old(self)@.contains_key(k) ==> final(self)@ == old(self)@,
            !old(self)@.contains_key(k) ==> exists|n: RoutedPayment| is_routed_new(n) && final(self)@ == old(self)@.insert(k, n),
            final(self)@.contains_key(k) && *r == final(self)@[k],
    { unimplemented!() }
    // `self.payments.get_mut(&hash).expect(..)`: the entry exists (abort otherwise); writes go to that entry only
    #[verifier::external_body]
    pub fn vx_get_mut(&mut self, k: &PaymentHash) -> (r: &mut RoutedPayment)
        ensures old(self)@.contains_key(*k), *r == old(self)@[*k], final(self)@ == old(self)@.insert(*k, *final(r)),
    { unimplemented!() }
}
impl VxInvoiceMap {
    #[verifier::external_body]
    pub fn vx_mark_fulfilled(&mut self, k: &PaymentHash) { unimplemented!() }
    // `if let Some(issued) = m.get_mut(k) { if !issued.is_fulfilled { issued.is_fulfilled = true; <then> } }`: the
    // issued-invoice table (invoices this node issued: incoming side, not part of C06's amounts); answers whether the
    // flag was newly set
    #[verifier::external_body]
    pub fn vx_mark_fulfilled_if_new(&mut self, k: &PaymentHash) -> bool { unimplemented!() }
    #[verifier::external_body]
    pub fn contains_key(&self, k: &PaymentHash) -> (r: bool) ensures r == self@.contains_key(*k) { unimplemented!() }
}
impl VxPaymentMap {
    #[verifier::external_body]
    pub fn contains_key(&self, k: &PaymentHash) -> (r: bool) ensures r == self@.contains_key(*k) { unimplemented!() }
    #[verifier::external_body]
    pub fn remove(&mut self, k: &PaymentHash) -> (r: Option<RoutedPayment>)
        ensures final(self)@ == old(self)@.remove(*k), r.is_some() == old(self)@.contains_key(*k), r.is_some() ==> r->Some_0 == old(self)@[*k] { unimplemented!() }
}
impl VxInvoiceMap {
    #[verifier::external_body]
    pub fn remove(&mut self, k: &PaymentHash) -> (r: Option<PaymentState>)
        ensures final(self)@ == old(self)@.remove(*k), r.is_some() == old(self)@.contains_key(*k), r.is_some() ==> r->Some_0 == old(self)@[*k] { unimplemented!() }
}
// PaymentHash(Sha256Hash::hash(&preimage.0).to_byte_array())
pub uninterp spec fn hash_of_preimage(p: PaymentPreimage) -> PaymentHash;
#[verifier::external_body]
pub fn vx_hash_of_preimage(p: &PaymentPreimage) -> (r: PaymentHash) ensures r == hash_of_preimage(*p) { unimplemented!() }
// what RoutedPayment::new() returns (under contract below)
pub open spec fn is_routed_new(n: RoutedPayment) -> bool {
    n.incoming@ == Map::<ChannelId, u64>::empty() && n.outgoing@ == Map::<ChannelId, u64>::empty()
    && n.incoming_cltv_min.is_none() && n.outgoing_cltv_max.is_none() && n.preimage.is_none()
}
// hashbrown::HashSet<&PaymentHash> (`UnorderedSet`): `new`, `extend(map.keys())`; iteration visits every element once
#[verifier::external_body] pub struct VxHashSet { _p: u8 }
#[verifier::external_body] pub struct VxKeys { _p: u8 }
impl VxKeys { pub uninterp spec fn view(&self) -> Set<PaymentHash>; }
impl VxPayMap {
    #[verifier::external_body]
    pub fn keys(&self) -> (r: VxKeys) ensures r@ == self@.dom() { unimplemented!() }
}
impl VxHashSet {
    pub uninterp spec fn view(&self) -> Set<PaymentHash>;
    #[verifier::external_body]
    pub fn new() -> (r: VxHashSet) ensures r@ == Set::<PaymentHash>::empty() { unimplemented!() }
    #[verifier::external_body]
    pub fn extend(&mut self, k: VxKeys) ensures final(self)@ == old(self)@.union(k@) { unimplemented!() }
    // `for hash_r in hashes.iter()`: the elements as a sequence without repetition
    #[verifier::external_body]
    pub fn vx_elems(&self) -> (r: Vec<PaymentHash>)
        ensures
            forall|i: int| 0 <= i < r@.len() ==> self@.contains(#[trigger] r@[i]),
            forall|k: PaymentHash| self@.contains(k) ==> exists|i: int| 0 <= i < r@.len() && #[trigger] r@[i] == k,
            forall|i: int, j: int| 0 <= i < r@.len() && 0 <= j < r@.len() && i != j ==> #[trigger] r@[i] != #[trigger] r@[j],
    { unimplemented!() }
}
// min / max cltv_expiry of the HTLCs of `info` carrying `hash` (iterator chain in apply_payments; CLTV bookkeeping is
// not part of C06's amounts): unspecified
#[verifier::external_body]
pub fn vx_cltv_of(info: Option<&CommitmentInfo2>, hash: &PaymentHash) -> (Option<u32>, Option<u32>) { unimplemented!() }
#[verifier::external_body]
pub proof fn axiom_map_total_empty() ensures map_total(Map::<ChannelId, u64>::empty()) == 0 {}

//@type vls-core/src/util/velocity.rs :: VelocityControl
//@type vls-core/src/util/velocity.rs :: VelocityControlIntervalType
//@type vls-core/src/util/velocity.rs :: VelocityControlSpec
//@include frag/velocity_spec.rs
impl VelocityControl {
//@fn vls-core/src/util/velocity.rs :: impl VelocityControl :: insert mode=trusted
//@include frag/c/vc_insert.rs
//@end
}
//@type vls-core/src/node.rs :: PaymentState
//@type vls-core/src/node.rs :: RoutedPayment
//@type vls-core/src/node.rs :: NodeState

// ---- Arc<dyn Validator> (R6): contracts proved on SimpleValidator in unit sv_commit ----
pub const MSAT_BOUND: u64 = 0x4000_0000_0000_0000;
impl VxValidator {
    pub uninterp spec fn vp_max_routing_fee_msat(&self) -> u64;
    pub uninterp spec fn vp_max_feerate_percentage(&self) -> u8;
//@fn vls-core/src/policy/simple_validator.rs :: impl Validator for SimpleValidator :: validate_payment_balance mode=trusted
//@include frag/c/sv_validate_payment_balance.rs
//@end
    #[verifier::external_body]
    pub fn validate_payment_cltv(&self, incoming_cltv: u32, outgoing_cltv: u32) -> Result<(), ValidationError> { unimplemented!() }
    #[verifier::external_body]
    pub fn enforce_balance(&self) -> bool { unimplemented!() }
}

// ------------------------------------------------------------------ spec side
pub open spec fn opt_amount(m: Map<PaymentHash, PaymentState>, h: PaymentHash) -> Option<u64> {
    if m.contains_key(h) { Some(m[h].amount_msat) } else { None }
}
pub open spec fn sum0(m: Map<PaymentHash, u64>, h: PaymentHash) -> nat { if m.contains_key(h) { m[h] as nat } else { 0 } }
// node-wide totals for hash h if channel c reports (inc, out)
pub open spec fn totals_after(st: NodeState, c: ChannelId, h: PaymentHash, inc: nat, out: nat) -> (int, int) {
    if st.payments@.contains_key(h) {
        let p = st.payments@[h];
        (map_total(p.incoming@) + inc - get0(p.incoming@, c), map_total(p.outgoing@) + out - get0(p.outgoing@, c))
    } else {
        (inc as int, out as int)
    }
}
// C06 for one hash: node-wide outgoing <= node-wide incoming + approved amount + fee allowance (msat); the only
// exception is the documented one (issue 331): an already known payment without an invoice
pub open spec fn hash_balanced(st: NodeState, v: VxValidator, c: ChannelId, h: PaymentHash, inc: nat, out: nat) -> bool {
    let t = totals_after(st, c, h, inc, out);
    let inv = opt_amount(st.invoices@, h);
    t.1 * 1000 <= t.0 * 1000 + (match inv { Some(a) => a + v.vp_max_routing_fee_msat(), None => 0 })
    || (st.payments@.contains_key(h) && inv.is_none())
}
// input ranges: amounts below 2^50 sat (the supply is below 2^51 sat), so that `* 1000` and the sums stay below 2^62
pub const SAT_BOUND: u64 = 0x4_0000_0000_0000;
pub open spec fn ledger_in_range(st: NodeState, v: VxValidator, a: Map<PaymentHash, u64>, b: Map<PaymentHash, u64>) -> bool {
    &&& forall|h: PaymentHash| #[trigger] a.contains_key(h) ==> a[h] <= SAT_BOUND
    &&& forall|h: PaymentHash| #[trigger] b.contains_key(h) ==> b[h] <= SAT_BOUND
    &&& forall|h: PaymentHash| #[trigger] st.payments@.contains_key(h) ==>
            map_total(st.payments@[h].incoming@) <= SAT_BOUND && map_total(st.payments@[h].outgoing@) <= SAT_BOUND
    &&& forall|h: PaymentHash| #[trigger] st.invoices@.contains_key(h) ==> st.invoices@[h].amount_msat <= MSAT_BOUND
    &&& v.vp_max_routing_fee_msat() <= MSAT_BOUND
}

pub open spec fn base_incoming(m: Map<PaymentHash, RoutedPayment>, h: PaymentHash) -> Map<ChannelId, u64> {
    if m.contains_key(h) { m[h].incoming@ } else { Map::<ChannelId, u64>::empty() }
}
pub open spec fn base_outgoing(m: Map<PaymentHash, RoutedPayment>, h: PaymentHash) -> Map<ChannelId, u64> {
    if m.contains_key(h) { m[h].outgoing@ } else { Map::<ChannelId, u64>::empty() }
}

// after apply_payments: the entry of hash h holds the validated per-channel amounts of channel c on top of what was there
pub open spec fn recorded(f: Map<PaymentHash, RoutedPayment>, o: Map<PaymentHash, RoutedPayment>, c: ChannelId,
    ins: Map<PaymentHash, u64>, outs: Map<PaymentHash, u64>, h: PaymentHash) -> bool {
    f.contains_key(h)
    && f[h].incoming@ == base_incoming(o, h).insert(c, sum0(ins, h) as u64)
    && f[h].outgoing@ == base_outgoing(o, h).insert(c, sum0(outs, h) as u64)
}

// ------------------------------------------------------------------ code side
impl RoutedPayment {

//@fn vls-core/src/node.rs :: impl RoutedPayment :: new props=C06
    ensures is_routed_new(r),
//@end

//@fn vls-core/src/node.rs :: impl RoutedPayment :: is_fulfilled props=C06
    ensures r == self.preimage.is_some(),
//@end

//@fn vls-core/src/node.rs :: impl RoutedPayment :: incoming_outgoing props=C06
    ensures
        map_total(self.incoming@) <= u64::MAX ==> r.0 == map_total(self.incoming@),
        map_total(self.outgoing@) <= u64::MAX ==> r.1 == map_total(self.outgoing@),                       //[C06.routed.totals]
//@end

//@fn vls-core/src/node.rs :: impl RoutedPayment :: updated_incoming_outgoing props=C06
    requires
        map_total(self.incoming@) <= SAT_BOUND, map_total(self.outgoing@) <= SAT_BOUND,
        incoming_amount_sat <= SAT_BOUND, outgoing_amount_sat <= SAT_BOUND,
    ensures
        // the node-wide totals for this hash if the channel updates to the given amounts
        r.0 == map_total(self.incoming@) + incoming_amount_sat - get0(self.incoming@, *channel_id),
        r.1 == map_total(self.outgoing@) + outgoing_amount_sat - get0(self.outgoing@, *channel_id),     //[C06.routed.updated-totals]
//@proof start
        proof {
            axiom_map_total_insert(self.incoming@, *channel_id, 0);
            axiom_map_total_insert(self.outgoing@, *channel_id, 0);
        }
//@end

//@fn vls-core/src/node.rs :: impl RoutedPayment :: get_cltv_bounds props=C06
    ensures r == (match (self.incoming_cltv_min, self.outgoing_cltv_max) { (Some(i), Some(o)) => Some((i, o)), _ => None::<(u32, u32)> }),
//@end

//@fn vls-core/src/node.rs :: impl RoutedPayment :: apply props=C06 optclosures
    ensures
        // the channel's amounts are recorded verbatim; other channels' amounts and the preimage are untouched
        final(self).incoming@ == old(self).incoming@.insert(*channel_id, incoming_amount_sat),
        final(self).outgoing@ == old(self).outgoing@.insert(*channel_id, outgoing_amount_sat),          //[C06.routed.apply-records]
        final(self).preimage == old(self).preimage,
//@end

} // impl RoutedPayment


impl NodeState {

//@fn vls-core/src/node.rs :: impl NodeState :: htlc_fulfilled props=C06
    ensures
        // learning a preimage approves nothing and changes no amount on the ledger: every hash keeps its entry and the entry
        // keeps its per-channel incoming and outgoing amounts (what validate_payments sums); only the preimage of the
        // fulfilled hash is recorded.  An HTLC stays in flight on its channel until that channel's next commitment update.
        final(self).invoices == old(self).invoices,                                                        //[C06.htlc-fulfilled.approvals-kept]
        forall|h: PaymentHash| (#[trigger] final(self).payments@.contains_key(h) <==> old(self).payments@.contains_key(h))
            && (old(self).payments@.contains_key(h) ==> final(self).payments@[h].incoming == old(self).payments@[h].incoming
                && final(self).payments@[h].outgoing == old(self).payments@[h].outgoing),                  //[C06.htlc-fulfilled.ledger-amounts-kept]
        forall|h: PaymentHash| h != hash_of_preimage(preimage) && old(self).payments@.contains_key(h) ==>
            #[trigger] final(self).payments@[h] == old(self).payments@[h],                                 //[C06.htlc-fulfilled.other-hashes-untouched]
        final(self).velocity_control == old(self).velocity_control, final(self).fee_velocity_control == old(self).fee_velocity_control,
//@sub /PaymentHash\(Sha256Hash::hash\(&preimage\.0\)\.to_byte_array\(\)\)/ => vx_hash_of_preimage(&preimage)
//@sub /(?s)if let Some\(issued\) = self\.issued_invoices\.get_mut\(&payment_hash\) \{\s*if !issued\.is_fulfilled \{\s*issued\.is_fulfilled = true;\s*fulfilled = true;\s*\}\s*\}/ => if self.issued_invoices.vx_mark_fulfilled_if_new(&payment_hash) { fulfilled = true; }
//@sub /if let Some\(payment\) = self\.payments\.get_mut\(&payment_hash\) \{/ => if self.payments.contains_key(&payment_hash) { let payment = self.payments.vx_get_mut(&payment_hash);
//@end

//@fn vls-core/src/node.rs :: impl NodeState :: validate_payments props=C06 optclosures
    requires ledger_in_range(*self, validator, incoming_payment_summary@, outgoing_payment_summary@),
    ensures
        // Ok under a non-permissive policy: EVERY hash the update touches is balanced node-wide after the update
        r.is_ok() && vx_strict(T_policy_commitment_htlc_routing_balance) && vx_strict(T_policy_routing_balanced) ==>
            forall|h: PaymentHash| incoming_payment_summary@.contains_key(h) || outgoing_payment_summary@.contains_key(h) ==>
                #[trigger] hash_balanced(*self, validator, *channel_id, h,
                    sum0(incoming_payment_summary@, h), sum0(outgoing_payment_summary@, h)),                 //[C06.validate-payments.every-touched-hash-balanced]
//@sub /for hash_r in hashes\.iter\(\) \{/ => let vx_hs = hashes.vx_elems(); for hash_r in vx_hs.iter() {
//@sub /let hash = \*\*hash_r;/ => let hash = *hash_r;
//@proof before /let mut unbalanced = Vec::new\(\);/
        proof {
            // the set of hashes that gets checked is the union of the keys of BOTH summaries
            assert forall|h: PaymentHash| (incoming_payment_summary@.contains_key(h) || outgoing_payment_summary@.contains_key(h))
                <==> #[trigger] hashes@.contains(h) by { }                                                    //[C06.validate-payments.checks-keys-of-both-summaries]
        }
//@loop 1 iter=it
        invariant
            ledger_in_range(*self, validator, incoming_payment_summary@, outgoing_payment_summary@),
            forall|i: int| 0 <= i < vx_hs@.len() ==> incoming_payment_summary@.contains_key(#[trigger] vx_hs@[i]) || outgoing_payment_summary@.contains_key(vx_hs@[i]),
            (unbalanced@.len() == 0 && vx_strict(T_policy_routing_balanced)) ==> forall|j: int| 0 <= j < it.index@ ==>
                #[trigger] hash_balanced(*self, validator, *channel_id, vx_hs@[j],
                    sum0(incoming_payment_summary@, vx_hs@[j]), sum0(outgoing_payment_summary@, vx_hs@[j])),
//@proof before /^\s*Ok\(\(\)\)\s*$/
        proof {
            assert forall|h: PaymentHash| incoming_payment_summary@.contains_key(h) || outgoing_payment_summary@.contains_key(h)
                implies exists|i: int| 0 <= i < vx_hs@.len() && #[trigger] vx_hs@[i] == h by { assert(hashes@.contains(h)); }
        }
//@end

//@fn vls-core/src/node.rs :: impl NodeState :: apply_payments props=C06 optclosures
    requires ledger_in_range(*old(self), validator, incoming_payment_summary@, outgoing_payment_summary@),
    ensures
        // the ledger records, for every hash the update touches, exactly the per-channel amounts that were validated
        forall|h: PaymentHash| incoming_payment_summary@.contains_key(h) || outgoing_payment_summary@.contains_key(h) ==>
            #[trigger] recorded(final(self).payments@, old(self).payments@, *channel_id, incoming_payment_summary@, outgoing_payment_summary@, h),   //[C06.apply.records-validated-summaries]
        // amounts recorded for other hashes are untouched, and so are the approved invoices
        forall|h: PaymentHash| !(incoming_payment_summary@.contains_key(h) || outgoing_payment_summary@.contains_key(h)) ==>
            (#[trigger] final(self).payments@.contains_key(h) <==> old(self).payments@.contains_key(h))
            && (old(self).payments@.contains_key(h) ==> final(self).payments@[h].incoming@ == old(self).payments@[h].incoming@
                && final(self).payments@[h].outgoing@ == old(self).payments@[h].outgoing@),                                      //[C06.apply.other-hashes-untouched]
        final(self).invoices == old(self).invoices,                                                                            //[C06.apply.invoices-untouched]
//@sub /for hash_r in hashes\.iter\(\) \{/ => let vx_hs = hashes.vx_elems(); for hash_r in vx_hs.iter() {
//@sub /let hash = \*\*hash_r;/ => let hash = *hash_r;
//@sub /self\.payments\.entry\(hash\)\.or_insert_with\(\|\| RoutedPayment::new\(\)\)/ => self.payments.vx_entry_or_new(hash)
//@sub /(?s)if let Some\(issued\) = self\.issued_invoices\.get_mut\(hash\) \{\s*issued\.is_fulfilled = true;\s*\}/ => self.issued_invoices.vx_mark_fulfilled(hash);
//@sub /self\.payments\.get_mut\(&\*hash\)\.vx_expect\(\)/ => self.payments.vx_get_mut(&*hash)
//@sub /self\.payments\.get_mut\(&hash\)\.vx_expect\(\)/ => self.payments.vx_get_mut(&hash)
//@proof before /let mut fulfilled_issued_invoices = Vec::new\(\);/
        let ghost p0 = self.payments@;
        let ghost inv0 = self.invoices;
        let ghost ins = incoming_payment_summary@;
        let ghost outs = outgoing_payment_summary@;
        proof {
            axiom_map_total_empty();
            assert forall|h: PaymentHash| (ins.contains_key(h) || outs.contains_key(h)) <==> #[trigger] hashes@.contains(h) by { }
        }
//@loop 1 iter=it1
        invariant
            forall|h: PaymentHash| #[trigger] ins.contains_key(h) ==> ins[h] <= SAT_BOUND,
            forall|h: PaymentHash| #[trigger] outs.contains_key(h) ==> outs[h] <= SAT_BOUND,
            ins == incoming_payment_summary@, outs == outgoing_payment_summary@,
            forall|i: int| 0 <= i < vx_hs@.len() ==> ins.contains_key(#[trigger] vx_hs@[i]) || outs.contains_key(vx_hs@[i]),
            forall|h: PaymentHash| #[trigger] self.payments@.contains_key(h) ==>
                map_total(self.payments@[h].incoming@) <= SAT_BOUND && map_total(self.payments@[h].outgoing@) <= SAT_BOUND,
            forall|h: PaymentHash| #[trigger] p0.contains_key(h) ==> self.payments@.contains_key(h) && self.payments@[h] == p0[h],
            forall|h: PaymentHash| #[trigger] self.payments@.contains_key(h) && !p0.contains_key(h) ==>
                is_routed_new(self.payments@[h]) && (ins.contains_key(h) || outs.contains_key(h)),
            forall|j: int| 0 <= j < it1.index@ ==> self.payments@.contains_key(#[trigger] vx_hs@[j]),
            self.invoices == inv0,
//@proof before /for hash in fulfilled_issued_invoices\.iter\(\)/ #1
        let ghost pm1 = self.payments@;
        proof {
            assert forall|h: PaymentHash| ins.contains_key(h) || outs.contains_key(h) implies #[trigger] pm1.contains_key(h) by {
                assert(hashes@.contains(h));
                let j = choose|j: int| 0 <= j < vx_hs@.len() && #[trigger] vx_hs@[j] == h;
                assert(pm1.contains_key(vx_hs@[j]));
            }
        }
//@proof before /let payment = self\.payments\.vx_entry_or_new\(hash\);/
            proof { axiom_map_total_empty(); }
//@loop 2
        invariant self.payments@ == pm1, self.invoices == inv0,
//@loop 3
        invariant
            self.invoices == inv0,
            forall|h: PaymentHash| #[trigger] self.payments@.contains_key(h) <==> pm1.contains_key(h),
            forall|h: PaymentHash| #[trigger] pm1.contains_key(h) ==> self.payments@[h].incoming@ == pm1[h].incoming@
                && self.payments@[h].outgoing@ == pm1[h].outgoing@,
//@proof before /let vx_hs = hashes\.vx_elems\(\);/ #2
        let ghost mut done = Set::<PaymentHash>::empty();
//@loop 4 iter=it4
        invariant
            self.invoices == inv0,
            ins == incoming_payment_summary@, outs == outgoing_payment_summary@,
            forall|i: int| 0 <= i < vx_hs@.len() ==> ins.contains_key(#[trigger] vx_hs@[i]) || outs.contains_key(vx_hs@[i]),
            forall|i: int, j: int| 0 <= i < vx_hs@.len() && 0 <= j < vx_hs@.len() && i != j ==> #[trigger] vx_hs@[i] != #[trigger] vx_hs@[j],
            forall|j: int| 0 <= j < it4.index@ ==> done.contains(#[trigger] vx_hs@[j]),
            forall|j: int| it4.index@ <= j < vx_hs@.len() ==> !done.contains(#[trigger] vx_hs@[j]),
            forall|h: PaymentHash| #[trigger] done.contains(h) ==> ins.contains_key(h) || outs.contains_key(h),
            forall|h: PaymentHash| ins.contains_key(h) || outs.contains_key(h) ==> #[trigger] pm1.contains_key(h),
            forall|h: PaymentHash| #[trigger] self.payments@.contains_key(h) <==> pm1.contains_key(h),
            forall|h: PaymentHash| #[trigger] pm1.contains_key(h) ==>
                self.payments@[h].incoming@ == (if done.contains(h) { pm1[h].incoming@.insert(*channel_id, sum0(ins, h) as u64) } else { pm1[h].incoming@ })
                && self.payments@[h].outgoing@ == (if done.contains(h) { pm1[h].outgoing@.insert(*channel_id, sum0(outs, h) as u64) } else { pm1[h].outgoing@ }),
//@proof blockend /payment\.apply\(/
            proof { done = done.insert(hash); }
//@sub /(?s)let \(incoming_cltv, outgoing_cltv\) = if let Some\(info\) = commit_info \{.*?\} else \{\s*\(None, None\)\s*\};/ => let (incoming_cltv, outgoing_cltv) = vx_cltv_of(commit_info, &hash);
//@proof blockend /let mut fulfilled_issued_invoices = Vec::new\(\);/
        proof {
            assert forall|h: PaymentHash| ins.contains_key(h) || outs.contains_key(h) implies
                #[trigger] recorded(self.payments@, p0, *channel_id, ins, outs, h) by {
                assert(hashes@.contains(h));
                let j = choose|j: int| 0 <= j < vx_hs@.len() && #[trigger] vx_hs@[j] == h;
                assert(done.contains(vx_hs@[j]));
                assert(pm1.contains_key(h));
            }
        }
//@end

} // impl NodeState

// ------------------------------------------------------------------ restart: Channel::restore_payments
// C06 speaks about "the restarts in between": a restart rebuilds the ledger from the channels' current commitments
// (Node::new_from_persistence calls restore_payments for every ready channel: unit node_restore_channels).  What
// restore_payments reads of the channel: its node-assigned id and the two payment summaries of the current commitments.
pub struct VxChanR { pub id0: ChannelId, pub enforcement_state: VxEsR, pub rest: VxChanRRest }
#[verifier::external_body] pub struct VxChanRRest { _p: u8 }
// the enforcement state as far as a body may consult it here: the summaries (below) and the closed flag (a closing
// signature was released - HTLCs of the last commitments are still pending then, so the flag must not switch the restore off)
pub struct VxEsR { pub channel_closed: bool, pub vx_rest: VxEsRRest }
#[verifier::external_body] pub struct VxEsRRest { _p: u8 }
#[verifier::external_body] pub struct VxNodeR { _p: u8 }
impl VxEsR {
    // EnforcementState::{incoming_payments_summary, payments_summary}(None, None): the summaries of the current
    // commitments (proved against their definition in unit pay_summary)
    pub uninterp spec fn cur_in(&self) -> Map<PaymentHash, u64>;
    pub uninterp spec fn cur_out(&self) -> Map<PaymentHash, u64>;
    #[verifier::external_body]
    pub fn incoming_payments_summary(&self, a: Option<&CommitmentInfo2>, b: Option<&CommitmentInfo2>) -> (r: VxPayMap)
        ensures a.is_none() && b.is_none() ==> r@ == self.cur_in() { unimplemented!() }
    #[verifier::external_body]
    pub fn payments_summary(&self, a: Option<&CommitmentInfo2>, b: Option<&CommitmentInfo2>) -> (r: VxPayMap)
        ensures a.is_none() && b.is_none() ==> r@ == self.cur_out() { unimplemented!() }
}
pub uninterp spec fn payments_restored_mark(c: VxChanR) -> bool;
// definitional: the marker stands for "every hash in flight on the channel is recorded with the channel's current amounts
// under its id, every other hash is as before" (the two assertions of restore_payments); it has no other meaning
pub open spec fn restored_facts(c: VxChanR, f: Map<PaymentHash, RoutedPayment>, p0: Map<PaymentHash, RoutedPayment>) -> bool {
    &&& forall|h: PaymentHash| c.enforcement_state.cur_in().contains_key(h) || c.enforcement_state.cur_out().contains_key(h) ==>
            #[trigger] recorded(f, p0, c.id0, c.enforcement_state.cur_in(), c.enforcement_state.cur_out(), h)
    &&& forall|h: PaymentHash| !(c.enforcement_state.cur_in().contains_key(h) || c.enforcement_state.cur_out().contains_key(h)) ==>
            (#[trigger] f.contains_key(h) <==> p0.contains_key(h)) && (p0.contains_key(h) ==> f[h] == p0[h])
}
#[verifier::external_body]
pub proof fn vx_mark_payments_restored(c: VxChanR, f: Map<PaymentHash, RoutedPayment>, p0: Map<PaymentHash, RoutedPayment>) requires restored_facts(c, f, p0) ensures payments_restored_mark(c) {}
impl VxNodeR {
    pub uninterp spec fn state_spec(&self) -> NodeState;          // the node state when the lock is taken
    #[verifier::external_body]
    pub fn get_state(&self) -> (r: NodeState) ensures r == self.state_spec() { unimplemented!() }
}
impl VxChanR {
    pub uninterp spec fn node_spec(&self) -> VxNodeR;
    #[verifier::external_body]
    pub fn get_node(&self) -> (r: VxNodeR) ensures r == self.node_spec() { unimplemented!() }
    // the two iterator chains that pick the smallest incoming / largest outgoing CLTV of the hash (CLTV bookkeeping is not
    // part of C06's amounts): unspecified
    #[verifier::external_body]
    pub fn vx_cltv_bounds(&self, hash: &PaymentHash) -> (Option<u32>, Option<u32>) { unimplemented!() }

//@fn vls-core/src/channel.rs :: impl Channel :: restore_payments props=C06 optclosures
    ensures
        // however the function returns, the ledger was rebuilt from this channel's current commitments (the effect lands in
        // the node state behind its lock, so it is named by a marker that only the facts asserted at the end of the body give)
        payments_restored_mark(*self),                                                                             //[C06.restore-payments.every-return-has-rebuilt-the-ledger]
//@sub /for hash in hashes \{/ => let vx_hs = hashes.vx_elems(); for hash in vx_hs.iter() {
//@sub /let payment = state\.payments\.entry\(\*hash\)\.or_insert_with\(\|\| RoutedPayment::new\(\)\);/ => state.payments.vx_ensure(*hash); let payment = state.payments.vx_get_mut(hash);
//@sub /(?s)let min_incoming_cltv = self\s*\.enforcement_state.*?\}\);\s*let max_outgoing_cltv = self\s*\.enforcement_state.*?\}\);/ => let (min_incoming_cltv, max_outgoing_cltv) = self.vx_cltv_bounds(hash);
//@proof before /let vx_hs = hashes\.vx_elems\(\);/
        let ghost p0 = state.payments@;
        let ghost inv0 = state.invoices;
        let ghost ins = incoming_payment_summary@;
        let ghost outs = outgoing_payment_summary@;
        let ghost mut done = Set::<PaymentHash>::empty();
        proof {
            assert forall|h: PaymentHash| (ins.contains_key(h) || outs.contains_key(h)) <==> #[trigger] hashes@.contains(h) by { }
        }
//@loop 1 iter=it
        invariant
            state.invoices == inv0, ins == incoming_payment_summary@, outs == outgoing_payment_summary@,
            forall|i: int| 0 <= i < vx_hs@.len() ==> ins.contains_key(#[trigger] vx_hs@[i]) || outs.contains_key(vx_hs@[i]),
            forall|i: int, j: int| 0 <= i < vx_hs@.len() && 0 <= j < vx_hs@.len() && i != j ==> #[trigger] vx_hs@[i] != #[trigger] vx_hs@[j],
            forall|j: int| 0 <= j < it.index@ ==> done.contains(#[trigger] vx_hs@[j]),
            forall|j: int| it.index@ <= j < vx_hs@.len() ==> !done.contains(#[trigger] vx_hs@[j]),
            forall|h: PaymentHash| #[trigger] done.contains(h) ==> recorded(state.payments@, p0, self.id0, ins, outs, h),
            forall|h: PaymentHash| #[trigger] done.contains(h) ==> ins.contains_key(h) || outs.contains_key(h),
            forall|h: PaymentHash| !done.contains(h) ==> (#[trigger] state.payments@.contains_key(h) <==> p0.contains_key(h)),
            forall|h: PaymentHash| !done.contains(h) && #[trigger] p0.contains_key(h) ==> state.payments@[h] == p0[h],
//@proof blockend /payment\.apply\(/
            proof { done = done.insert(*hash); }
//@proof blockend /let node = self\.get_node\(\);/
        proof {
            // C06 across restarts: for every hash in flight on this channel the ledger holds exactly the amounts of the
            // channel's current commitments under this channel's id; other hashes and the approved invoices are untouched
            assert forall|h: PaymentHash| ins.contains_key(h) || outs.contains_key(h) implies                     //[C06.restore-payments.records-current-summaries]
                #[trigger] recorded(state.payments@, p0, self.id0, ins, outs, h) by {
                assert(hashes@.contains(h));
                let j = choose|j: int| 0 <= j < vx_hs@.len() && #[trigger] vx_hs@[j] == h;
                assert(done.contains(vx_hs@[j]));
            }
            assert forall|h: PaymentHash| !(ins.contains_key(h) || outs.contains_key(h)) implies                   //[C06.restore-payments.other-hashes-untouched]
                (#[trigger] state.payments@.contains_key(h) <==> p0.contains_key(h)) && (p0.contains_key(h) ==> state.payments@[h] == p0[h]) by {
                if done.contains(h) { }
            }
            assert(state.invoices == inv0);
            assert(ins == self.enforcement_state.cur_in() && outs == self.enforcement_state.cur_out());          //[C06.restore-payments.uses-current-commitments]
            // the function may end only here: the marker below is the function's postcondition and can be had from these facts alone
            vx_mark_payments_restored(*self, state.payments@, p0);
        }
//@end
}

// ------------------------------------------------------------------ approving payments: Node::add_keysend / add_invoice
// the part of Node these functions touch (sequential mutex model, R11): the node state behind its lock, the clock, the
// policy and the persister (ghost: the last node state handed to Persist::update_node)
pub struct VxNodeInv { pub state: NodeState, pub persisted: Ghost<Option<NodeState>>, pub rest: VxNodeInvRest }
#[verifier::external_body] pub struct VxNodeInvRest { _p: u8 }
#[verifier::external_body] pub struct VxPolicyI { _p: u8 }
impl VxPolicyI { #[verifier::external_body] pub fn max_invoices(&self) -> usize { unimplemented!() } }
#[verifier::external_body] pub struct Invoice { _p: u8 }
impl Invoice {
    pub uninterp spec fn hash(&self) -> PaymentHash;
    pub uninterp spec fn ihash(&self) -> [u8; 32];
    pub uninterp spec fn amount(&self) -> u64;
    #[verifier::external_body] pub fn payment_hash(&self) -> (r: PaymentHash) ensures r == self.hash() { unimplemented!() }
    #[verifier::external_body] pub fn invoice_hash(&self) -> (r: [u8; 32]) ensures r == self.ihash() { unimplemented!() }
    #[verifier::external_body] pub fn amount_milli_satoshis(&self) -> (r: u64) ensures r == self.amount() { unimplemented!() }
    #[verifier::external_body] pub fn payee_pub_key(&self) -> PublicKey { unimplemented!() }
    #[verifier::external_body] pub fn duration_since_epoch(&self) -> VxDuration { unimplemented!() }
    #[verifier::external_body] pub fn expiry_duration(&self) -> VxDuration { unimplemented!() }
}
impl VxDuration {
    pub uninterp spec fn secs(&self) -> u64;
    #[verifier::external_body] pub fn from_secs(s: u64) -> VxDuration { unimplemented!() }
    #[verifier::external_body] pub fn as_secs(&self) -> (r: u64) ensures r == self.secs() { unimplemented!() }
}
impl Clone for VxDuration { #[verifier::external_body] fn clone(&self) -> (r: Self) ensures r == *self { unimplemented!() } }
impl Copy for VxDuration {}
impl VxInvoiceMap {
    #[verifier::external_body] pub fn len(&self) -> usize { unimplemented!() }
    #[verifier::external_body]
    pub fn insert(&mut self, k: PaymentHash, v: PaymentState) -> (r: Option<PaymentState>) ensures final(self)@ == old(self)@.insert(k, v) { unimplemented!() }
}
impl VxPaymentMap {
    #[verifier::external_body]
    pub fn insert(&mut self, k: PaymentHash, v: RoutedPayment) -> (r: Option<RoutedPayment>) ensures final(self)@ == old(self)@.insert(k, v) { unimplemented!() }
    // `state.payments.entry(hash).or_insert_with(RoutedPayment::new);` (result unused)
    #[verifier::external_body]
    pub fn vx_ensure(&mut self, k: PaymentHash)
        ensures
            old(self)@.contains_key(k) ==> final(self)@ == old(self)@,
            !old(self)@.contains_key(k) ==> exists|n: RoutedPayment| is_routed_new(n) && final(self)@ == old(self)@.insert(k, n),
    { unimplemented!() }
}
impl VxValidator {
    #[verifier::external_body] pub fn validate_invoice(&self, i: &Invoice, now: VxDuration) -> Result<(), ValidationError> { unimplemented!() }
}
pub open spec fn vc_abs_of(st: NodeState) -> VcAbs { vc_abs(st.velocity_control) }
// what approving (hash, amount) at time `now` must do to the node state
pub open spec fn approved(o: NodeState, f: NodeState, h: PaymentHash, amount: u64, now: u64) -> bool {
    &&& f.invoices@.contains_key(h) && f.invoices@[h].amount_msat == amount
    &&& f.invoices@ == o.invoices@.insert(h, f.invoices@[h])
    &&& vc_accepts(vc_abs_of(o), now, amount) && vc_abs_of(f) == vc_step(vc_abs_of(o), now, amount)
}
impl VxNodeInv {
    pub uninterp spec fn clock_secs(&self) -> u64;
    #[verifier::external_body]
    pub fn vx_clock_now(&self) -> (r: VxDuration)
        ensures r.secs() == self.clock_secs(), self.clock_secs() >= self.state.velocity_control.start_sec
    { unimplemented!() }
    #[verifier::external_body] pub fn policy(&self) -> VxPolicyI { unimplemented!() }
    #[verifier::external_body] pub fn validator(&self) -> VxValidator { unimplemented!() }
    #[verifier::external_body] pub fn get_id(&self) -> PublicKey { unimplemented!() }
    // self.persister.update_node(&id, &*state).expect(..): the store holds the state given (storage failure = abort)
    pub fn vx_update_node(&mut self)
        ensures final(self).state == old(self).state, final(self).rest == old(self).rest, final(self).persisted@ == Some(old(self).state)
    { self.persisted = Ghost(Some(self.state)); }

//@fn vls-core/src/node.rs :: impl Node :: payment_state_from_keysend props=C06
    ensures r.is_ok(), r->Ok_0.0.amount_msat == amount_msat, r->Ok_0.0.invoice_hash == payment_hash.0, r->Ok_0.1 == payment_hash.0,
        !r->Ok_0.0.is_fulfilled,
//@end

//@fn vls-core/src/node.rs :: impl Node :: payment_state_from_invoice props=C06
    ensures r.is_ok(), r->Ok_0.0 == invoice.hash(), r->Ok_0.1.amount_msat == invoice.amount(),
        r->Ok_0.1.invoice_hash == invoice.ihash(), r->Ok_0.2 == invoice.ihash(), !r->Ok_0.1.is_fulfilled,
//@end

//@fn vls-core/src/node.rs :: impl Node :: add_keysend props=C06,C12,C10,C11
//@sigsub /&self/ => &mut self
    requires vc_wf(old(self).state.velocity_control),
    ensures
        // a NEW approval records exactly the requested amount for the hash and is counted by the velocity control at the
        // clock's seconds; it is in the store when the call returns
        r.is_ok() && r->Ok_0 && !old(self).state.invoices@.contains_key(payment_hash) ==>
            approved(old(self).state, final(self).state, payment_hash, amount_msat, old(self).clock_secs())
            && final(self).persisted@ == Some(final(self).state),                                         //[C06.add-keysend.approves-exact-amount] [C12.add-keysend.counted] [C11.add-keysend.persisted]
        // an existing approval is never widened
        old(self).state.invoices@.contains_key(payment_hash) ==> final(self).state.invoices@ == old(self).state.invoices@,   //[C06.add-keysend.existing-untouched]
        // what is already recorded as in flight for the hash (and for every other hash) stays recorded
        forall|h: PaymentHash| #[trigger] old(self).state.payments@.contains_key(h) ==>
            final(self).state.payments@.contains_key(h) && final(self).state.payments@[h] == old(self).state.payments@[h],    //[C06.add-keysend.ledger-kept]
        // refused (velocity limit, too many invoices, different keysend for the hash): nothing is approved
        !(r.is_ok() && r->Ok_0) ==> final(self).state.invoices@ == old(self).state.invoices@
            && final(self).state.payments@ == old(self).state.payments@,                                   //[C10.add-keysend.refused-approves-nothing] [C12.add-keysend.refused-approves-nothing] [C06.add-keysend.refused-leaves-no-ledger-entry]
        // refused with an error: the whole node state (velocity controls included) and what the store holds are as before
        r.is_err() ==> final(self).state == old(self).state && final(self).persisted@ == old(self).persisted@,            //[C10.add-keysend.err-frame]
//@sub /Node::payment_state_from_keysend\(/ => Self::payment_state_from_keysend(
//@sub /self\.clock\.now\(\)/ => self.vx_clock_now()
//@sub /let mut state = self\.get_state\(\);/ => 
//@sub /\bstate\./ => self.state.
//@sub /(?s)self\.persister\.update_node\(&self\.get_id\(\), &\*state\)\.vx_expect\(\);/ => self.vx_update_node();
//@end

//@fn vls-core/src/node.rs :: impl Node :: add_invoice props=C06,C12,C10,C11
//@sigsub /&self/ => &mut self
    requires vc_wf(old(self).state.velocity_control),
    ensures
        r.is_ok() && r->Ok_0 && !old(self).state.invoices@.contains_key(invoice.hash()) ==>
            approved(old(self).state, final(self).state, invoice.hash(), invoice.amount(), old(self).clock_secs())
            && final(self).persisted@ == Some(final(self).state),                                         //[C06.add-invoice.approves-exact-amount] [C12.add-invoice.counted] [C11.add-invoice.persisted]
        old(self).state.invoices@.contains_key(invoice.hash()) ==> final(self).state.invoices@ == old(self).state.invoices@,   //[C06.add-invoice.existing-untouched]
        forall|h: PaymentHash| #[trigger] old(self).state.payments@.contains_key(h) ==>
            final(self).state.payments@.contains_key(h) && final(self).state.payments@[h] == old(self).state.payments@[h],    //[C06.add-invoice.ledger-kept]
        !(r.is_ok() && r->Ok_0) ==> final(self).state.invoices@ == old(self).state.invoices@
            && final(self).state.payments@ == old(self).state.payments@,                                   //[C10.add-invoice.refused-approves-nothing] [C12.add-invoice.refused-approves-nothing] [C06.add-invoice.refused-leaves-no-ledger-entry]
        // refused with an error: the whole node state (velocity controls included) and what the store holds are as before
        r.is_err() ==> final(self).state == old(self).state && final(self).persisted@ == old(self).persisted@,            //[C10.add-invoice.err-frame]
//@sub /self\.clock\.now\(\)/ => self.vx_clock_now()
//@sub /let mut state = self\.get_state\(\);/ => 
//@sub /\bstate\./ => self.state.
//@sub /(?s)self\.persister\.update_node\(&self\.get_id\(\), &\*state\)\.vx_expect\(\);/ => self.vx_update_node();
//@end
}

// apply() realises exactly the totals that updated_incoming_outgoing() announced and validate_payments() checked
pub proof fn c06_apply_realises_validated_totals(p: RoutedPayment, q: RoutedPayment, c: ChannelId, inc: u64, out: u64)
    requires q.incoming@ == p.incoming@.insert(c, inc), q.outgoing@ == p.outgoing@.insert(c, out),
    ensures
        map_total(q.incoming@) == map_total(p.incoming@) + inc - get0(p.incoming@, c),
        map_total(q.outgoing@) == map_total(p.outgoing@) + out - get0(p.outgoing@, c),                   //[C06.lemma.apply-realises-validated-totals]
{
    axiom_map_total_insert(p.incoming@, c, inc);
    axiom_map_total_insert(p.outgoing@, c, out);
}

// One accepted update, end to end (validate_payments then apply_payments, as Channel does): for a touched hash that is
// not the tolerated exception, the ledger AFTER the update satisfies C06's inequality on the node-wide totals.  Updates
// that do not touch the hash leave its entry alone ([C06.apply.other-hashes-untouched]), so the inequality established
// by the last touching update persists: this is the induction step of the history property.
pub proof fn c06_accepted_update_keeps_hash_balanced(st0: NodeState, st1: NodeState, v: VxValidator, c: ChannelId, h: PaymentHash, inc: u64, out: u64)
    requires
        hash_balanced(st0, v, c, h, inc as nat, out as nat),                           // validate_payments said Ok
        !(st0.payments@.contains_key(h) && opt_amount(st0.invoices@, h).is_none()),   // not the issue-331 exception
        st1.payments@.contains_key(h),                                                // apply_payments recorded (inc, out) for c
        st1.payments@[h].incoming@ == base_incoming(st0.payments@, h).insert(c, inc),
        st1.payments@[h].outgoing@ == base_outgoing(st0.payments@, h).insert(c, out),
        st1.invoices == st0.invoices,
    ensures
        map_total(st1.payments@[h].outgoing@) * 1000 <= map_total(st1.payments@[h].incoming@) * 1000
            + (match opt_amount(st1.invoices@, h) { Some(a) => a + v.vp_max_routing_fee_msat(), None => 0 }),   //[C06.lemma.accepted-update-keeps-hash-balanced]
{
    axiom_map_total_empty();
    axiom_map_total_insert(base_incoming(st0.payments@, h), c, inc);
    axiom_map_total_insert(base_outgoing(st0.payments@, h), c, out);
}

} // verus!
fn main() {}
