//@unit policy_filter
//@props C05
// The mechanism that turns a failed policy rule into a refusal (vls-core/src/policy/filter.rs, policy/mod.rs): every
// validator clause of this repository is conditional on `vx_strict(tag)` - "the filter reports Error for this tag".  Decided
// here: PolicyFilter::filter answers with the action of the FIRST rule that matches the tag (exact tag, or prefix when the
// rule says so) and Error when none does, so only an explicit rule downgrades a violation; the default filter downgrades
// nothing; merging keeps this filter's rules in front; and the functions behind policy_err! / temporary_policy_err! refuse
// exactly when the filter says Error.
use vstd::prelude::*;
use vstd::std_specs::cmp::OrdSpec;
//@include prelude/core.rs
// string tests on tags (optional rewrites: whichever of them the code uses)
//@map /tag\.starts_with\(&rule\.tag\)/ => vx_starts_with(tag, rule.tag.as_str())
//@map /\*tag == rule\.tag/ => vx_str_eq(tag, rule.tag.as_str())
//@map /\*tag != rule\.tag/ => !vx_str_eq(tag, rule.tag.as_str())
//@map /\btag\.(starts|ends)_with\(("[^"]*")\)/ => vx_\1_with_lit(&tag, \2)
verus! {

//@@TAGS

//@include frag/str_order.rs
#[verifier::external_body]
pub fn vx_str_eq(a: &str, b: &str) -> (r: bool) ensures r == (a@ == b@) { a == b }
#[verifier::external_body]
pub fn vx_starts_with_lit(k: &String, p: &str) -> (r: bool) ensures r == is_prefix(p@, k@) { k.starts_with(p) }
#[verifier::external_body]
pub fn vx_ends_with_lit(k: &String, p: &str) -> (r: bool)
    ensures r == (p@.len() <= k@.len() && k@.subrange(k@.len() - p@.len(), k@.len() as int) == p@) { k.ends_with(p) }
#[verifier::external_body] pub struct ValidationError { _p: u8 }
pub uninterp spec fn ve_tag(e: ValidationError) -> Seq<char>;
pub uninterp spec fn ve_is_policy(e: ValidationError) -> bool;        // kind Policy(..)
pub uninterp spec fn ve_is_temporary(e: ValidationError) -> bool;     // kind TemporaryPolicy(..)
#[verifier::external_body]
pub fn policy_error(tag: String, msg: String) -> (r: ValidationError) ensures ve_tag(r) == tag@, ve_is_policy(r) { unimplemented!() }
#[verifier::external_body]
pub fn temporary_policy_error(tag: String, msg: String) -> (r: ValidationError) ensures ve_tag(r) == tag@, ve_is_temporary(r) { unimplemented!() }

//@type vls-core/src/policy/filter.rs :: FilterResult derive=Copy,Clone,PartialEq
//@type vls-core/src/policy/filter.rs :: FilterRule
//@type vls-core/src/policy/filter.rs :: PolicyFilter

// ------------------------------------------------------------------ spec side (from the property)
pub open spec fn rule_matches(r: FilterRule, tag: Seq<char>) -> bool {
    if r.is_prefix { is_prefix(r.tag@, tag) } else { tag == r.tag@ }
}
// the action of the first matching rule; a violation nobody listed is an error
pub open spec fn filter_spec(rules: Seq<FilterRule>, tag: Seq<char>) -> FilterResult
    decreases rules.len()
{
    if rules.len() == 0 { FilterResult::Error }
    else if rule_matches(rules[0], tag) { rules[0].action }
    else { filter_spec(rules.skip(1), tag) }
}

impl PolicyFilter {

//@fn vls-core/src/policy/filter.rs :: impl PolicyFilter :: filter props=C05
    ensures
        r == filter_spec(self.rules@, tag@),                                                          //[C05.filter.first-matching-rule-decides]
        // only an explicit rule downgrades a violation
        r != FilterResult::Error ==> exists|i: int| 0 <= i < self.rules@.len() && rule_matches(#[trigger] self.rules@[i], tag@)
            && self.rules@[i].action == r,                                                            //[C05.filter.only-explicit-rules-downgrade]
//@loop 1 iter=it
            invariant
                filter_spec(self.rules@, tag@) == filter_spec(self.rules@.skip(it.index@ as int), tag@),
                forall|j: int| 0 <= j < it.index@ ==> !rule_matches(#[trigger] self.rules@[j], tag@),
//@proof before /for rule in (it: )?self\.rules\.iter\(\)/
        proof { assert(self.rules@.skip(0) =~= self.rules@); }
//@proof before /let matches =/
            proof {
                let k = it.index@ as int;
                assert(self.rules@.skip(k)[0] == self.rules@[k]);
                assert(self.rules@.skip(k).skip(1) =~= self.rules@.skip(k + 1));
            }
//@end

//@fn vls-core/src/policy/filter.rs :: impl PolicyFilter :: merge props=C05
    ensures final(self).rules@ == old(self).rules@ + other.rules@,                                   //[C05.filter.merge-keeps-own-rules-first]
//@sub /self\.rules\.extend\(other\.rules\.into_iter\(\)\);/ => vx_extend_rules(&mut self.rules, other.rules);
//@end

}

#[verifier::external_body]
pub fn vx_extend_rules(a: &mut Vec<FilterRule>, b: Vec<FilterRule>) ensures final(a)@ == old(a)@ + b@ { a.extend(b.into_iter()) }

//@fn vls-core/src/policy/filter.rs :: impl Default for PolicyFilter :: default props=C05 as=policy_filter_default
//@sigsub /Self/ => PolicyFilter
    ensures r.rules@.len() == 0,                                                                      //[C05.filter.default-has-no-rules]
//@sub /vec!\[\]/ => Vec::new()
//@end

// a rule of this filter is decisive before any rule merged in later (Rules in this filter take precedence)
pub proof fn c05_merge_precedence(a: Seq<FilterRule>, b: Seq<FilterRule>, tag: Seq<char>)
    ensures filter_spec(a + b, tag) == (if exists|i: int| 0 <= i < a.len() && rule_matches(#[trigger] a[i], tag) { filter_spec(a, tag) } else { filter_spec(b, tag) })
    decreases a.len()
{
    if a.len() == 0 {
        assert(a + b =~= b);
    } else {
        assert((a + b)[0] == a[0]);
        assert((a + b).skip(1) =~= a.skip(1) + b);
        c05_merge_precedence(a.skip(1), b, tag);
        if rule_matches(a[0], tag) {
        } else {
            assert forall|i: int| 0 <= i < a.len() && rule_matches(#[trigger] a[i], tag) implies 0 <= i - 1 < a.skip(1).len() && rule_matches(a.skip(1)[i - 1], tag) by {}
            if exists|i: int| 0 <= i < a.skip(1).len() && rule_matches(#[trigger] a.skip(1)[i], tag) {
                let i = choose|i: int| 0 <= i < a.skip(1).len() && rule_matches(#[trigger] a.skip(1)[i], tag);
                assert(rule_matches(a[i + 1], tag));
            }
        }
    }
}
// the default filter downgrades nothing
pub proof fn c05_default_filter_is_strict(tag: Seq<char>) ensures filter_spec(Seq::<FilterRule>::empty(), tag) == FilterResult::Error {}

//@fn vls-core/src/policy/mod.rs :: - :: make_policy_error_with_filter props=C05
    ensures
        // refused exactly when the filter says Error for the tag, with a policy error that carries the tag
        r.is_err() == (filter_spec(filter.rules@, tag@) == FilterResult::Error),                      //[C05.filter.policy-error-iff-filter-says-error]
        r.is_err() ==> ve_tag(r->Err_0) == tag@ && ve_is_policy(r->Err_0),
//@end

//@fn vls-core/src/policy/mod.rs :: - :: policy_error_with_filter props=C05
    ensures
        r.is_err() == (filter_spec(filter.rules@, tag@) == FilterResult::Error),                      //[C05.filter.policy-err-macro-refuses-iff-error]
        r.is_err() ==> ve_tag(r->Err_0) == tag@ && ve_is_policy(r->Err_0),
//@end

//@fn vls-core/src/policy/mod.rs :: - :: temporary_policy_error_with_filter props=C05
    ensures
        r.is_err() == (filter_spec(filter.rules@, tag@) == FilterResult::Error),                      //[C05.filter.temporary-policy-err-refuses-iff-error]
        r.is_err() ==> ve_tag(r->Err_0) == tag@ && ve_is_temporary(r->Err_0),
//@end

// ---- what policy_err!(obj, tag, ..) expands to: obj.policy().policy_error(tag.into(), msg)? with SimplePolicy's implementation ----
//@type vls-core/src/policy/simple_validator.rs :: SimplePolicy drop=dev_flags,global_velocity_control,fee_velocity_control
impl SimplePolicy {
//@fn vls-core/src/policy/simple_validator.rs :: impl Policy for SimplePolicy :: policy_error props=C05
    ensures
        r.is_err() == (filter_spec(self.filter.rules@, tag@) == FilterResult::Error),                 //[C05.filter.simple-policy-refuses-iff-its-filter-says-error]
        r.is_err() ==> ve_tag(r->Err_0) == tag@ && ve_is_policy(r->Err_0),
//@end

//@fn vls-core/src/policy/simple_validator.rs :: impl Policy for SimplePolicy :: temporary_policy_error props=C05
    ensures
        r.is_err() == (filter_spec(self.filter.rules@, tag@) == FilterResult::Error),                 //[C05.filter.simple-policy-temporary-refuses-iff-error]
        r.is_err() ==> ve_tag(r->Err_0) == tag@ && ve_is_temporary(r->Err_0),
//@end
}

} // verus!
fn main() {}
