//@unit handler_cp
//@props C03 C04 C06 C02 C05
// The arms of the protocol handler (vls-protocol-signer/src/handler.rs, ChannelHandler::do_handle) through which the
// counterparty's commitments are signed and revoked and the holder's commitment is signed for broadcast - SignRemoteCommitmentTx2,
// ValidateRevocation, SignLocalCommitmentTx2, ValidateCommitmentTx2 - and the function that turns the HTLC list of a wire message
// into the two lists of the commitment (extract_htlcs).  The Channel operations are under contract in units channel_cp /
// channel_holder; what is decided HERE is which value of the message reaches which parameter of which operation, on which
// channel, and that the reply carries the operation's answer:
//   * each arm is lifted verbatim (rewrite R30); the closure it hands to Node::with_channel is lifted verbatim as well (R26) and
//     proved to make exactly one Channel call with the captured values; in the arm the `with_channel(&self.channel_id, |chan| ..)`
//     expression is replaced by a stub that names the captured variables as arguments (by the names of the lifted closure's
//     parameters) and whose contract is the closure's contract on the channel registered under self.channel_id;
//   * extract_htlcs: its four expression closures (two `filter` predicates, two `map` bodies) are lifted verbatim (R26,
//     expression form) and proved equal to the reference functions; the two `iter().filter(..).map(..).collect()` chains are
//     stubs with std semantics over those reference functions.  Result: first component = the HTLCs of side REMOTE (offered by
//     the peer), second = the HTLCs of side LOCAL (offered by this node); amounts are whole satoshis of the msat amount.
use vstd::prelude::*;
use vstd::std_specs::cmp::OrdSpec;
//@include prelude/core.rs
//@include prelude/deps.rs
//@include prelude/btc.rs
//@map /Result<Box<dyn SerBolt>>/ => Result<VxReply, Status>
//@map /PublicKey::from_slice\(&m\.remote_per_commitment_point\.0\)/ => vx_pubkey_from_wire(&m.remote_per_commitment_point)
//@map /SecretKey::from_slice\(&m\.commitment_secret\.0\)/ => vx_secret_from_wire(&m.commitment_secret)
//@map /ecdsa::Signature::from_compact\(&m\.signature\.signature\.0\)/ => vx_sig_from_wire(&m.signature)
//@map /EcdsaSighashType::All as u8/ => vx_sighash_all()
verus! {

//@@TAGS

//@const vls-protocol/src/msgs.rs :: PROTOCOL_VERSION_REVOKE

#[verifier::external_body] pub struct VxReply { _p: u8 }
#[verifier::external_body] pub struct VxChanView { _p: u8 }
#[verifier::external_body] pub struct VxChan { _p: u8 }        // the channel the closure is handed (&mut Channel)
#[verifier::external_body] pub struct VxNodeH { _p: u8 }
#[verifier::external_body] pub struct VxHandlerRest { _p: u8 }
// vls-protocol wire types
pub struct PubKey(pub [u8; 33]);
pub struct DisclosedSecret(pub [u8; 32]);
pub struct Sha256(pub [u8; 32]);
pub struct VxWireSig { pub sig64: [u8; 64] }
pub struct BitcoinSignature { pub signature: VxWireSig, pub sighash: u8 }
pub struct Htlc { pub side: u8, pub amount: u64, pub payment_hash: Sha256, pub ctlv_expiry: u32 }
impl Htlc {
//@const vls-protocol/src/model.rs :: LOCAL ctx="impl Htlc"
//@const vls-protocol/src/model.rs :: REMOTE ctx="impl Htlc"
}
// HTLCInfo2 (vls-core/src/tx/tx.rs): the semantic content of one HTLC of a commitment
//@type vls-core/src/tx/tx.rs :: HTLCInfo2 derive=Clone
pub struct VxHtlcArray { pub v: Vec<Htlc> }                 // serde_bolt::Array<Htlc>
pub struct VxSigArray { pub v: Vec<BitcoinSignature> }      // serde_bolt::Array<BitcoinSignature>

pub uninterp spec fn key_of_wire(k: PubKey) -> PublicKey;               // PublicKey::from_slice(&key.0)
pub uninterp spec fn secret_of_wire(k: DisclosedSecret) -> SecretKey;   // SecretKey::from_slice(&secret.0)
pub uninterp spec fn sig_of_wire(s: VxWireSig) -> Signature;            // ecdsa::Signature::from_compact(&sig.0)
pub uninterp spec fn wire_of_sig(s: Signature) -> BitcoinSignature;     // to_bitcoin_sig
pub struct VxBadKey { pub p: u8 }
#[verifier::external_body] pub fn vx_pubkey_from_wire(k: &PubKey) -> (r: Result<PublicKey, VxBadKey>) ensures r.is_ok() ==> r->Ok_0 == key_of_wire(*k) { unimplemented!() }
#[verifier::external_body] pub fn vx_secret_from_wire(k: &DisclosedSecret) -> (r: Result<SecretKey, VxBadKey>) ensures r.is_ok() ==> r->Ok_0 == secret_of_wire(*k) { unimplemented!() }
#[verifier::external_body] pub fn vx_sig_from_wire(k: &BitcoinSignature) -> (r: Result<Signature, VxBadKey>) ensures r.is_ok() ==> r->Ok_0 == sig_of_wire(k.signature) { unimplemented!() }
#[verifier::external_body] pub fn to_bitcoin_sig(s: Signature) -> (r: BitcoinSignature) ensures r == wire_of_sig(s) { unimplemented!() }
pub uninterp spec fn sighash_all_spec() -> u8;
#[verifier::external_body] pub fn vx_sighash_all() -> (r: u8) ensures r == sighash_all_spec() { unimplemented!() }

// ---------------------------------------------------------------- the HTLC lists a message denotes (reference, from the meaning
// of the wire fields: side 0 = offered by this node, 1 = offered by the peer; amount in millisatoshi; a commitment carries whole
// satoshis)
pub open spec fn htlc_info_of(h: Htlc) -> HTLCInfo2 {
    HTLCInfo2 { value_sat: h.amount / 1000, payment_hash: PaymentHash(h.payment_hash.0), cltv_expiry: h.ctlv_expiry }
}
pub open spec fn is_local(h: Htlc) -> bool { h.side == 0 }
pub open spec fn is_remote(h: Htlc) -> bool { h.side == 1 }
// filter-then-map over a sequence, written by recursion (F keeps, G maps)
pub open spec fn filter_map_seq(s: Seq<Htlc>, f: spec_fn(Htlc) -> bool, g: spec_fn(Htlc) -> HTLCInfo2) -> Seq<HTLCInfo2>
    decreases s.len()
{
    if s.len() == 0 { Seq::empty() }
    else if f(s.last()) { filter_map_seq(s.drop_last(), f, g).push(g(s.last())) }
    else { filter_map_seq(s.drop_last(), f, g) }
}
pub open spec fn htlcs_offered_by_node(s: Seq<Htlc>) -> Seq<HTLCInfo2> { filter_map_seq(s, |h: Htlc| is_local(h), |h: Htlc| htlc_info_of(h)) }
pub open spec fn htlcs_offered_by_peer(s: Seq<Htlc>) -> Seq<HTLCInfo2> { filter_map_seq(s, |h: Htlc| is_remote(h), |h: Htlc| htlc_info_of(h)) }
pub proof fn lemma_filter_map_ext(s: Seq<Htlc>, f1: spec_fn(Htlc) -> bool, g1: spec_fn(Htlc) -> HTLCInfo2, f2: spec_fn(Htlc) -> bool, g2: spec_fn(Htlc) -> HTLCInfo2)
    requires forall|h: Htlc| #[trigger] f1(h) == f2(h), forall|h: Htlc| #[trigger] g1(h) == g2(h),
    ensures filter_map_seq(s, f1, g1) == filter_map_seq(s, f2, g2),
    decreases s.len()
{
    if s.len() > 0 { lemma_filter_map_ext(s.drop_last(), f1, g1, f2, g2); }
}

// `htlcs.iter().filter(F).map(G).collect()` with the first / second pair of closures of extract_htlcs (std iterator semantics:
// the elements F keeps, in order, each mapped by G; F and G are the lifted closures below, proved equal to the spec_extract_*
// functions on their real text)
#[verifier::external_body]
pub fn vx_filter_map_chain1(htlcs: &[Htlc]) -> (r: Vec<HTLCInfo2>)
    ensures r@ == filter_map_seq(htlcs@, |h: Htlc| spec_extract_filter1(h), |h: Htlc| spec_extract_map1(h)) { unimplemented!() }
#[verifier::external_body]
pub fn vx_filter_map_chain2(htlcs: &[Htlc]) -> (r: Vec<HTLCInfo2>)
    ensures r@ == filter_map_seq(htlcs@, |h: Htlc| spec_extract_filter2(h), |h: Htlc| spec_extract_map2(h)) { unimplemented!() }
// what the closures of extract_htlcs compute (each proved below on the closure's real text)
pub open spec fn spec_extract_filter1(h: Htlc) -> bool { is_local(h) }
pub open spec fn spec_extract_map1(h: Htlc) -> HTLCInfo2 { htlc_info_of(h) }
pub open spec fn spec_extract_filter2(h: Htlc) -> bool { is_remote(h) }
pub open spec fn spec_extract_map2(h: Htlc) -> HTLCInfo2 { htlc_info_of(h) }

//@fn vls-protocol-signer/src/handler.rs :: - :: extract_htlcs exprclosure=1 as=extract_htlcs_filter1 props=C04,C06
//@sig fn extract_htlcs_filter1(h: &&Htlc) -> (r: bool)
    ensures r == spec_extract_filter1(**h),
//@end
//@fn vls-protocol-signer/src/handler.rs :: - :: extract_htlcs exprclosure=2 as=extract_htlcs_map1 props=C04,C06
//@sig fn extract_htlcs_map1(h: &Htlc) -> (r: HTLCInfo2)
    ensures r == spec_extract_map1(*h),
//@end
//@fn vls-protocol-signer/src/handler.rs :: - :: extract_htlcs exprclosure=3 as=extract_htlcs_filter2 props=C04,C06
//@sig fn extract_htlcs_filter2(h: &&Htlc) -> (r: bool)
    ensures r == spec_extract_filter2(**h),
//@end
//@fn vls-protocol-signer/src/handler.rs :: - :: extract_htlcs exprclosure=4 as=extract_htlcs_map2 props=C04,C06
//@sig fn extract_htlcs_map2(h: &Htlc) -> (r: HTLCInfo2)
    ensures r == spec_extract_map2(*h),
//@end

//@fn vls-protocol-signer/src/handler.rs :: - :: extract_htlcs props=C04,C06
    ensures
        // first component: what the PEER offered (side REMOTE), second: what THIS NODE offered (side LOCAL) - a counterparty
        // commitment names them (offered, received), a holder commitment (received, offered)
        r.0@ == htlcs_offered_by_peer(htlcs@),                                                   //[C04.handler.htlc-lists-by-side] [C06.handler.htlc-direction-is-the-messages-side]
        r.1@ == htlcs_offered_by_node(htlcs@),                                                   //[C04.handler.htlc-lists-by-side] [C06.handler.htlc-direction-is-the-messages-side]
//@sub /(?s)htlcs\s*\.iter\(\)\s*\.filter\(\|h\| [^\n]*?\)\s*\.map\(\|h\| HTLCInfo2 \{.*?\}\)\s*\.collect\(\);(.*?)htlcs\s*\.iter\(\)\s*\.filter\(\|h\| [^\n]*?\)\s*\.map\(\|h\| HTLCInfo2 \{.*?\}\)\s*\.collect\(\);/ => vx_filter_map_chain1(htlcs);\1vx_filter_map_chain2(htlcs);
//@proof before /^\s*\(\w+, \w+\)\s*$/
    proof {
        lemma_filter_map_ext(htlcs@, |h: Htlc| spec_extract_filter1(h), |h: Htlc| spec_extract_map1(h), |h: Htlc| is_local(h), |h: Htlc| htlc_info_of(h));
        lemma_filter_map_ext(htlcs@, |h: Htlc| spec_extract_filter2(h), |h: Htlc| spec_extract_map2(h), |h: Htlc| is_remote(h), |h: Htlc| htlc_info_of(h));
    }
//@end

// ---------------------------------------------------------------- call markers: the channel (in the state given) answered this
// call, with exactly these arguments, with this result, leaving it in the state `after` (the operations themselves are under
// contract in units channel_cp, channel_holder; DESIGN.md section 6.9)
pub uninterp spec fn chan_signed_cp2(c: VxChanView, point: PublicKey, n: u64, feerate: u32, to_holder: u64, to_cp: u64, offered: Seq<HTLCInfo2>, received: Seq<HTLCInfo2>,
    r: Result<(Signature, Vec<Signature>), Status>, after: VxChanView) -> bool;
pub uninterp spec fn chan_validated_cp_revocation(c: VxChanView, n: u64, secret: SecretKey, r: Result<(), Status>, after: VxChanView) -> bool;
pub uninterp spec fn chan_signed_holder2(c: VxChanView, n: u64, r: Result<Signature, Status>, after: VxChanView) -> bool;
// the channel registered in the node under this id is in this state
pub uninterp spec fn node_channel(n: VxNodeH, id: ChannelId, c: VxChanView) -> bool;

impl VxChan {
    pub uninterp spec fn view(&self) -> VxChanView;
    #[verifier::external_body]
    pub fn sign_counterparty_commitment_tx_phase2(&mut self, remote_per_commitment_point: &PublicKey, commitment_number: u64, feerate_per_kw: u32,
        to_holder_value_sat: u64, to_counterparty_value_sat: u64, offered_htlcs: Vec<HTLCInfo2>, received_htlcs: Vec<HTLCInfo2>) -> (r: Result<(Signature, Vec<Signature>), Status>)
        ensures chan_signed_cp2(old(self)@, *remote_per_commitment_point, commitment_number, feerate_per_kw, to_holder_value_sat, to_counterparty_value_sat,
            offered_htlcs@, received_htlcs@, r, final(self)@)
    { unimplemented!() }
    #[verifier::external_body]
    pub fn validate_counterparty_revocation(&mut self, revoke_num: u64, old_secret: &SecretKey) -> (r: Result<(), Status>)
        ensures chan_validated_cp_revocation(old(self)@, revoke_num, *old_secret, r, final(self)@) { unimplemented!() }
    #[verifier::external_body]
    pub fn sign_holder_commitment_tx_phase2(&mut self, commitment_number: u64) -> (r: Result<Signature, Status>)
        ensures chan_signed_holder2(old(self)@, commitment_number, r, final(self)@) { unimplemented!() }
}
#[verifier::external_body]
pub fn vx_clone_htlcs(v: &Vec<HTLCInfo2>) -> (r: Vec<HTLCInfo2>) ensures r@ == v@ { unimplemented!() }

pub struct SignRemoteCommitmentTx2 { pub remote_per_commitment_point: PubKey, pub commitment_number: u64, pub feerate: u32, pub to_local_value_sat: u64,
    pub to_remote_value_sat: u64, pub htlcs: VxHtlcArray }
pub struct ValidateRevocation { pub commitment_number: u64, pub commitment_secret: DisclosedSecret }
pub struct SignLocalCommitmentTx2 { pub commitment_number: u64 }
pub struct ChannelHandler { pub node: VxNodeH, pub channel_id: ChannelId, pub protocol_version: u32, pub rest: VxHandlerRest }

// replies: the reply carries exactly this answer
pub uninterp spec fn reply_sig_with_htlcs(sig: Signature, htlc_sigs: Seq<Signature>) -> VxReply;
pub uninterp spec fn reply_commitment_sig(sig: Signature) -> VxReply;
pub uninterp spec fn reply_revocation_validated() -> VxReply;
#[verifier::external_body] pub fn vx_reply_sig_with_htlcs(sig: Signature, htlc_sigs: Vec<Signature>) -> (r: VxReply) ensures r == reply_sig_with_htlcs(sig, htlc_sigs@) { unimplemented!() }
#[verifier::external_body] pub fn vx_reply_commitment_sig(sig: BitcoinSignature) -> (r: VxReply) ensures forall|s: Signature| sig == wire_of_sig(s) ==> r == reply_commitment_sig(s) { unimplemented!() }
#[verifier::external_body] pub fn vx_reply_revocation_validated() -> (r: VxReply) ensures r == reply_revocation_validated() { unimplemented!() }

impl ChannelHandler {

// ------------------------------------------------ SignRemoteCommitmentTx2
//@fn vls-protocol-signer/src/handler.rs :: impl Handler for ChannelHandler :: do_handle closure=1 after="Message::SignRemoteCommitmentTx2\(m\) =>" as=sign_remote_commitment_tx2_closure props=C03,C04
//@sig fn sign_remote_commitment_tx2_closure(&self, chan: &mut VxChan, m: &SignRemoteCommitmentTx2, remote_per_commitment_point: PublicKey, commit_num: u64, feerate_sat_per_kw: u32, offered_htlcs: &Vec<HTLCInfo2>, received_htlcs: &Vec<HTLCInfo2>) -> (r: Result<(Signature, Vec<Signature>), Status>)
    ensures
        chan_signed_cp2(old(chan)@, remote_per_commitment_point, commit_num, feerate_sat_per_kw, m.to_local_value_sat, m.to_remote_value_sat,
            offered_htlcs@, received_htlcs@, r, final(chan)@),                                                       //[C04.handler.sign-remote2-closure-one-call-with-the-captured-values]
//@sub /offered_htlcs\.clone\(\)/ => vx_clone_htlcs(offered_htlcs)
//@sub /received_htlcs\.clone\(\)/ => vx_clone_htlcs(received_htlcs)
//@end

    // `self.node.with_channel(&self.channel_id, CLOSURE)` of the arm, CLOSURE = the function above (arguments = the variables it captures)
    #[verifier::external_body]
    pub fn vx_with_channel_sign_remote2(&self, m: &SignRemoteCommitmentTx2, remote_per_commitment_point: PublicKey, commit_num: u64, feerate_sat_per_kw: u32,
        offered_htlcs: &Vec<HTLCInfo2>, received_htlcs: &Vec<HTLCInfo2>) -> (r: Result<(Signature, Vec<Signature>), Status>)
        ensures r.is_ok() ==> exists|c0: VxChanView, c1: VxChanView| node_channel(self.node, self.channel_id, c0)
            && #[trigger] chan_signed_cp2(c0, remote_per_commitment_point, commit_num, feerate_sat_per_kw, m.to_local_value_sat, m.to_remote_value_sat, offered_htlcs@, received_htlcs@, r, c1)
    { unimplemented!() }

//@fn vls-protocol-signer/src/handler.rs :: impl Handler for ChannelHandler :: do_handle arm="Message::SignRemoteCommitmentTx2\(m\)" as=arm_sign_remote_commitment_tx2 props=C03,C04,C06,C05
//@sig fn arm_sign_remote_commitment_tx2(&self, m: SignRemoteCommitmentTx2) -> (r: Result<VxReply, Status>)
    ensures
        // a reply means: the channel registered under THIS handler's id signed counterparty commitment number m.commitment_number
        // for the point, fee rate and balances of the message (to_local = the holder's), with the peer's HTLCs as the ones the
        // counterparty OFFERS and this node's HTLCs as the ones it RECEIVES - and the reply carries exactly the signatures the
        // channel returned
        r.is_ok() ==> exists|c0: VxChanView, c1: VxChanView, sig: Signature, hs: Vec<Signature>| node_channel(self.node, self.channel_id, c0)
            && #[trigger] chan_signed_cp2(c0, key_of_wire(m.remote_per_commitment_point), m.commitment_number, m.feerate, m.to_local_value_sat, m.to_remote_value_sat,
                htlcs_offered_by_peer(m.htlcs.v@), htlcs_offered_by_node(m.htlcs.v@), Ok((sig, hs)), c1)                 //[C03.handler.sign-remote2-number-and-point-of-the-message] [C04.handler.sign-remote2-content-of-the-message] [C06.handler.sign-remote2-htlc-directions] [C05.handler.sign-remote2-content-of-the-message]
            && r->Ok_0 == reply_sig_with_htlcs(sig, hs@),                                                            //[C04.handler.sign-remote2-reply-carries-the-channels-signatures]
//@sub /(?s)self\.node\.with_channel\(&self\.channel_id, \|chan\| \{.*?\n\s*\}\)\?/ => self.vx_with_channel_sign_remote2(&m, remote_per_commitment_point, commit_num, feerate_sat_per_kw, &offered_htlcs, &received_htlcs)?
//@sub /(?s)Ok\(Box::new\(msgs::SignCommitmentTxWithHtlcsReply \{\s*signature: to_bitcoin_sig\(sig\),\s*htlc_signatures: Array\(\s*htlc_sigs\.into_iter\(\)\.map\(\|s\| to_bitcoin_sig\(s\)\)\.collect\(\),?\s*\),?\s*\}\)\)/ => Ok(vx_reply_sig_with_htlcs(sig, htlc_sigs))
//@sub /extract_htlcs\(&m\.htlcs\)/ => extract_htlcs(m.htlcs.v.as_slice())
//@end

// ------------------------------------------------ ValidateRevocation
//@fn vls-protocol-signer/src/handler.rs :: impl Handler for ChannelHandler :: do_handle closure=1 after="Message::ValidateRevocation\(m\) =>" as=validate_revocation_closure props=C03
//@sig fn validate_revocation_closure(&self, chan: &mut VxChan, revoke_num: u64, old_secret: SecretKey) -> (r: Result<(), Status>)
    ensures chan_validated_cp_revocation(old(chan)@, revoke_num, old_secret, r, final(chan)@),               //[C03.handler.validate-revocation-closure-one-call]
//@end

    #[verifier::external_body]
    pub fn vx_with_channel_validate_revocation(&self, revoke_num: u64, old_secret: SecretKey) -> (r: Result<(), Status>)
        ensures r.is_ok() ==> exists|c0: VxChanView, c1: VxChanView| node_channel(self.node, self.channel_id, c0)
            && #[trigger] chan_validated_cp_revocation(c0, revoke_num, old_secret, r, c1)
    { unimplemented!() }

//@fn vls-protocol-signer/src/handler.rs :: impl Handler for ChannelHandler :: do_handle arm="Message::ValidateRevocation\(m\)" as=arm_validate_revocation props=C03
//@sig fn arm_validate_revocation(&self, m: ValidateRevocation) -> (r: Result<VxReply, Status>)
    ensures
        // "revocation accepted" is answered only if the channel of this handler accepted the message's secret for the message's number
        r.is_ok() ==> exists|c0: VxChanView, c1: VxChanView| node_channel(self.node, self.channel_id, c0)
            && #[trigger] chan_validated_cp_revocation(c0, m.commitment_number, secret_of_wire(m.commitment_secret), Ok(()), c1),   //[C03.handler.validate-revocation-number-and-secret-of-the-message]
//@sub /(?s)self\.node\.with_channel\(&self\.channel_id, \|chan\| \{.*?\n\s*\}\)\?/ => self.vx_with_channel_validate_revocation(revoke_num, old_secret)?
//@sub /Ok\(Box::new\(msgs::ValidateRevocationReply \{\}\)\)/ => Ok(vx_reply_revocation_validated())
//@end

// ------------------------------------------------ SignLocalCommitmentTx2
//@fn vls-protocol-signer/src/handler.rs :: impl Handler for ChannelHandler :: do_handle closure=1 after="Message::SignLocalCommitmentTx2\(m\) =>" as=sign_local_commitment_tx2_closure props=C02
//@sig fn sign_local_commitment_tx2_closure(&self, chan: &mut VxChan, m: &SignLocalCommitmentTx2) -> (r: Result<Signature, Status>)
    ensures chan_signed_holder2(old(chan)@, m.commitment_number, r, final(chan)@),                             //[C02.handler.sign-local2-closure-one-call]
//@end

    #[verifier::external_body]
    pub fn vx_with_channel_sign_local2(&self, m: &SignLocalCommitmentTx2) -> (r: Result<Signature, Status>)
        ensures r.is_ok() ==> exists|c0: VxChanView, c1: VxChanView| node_channel(self.node, self.channel_id, c0)
            && #[trigger] chan_signed_holder2(c0, m.commitment_number, r, c1)
    { unimplemented!() }

//@fn vls-protocol-signer/src/handler.rs :: impl Handler for ChannelHandler :: do_handle arm="Message::SignLocalCommitmentTx2\(m\)" as=arm_sign_local_commitment_tx2 props=C02
//@sig fn arm_sign_local_commitment_tx2(&self, m: SignLocalCommitmentTx2) -> (r: Result<VxReply, Status>)
    ensures
        // the holder's signature in the reply is the channel's answer to sign_holder_commitment_tx_phase2 for the message's number
        // (which signs only the current commitment and marks the channel closed, unit channel_holder)
        r.is_ok() ==> exists|c0: VxChanView, c1: VxChanView, sig: Signature| node_channel(self.node, self.channel_id, c0)
            && #[trigger] chan_signed_holder2(c0, m.commitment_number, Ok(sig), c1) && r->Ok_0 == reply_commitment_sig(sig),     //[C02.handler.sign-local2-goes-through-the-channel-with-the-messages-number]
//@sub /(?s)self\.node\.with_channel\(&self\.channel_id, \|chan\| \{.*?\n\s*\}\)\?/ => self.vx_with_channel_sign_local2(&m)?
//@sub /Ok\(Box::new\(msgs::SignCommitmentTxReply \{ signature: (.*?) \}\)\)/ => Ok(vx_reply_commitment_sig(\1))
//@end

} // impl

} // verus!
fn main() {}
